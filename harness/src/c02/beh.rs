//! C02 behavioural correspondence: generated copy-then-mutate scripts, run on
//! the real compiler, against the Lean value-semantics spec.
//!
//! A program is a typed AST printed twice: as Roto source and as a token
//! stream for `c02 spec …` of the Lean driver (`RotoV.Model.ValueSpec`).
use crate::types::*;
use roto::{FileTree, List, NoCtx, Runtime, library, RotoString, Val};
use rotov_harness::driver::{Driver, hex};
use rotov_harness::{Prng, Report};
use serde_json::{Value, json};
use std::sync::Mutex;
use std::net::IpAddr;
use inetnum::{addr::Prefix, asn::Asn};

// ------------------------------------------------------------ host side

static LOG: Mutex<Vec<String>> = Mutex::new(Vec::new());
fn log(s: String) {
    LOG.lock().unwrap().push(s);
}

/// live instances of `Big` (created + cloned - dropped)
pub static LIVE_BIG: std::sync::atomic::AtomicI64 = std::sync::atomic::AtomicI64::new(0);
/// drops of an already dropped `Big`
pub static BAD_BIG: std::sync::atomic::AtomicI64 = std::sync::atomic::AtomicI64::new(0);

#[derive(Debug, PartialEq)]
pub struct Big {
    a: u64,
    b: u32,
    c: u64,
}
impl Big {
    fn new(x: u32) -> Big {
        LIVE_BIG.fetch_add(1, std::sync::atomic::Ordering::SeqCst);
        Big { a: x as u64 + 1, b: x, c: !(x as u64) }
    }
}
impl Clone for Big {
    fn clone(&self) -> Big {
        if self.a != self.b as u64 + 1 {
            BAD_BIG.fetch_add(1, std::sync::atomic::Ordering::SeqCst);
        }
        Big::new(self.b)
    }
}
impl Drop for Big {
    fn drop(&mut self) {
        if self.a != self.b as u64 + 1 {
            BAD_BIG.fetch_add(1, std::sync::atomic::Ordering::SeqCst);
        }
        LIVE_BIG.fetch_sub(1, std::sync::atomic::Ordering::SeqCst);
        // poison: a second drop or a use after drop is noticed
        unsafe { std::ptr::write_volatile(&mut self.a, 0xDEAD_0000_0000) };
    }
}
#[derive(Clone, Copy, Debug, PartialEq)]
pub struct Pt(u8, u8, u8);

/// Fill the stack below the caller with known garbage: byte `k` below the
/// caller's frame gets `hash(k) ^ v`. Bytes of a value that are not part of it
/// (padding, the storage of the variants that are not live) are never written
/// by a script: they keep what the stack held before. The harness paints
/// before every call of `main`, so two values built in different places of
/// `main`'s frame differ in those bytes; a script that calls `paint_stack(a)`,
/// builds a value inside a callee, calls `paint_stack(b)` (a ≠ b) and builds
/// the same value again in the same callee holds two values that are equal as
/// values and differ in EVERY such byte — deterministically.
#[inline(never)]
pub fn paint(v: u8) {
    const N: usize = 64 * 1024;
    let mut buf = [std::mem::MaybeUninit::<u8>::uninit(); N];
    for (i, b) in buf.iter_mut().enumerate() {
        let k = (N - i) as u32;
        let g = (k.wrapping_mul(0x9E37_79B1) >> 24) as u8;
        unsafe { std::ptr::write_volatile(b.as_mut_ptr(), g ^ v) };
    }
    std::hint::black_box(&mut buf);
}

/// side channel of the representation battery (never emitted, so never part
/// of the expected output): pairs of lists a script is about to compare whose
/// element buffers hold other / the same bytes (hook `element_bytes`)
pub static BYTES_DIFFER: std::sync::atomic::AtomicU64 = std::sync::atomic::AtomicU64::new(0);
pub static BYTES_SAME: std::sync::atomic::AtomicU64 = std::sync::atomic::AtomicU64::new(0);
fn note_bytes<T: roto::Value>(a: &List<T>, b: &List<T>) {
    use roto::verif_hooks::c02::element_bytes;
    let c = if element_bytes(a) != element_bytes(b) { &BYTES_DIFFER } else { &BYTES_SAME };
    c.fetch_add(1, std::sync::atomic::Ordering::SeqCst);
}

pub fn runtime() -> Runtime<NoCtx> {
    Runtime::from_lib(library! {
        /// 24-byte registered Clone type
        #[clone] type Big = Val<Big>;
        /// 3-byte registered Copy type, align 1
        #[copy] type Pt = Val<Pt>;
        /// make one
        fn mk_big(x: u32) -> Val<Big> { Val(Big::new(x)) }
        /// make one
        fn mk_pt(x: u8) -> Val<Pt> { Val(Pt(x, x.wrapping_add(1), !x)) }
        /// emit
        fn emit_big(v: Val<Big>) {
            let v = &v.0;
            assert!(v.a == v.b as u64 + 1 && v.c == !(v.b as u64), "corrupted Big {v:?}");
            log(format!("i:{}", v.b))
        }
        /// emit
        fn emit_pt(v: Val<Pt>) {
            let v = v.0;
            assert!(v.1 == v.0.wrapping_add(1) && v.2 == !v.0, "corrupted Pt {v:?}");
            log(format!("i:{}", v.0))
        }
        /// emit
        fn emit_bool(v: bool) { log(format!("i:{}", v as u8)) }
        /// emit
        fn emit_u8(v: u8) { log(format!("i:{v}")) }
        /// emit
        fn emit_u16(v: u16) { log(format!("i:{v}")) }
        /// emit
        fn emit_u32(v: u32) { log(format!("i:{v}")) }
        /// emit
        fn emit_u64(v: u64) { log(format!("i:{v}")) }
        /// emit
        fn emit_i8(v: i8) { log(format!("i:{v}")) }
        /// emit
        fn emit_i16(v: i16) { log(format!("i:{v}")) }
        /// emit
        fn emit_i32(v: i32) { log(format!("i:{v}")) }
        /// emit
        fn emit_i64(v: i64) { log(format!("i:{v}")) }
        /// emit
        fn emit_str(v: RotoString) { log(format!("s:{}", hex(&v.to_string()))) }
        /// emit
        fn emit_unit() { log("u".to_string()) }
        /// emit
        fn emit_f32(v: f32) { log(format!("o:{}", hex(&format!("{v}")))) }
        /// emit
        fn emit_f64(v: f64) { log(format!("o:{}", hex(&format!("{v}")))) }
        /// emit
        fn emit_char(v: char) { log(format!("o:{}", hex(&format!("{v}")))) }
        /// emit
        fn emit_asn(v: Asn) { log(format!("o:{}", hex(&format!("{v}")))) }
        /// emit
        fn emit_ip(v: IpAddr) { log(format!("o:{}", hex(&format!("{v}")))) }
        /// emit
        fn emit_prefix(v: Prefix) { log(format!("o:{}", hex(&format!("{v}")))) }
        /// emit the tag of an enum value
        fn emit_tag(v: u32) { log(format!("t:{v}")) }
        /// emit the length of a list
        fn emit_len(v: u64) { log(format!("n:{v}")) }
        /// fill the unused stack with one byte value (see `paint`)
        fn paint_stack(v: u8) { paint(v) }
        /// returns its first argument (call arguments are evaluated left to right)
        fn first_u32(a: u32, b: u8) -> u32 { let _ = b; a }
        /// returns its first argument
        fn first_str(a: RotoString, b: u8) -> RotoString { let _ = b; a }
        /// measure (side channel): do the two element buffers hold the same bytes?
        fn note_ou32(a: List<Option<u32>>, b: List<Option<u32>>) { note_bytes(&a, &b) }
        /// measure (side channel)
        fn note_ou8(a: List<Option<u8>>, b: List<Option<u8>>) { note_bytes(&a, &b) }
        /// measure (side channel)
        fn note_oi64(a: List<Option<i64>>, b: List<Option<i64>>) { note_bytes(&a, &b) }
        /// measure (side channel)
        fn note_f64(a: List<f64>, b: List<f64>) { note_bytes(&a, &b) }
    })
    .expect("runtime")
}

pub const NARGS: usize = 7;
pub const ARG_TYPES: [T; NARGS] = [
    T::Int(false, 8),
    T::Int(false, 16),
    T::Int(false, 32),
    T::Int(false, 64),
    T::Int(true, 8),
    T::Int(true, 64),
    T::Bool,
];
pub type Args = (u8, u16, u32, u64, i8, i64, bool);

fn arg_val(a: &Args, i: usize) -> i128 {
    match i {
        0 => a.0 as i128,
        1 => a.1 as i128,
        2 => a.2 as i128,
        3 => a.3 as i128,
        4 => a.4 as i128,
        5 => a.5 as i128,
        _ => a.6 as i128,
    }
}

// ------------------------------------------------------------ AST

#[derive(Clone, Debug)]
pub enum E {
    Lit(i128),
    BLit(bool),
    /// opaque literal: (source text, text the host prints for it)
    Opaque(&'static str, &'static str),
    Str(String),
    Unit,
    Arg(usize),
    Var(usize),
    Fld(Box<E>, usize, String),
    /// record constructor: `Some(name)` = declared record, `None` = anonymous
    Rec(Option<String>, Vec<(String, E)>),
    /// enum constructor: source text of the constructor, abstract tag, fields
    Enm(String, usize, Vec<E>),
    Lst(Vec<E>),
    /// identity function call `id_k(e)`
    Pass(usize, Box<E>),
    /// `setf_k(e)`: `fn setf_k(x: T) -> T { x.<path> = <const>; x }` — the callee
    /// mutates ITS copy and returns it
    PassSet(usize, Vec<(usize, String)>, Box<E>, Box<E>),
    /// `if c { a } else { b }` as an expression
    If(Box<E>, Box<E>, Box<E>),
    /// `{ let t = e; t.<path> = f; t }` as an expression (t = variable index)
    Block(usize, Vec<(usize, String)>, Box<E>, Box<E>),
    /// registered host value built by a host function: `mk_big(e)` / `mk_pt(e)`
    Host(&'static str, Box<E>),
    /// `list.get(i)`: `Some(element copy)` / `None`
    Get(Box<E>, u64),
    /// `list.contains(x)` (structural equality of elements)
    Contains(Box<E>, Box<E>),
    /// `list.index(x)`: `Some(first position)` / `None`
    Index(Box<E>, Box<E>),
    /// `a.concat(b)`: a NEW list holding copies of the elements of both
    Concat(Box<E>, Box<E>),
    /// `try_k(e)`: `fn try_k(x: Option[T]) -> Option[U] { let y = x?; Some(y.<path>) }`
    Try(usize, Vec<usize>, Box<E>),
    Eq(bool, Box<E>, Box<E>),
    Len(Box<E>),
    /// float literal whose `==` class differs from its text: (source, text the
    /// host prints, what `==` compares) — `-0.0` prints `-0` and equals `0.0`
    OpaqueK(&'static str, &'static str, &'static str),
    /// `make_k(p0, …, p6)`: `fn make_k(p0: u8, …) -> T { <e> }` — the value is
    /// built inside the callee's frame (from `main`'s arguments and literals)
    /// and comes back through the return slot
    Make(usize, Box<E>),
    /// `stale_k(l)`: the one-element list `[l.get(l.len())]` = `[None]`, read
    /// through a result variable that held `Some(l[i])` on the iterations before
    StaleNone(usize, Box<E>),
    /// `{ s1; …; e }`: a block expression whose statements WRITE to variables
    /// of the enclosing scope (assign a variable / a field path, compound
    /// assignment, push), then its value. As a later component of a
    /// constructor it changes what an earlier component's expression names —
    /// the earlier component must hold the value from before
    Seq(Vec<S>, Box<E>),
    /// record literal with its initialisers in an explicit source order:
    /// (declared position, field name, initialiser) in the order written
    RecO(Option<String>, Vec<(usize, String, E)>),
    /// `<fn>(a, b)`: a function (Roto helper or host function) that returns
    /// its first argument; both arguments are evaluated, left to right
    First(String, Box<E>, Box<E>),
}

/// the order in which the printer writes the initialisers of `E::Rec` (they
/// are matched by name, and EVALUATED in the order written): position k of
/// the result = declared index of the k-th initialiser in the source
pub fn rec_order(declared_record: bool, n: usize) -> Vec<usize> {
    let mut o: Vec<usize> = (0..n).collect();
    if declared_record && n % 2 == 0 {
        o.reverse();
    } else if declared_record && n >= 3 {
        o.rotate_left(1);
    }
    o
}

#[derive(Clone, Debug)]
pub struct Arm {
    /// `None` = the `_` arm
    pub pat: Option<(String, usize)>,
    pub binds: Vec<usize>,
    pub guard: Option<E>,
    pub body: Vec<S>,
}

#[derive(Clone, Debug)]
pub enum S {
    Let(usize, Option<String>, E),
    Set(usize, Vec<(usize, String)>, E),
    /// compound assignment `v.path <op>= e` on an integer (`+`, `-`, `*`,
    /// wrapping at the width of the type) or a string (`+`)
    CSet(usize, Vec<(usize, String)>, char, T, E),
    Push(E, E),
    Swap(E, u64, u64),
    /// emit every component of the value of `E` (type-directed expansion in
    /// source, value-directed in the spec)
    Emit(E, T),
    Match(E, Vec<Arm>),
    For(usize, E, Vec<S>),
    If(E, Vec<S>, Vec<S>),
    /// `paint_stack(n);`
    Paint(u8),
    /// `note_<sfx>(a, b);` — side channel, no observable effect
    Note(&'static str, usize, usize),
    /// `callee_k(a1, …, an);` — a Roto function `fn callee_k(v_i: T1, …) { body }`
    /// (printed among the helpers when the statement is built) whose
    /// parameters are the variables `v_i`: under value semantics the call is
    /// `let v_i = a_i; …; body` (parameters are copies; variable names are
    /// unique in a script), which is what the spec gets
    Call(usize, Vec<(usize, E)>, Vec<S>),
}

pub struct Case {
    pub script: String,
    pub spec: String,
    pub args: Vec<Args>,
    pub sig: String,
}

// ------------------------------------------------------------ generator

struct Gen<'a> {
    p: &'a mut Prng,
    env: Env,
    /// variables: type (None = out of scope / anonymous-record typed)
    vars: Vec<VarInfo>,
    helpers: Vec<String>,
    kinds: std::collections::BTreeSet<&'static str>,
    fresh: usize,
    /// building the constant of a helper function: no variables, no arguments
    closed: bool,
    /// … except `main`'s arguments, which the helper receives under the same names
    closed_args: bool,
    /// inside the body of a `for`: no unconditional push (the loop would never end)
    in_for: bool,
}

#[derive(Clone)]
struct VarInfo {
    ty: T,
    /// anonymous record: field list (type cannot be written in source)
    anon: Option<Vec<(String, T)>>,
    live: bool,
    /// a `const` item: readable (whole or by field), never assigned
    is_const: bool,
    /// anonymous records built by one literal (and copies of it) share a type
    origin: usize,
}

fn vname(i: usize) -> String {
    format!("v{i}")
}

impl<'a> Gen<'a> {
    fn fields_of(&self, t: &T) -> Option<Vec<(String, T)>> {
        if let T::Named(i, args) = t {
            if let Decl::Record { fields, .. } = &self.env.decls[*i] {
                return Some(
                    fields
                        .iter()
                        .map(|(n, ft)| (n.clone(), ft.subst(args)))
                        .collect(),
                );
            }
        }
        None
    }

    /// variants of an enum-like type: (constructor source, pattern source, tag, field types)
    fn variants_of(&self, t: &T) -> Option<Vec<(String, String, usize, Vec<T>)>> {
        match t {
            T::Opt(a) => Some(vec![
                ("Some".into(), "Some".into(), 0, vec![(**a).clone()]),
                ("None".into(), "None".into(), 1, vec![]),
            ]),
            T::Res(a, b) => Some(vec![
                ("Ok".into(), "Ok".into(), 0, vec![(**a).clone()]),
                ("Err".into(), "Err".into(), 1, vec![(**b).clone()]),
            ]),
            T::Verdict(a, b) => Some(vec![
                ("Verdict.Accept".into(), "Accept".into(), 0, vec![(**a).clone()]),
                ("Verdict.Reject".into(), "Reject".into(), 1, vec![(**b).clone()]),
            ]),
            T::Named(i, args) => {
                if let Decl::Enum { name, variants, .. } = &self.env.decls[*i] {
                    Some(
                        variants
                            .iter()
                            .enumerate()
                            .map(|(k, (v, ts))| {
                                (
                                    format!("{name}.{v}"),
                                    v.clone(),
                                    k,
                                    ts.iter()
                                        .map(|ft| ft.subst(args))
                                        .collect(),
                                )
                            })
                            .collect(),
                    )
                } else {
                    None
                }
            }
            _ => None,
        }
    }

    fn new_var(&mut self, ty: T, anon: Option<Vec<(String, T)>>) -> usize {
        let origin = self.vars.len();
        self.vars.push(VarInfo { ty, anon, live: true, is_const: false, origin });
        self.vars.len() - 1
    }

    fn lit(&mut self, t: &T) -> E {
        match t {
            T::Bool => E::BLit(self.p.chance(1, 2)),
            T::Int(s, b) => {
                // integer literals are parsed as i64: the extremes of u64 / i64
                // come in through `main`'s arguments instead
                let (lo, hi): (i128, i128) = if *s {
                    ((-(1i128 << (b - 1))).max(-(i64::MAX as i128)), (1i128 << (b - 1)) - 1)
                } else {
                    (0, ((1i128 << b) - 1).min(i64::MAX as i128))
                };
                match self.p.below(7) {
                    0 => E::Lit(lo),
                    1 => E::Lit(hi),
                    2 => E::Lit(0),
                    3 => E::Lit(1),
                    4 => E::Lit(hi - 1),
                    _ => E::Lit(lo + (self.p.next() as i128).rem_euclid(hi - lo + 1)),
                }
            }
            _ => unreachable!(),
        }
    }

    /// record-field paths below a type: (path, type)
    fn type_paths(&self, t: &T, max: usize) -> Vec<(Vec<(usize, String)>, T)> {
        let mut out = vec![];
        let mut work: Vec<(Vec<(usize, String)>, T)> = vec![(vec![], t.clone())];
        while let Some((p, t)) = work.pop() {
            if !p.is_empty() {
                out.push((p.clone(), t.clone()));
            }
            if p.len() >= max {
                continue;
            }
            if let Some(fs) = self.fields_of(&t) {
                for (k, (n, ft)) in fs.iter().enumerate() {
                    let mut q = p.clone();
                    q.push((k, n.clone()));
                    work.push((q, ft.clone()));
                }
            }
        }
        out
    }

    /// an expression of type `t`, sometimes routed through control flow, a
    /// block that mutates a local copy, or a callee that mutates its parameter
    fn build(&mut self, t: &T, depth: u32) -> E {
        let aggregate = !matches!(t, T::Bool | T::Int(..) | T::Unit | T::Str | T::Host(_) | T::F32 | T::F64 | T::Char | T::Asn | T::IpAddr | T::Prefix);
        if self.closed || !aggregate || depth == 0 || !self.p.chance(1, 6) {
            return self.build0(t, depth);
        }
        match self.p.below(4) {
            3 => {
                let inner = self.build0(t, depth - 1);
                self.first_call(t, inner)
            }
            0 => {
                let c = if self.p.chance(1, 2) {
                    E::Arg(NARGS - 1)
                } else {
                    E::Eq(self.p.chance(1, 2), Box::new(E::Arg(0)), Box::new(E::Lit(self.p.below(3) as i128)))
                };
                let a = self.build0(t, depth - 1);
                let b = self.build0(t, depth - 1);
                self.kinds.insert("if-expression");
                E::If(Box::new(c), Box::new(a), Box::new(b))
            }
            k => {
                let ps = self.type_paths(t, 2);
                if ps.is_empty() {
                    return self.build0(t, depth);
                }
                let (path, ft) = self.p.pick(&ps).clone();
                let inner = self.build0(t, depth - 1);
                if k == 1 {
                    // block expression mutating a local copy; the new value may use variables
                    let f = self.build0(&ft, 1);
                    let tv = self.new_var(t.clone(), None);
                    self.vars[tv].live = false;
                    self.kinds.insert("block-expression");
                    E::Block(tv, path, Box::new(inner), Box::new(f))
                } else {
                    self.closed = true;
                    let c = self.build0(&ft, 1);
                    self.closed = false;
                    let ts = t.src(&self.env);
                    let kx = self.helpers.len();
                    let pth: String = path.iter().map(|(_, n)| format!(".{n}")).collect();
                    let mut src = Src { env: &self.env, fresh: 0 };
                    let cs = src.e(&c, None);
                    self.helpers.push(format!("fn setf_{kx}(x: {ts}) -> {ts} {{ x{pth} = {cs}; x }}"));
                    self.kinds.insert("callee-mutates-parameter");
                    E::PassSet(kx, path, Box::new(c), Box::new(inner))
                }
            }
        }
    }

    fn build0(&mut self, t: &T, depth: u32) -> E {
        // reuse a variable (or a field of one) of this type: that is a copy
        if !self.closed && self.p.chance(2, 5) {
            let cands: Vec<usize> = (0..self.vars.len())
                .filter(|i| self.vars[*i].live && self.vars[*i].anon.is_none() && &self.vars[*i].ty == t)
                .collect();
            if !cands.is_empty() {
                let v = *self.p.pick(&cands);
                self.kinds.insert("copy-var");
                return if self.p.chance(1, 4) { self.pass(t, E::Var(v)) } else { E::Var(v) };
            }
            // a field of a record variable with that type
            let mut fc = vec![];
            for i in 0..self.vars.len() {
                if !self.vars[i].live {
                    continue;
                }
                let fs = match &self.vars[i].anon {
                    Some(f) => Some(f.clone()),
                    None => self.fields_of(&self.vars[i].ty),
                };
                if let Some(fs) = fs {
                    for (k, (n, ft)) in fs.iter().enumerate() {
                        if ft == t {
                            fc.push(E::Fld(Box::new(E::Var(i)), k, n.clone()));
                        }
                    }
                }
            }
            if !fc.is_empty() {
                self.kinds.insert("copy-field");
                return self.p.pick(&fc).clone();
            }
        }
        match t {
            T::Bool | T::Int(..) => {
                let args: Vec<usize> = (0..NARGS).filter(|i| &ARG_TYPES[*i] == t).collect();
                if !args.is_empty() && (!self.closed || self.closed_args) && self.p.chance(1, 2) {
                    E::Arg(*self.p.pick(&args))
                } else {
                    self.lit(t)
                }
            }
            T::Unit => E::Unit,
            T::F32 | T::F64 => {
                if self.p.chance(1, 6) {
                    // equal to `0.0` as a value, another bit pattern
                    return E::OpaqueK("-0.0", "-0", "0");
                }
                if (!self.closed || self.closed_args) && self.p.chance(1, 10) {
                    // equal to nothing, itself included, whatever its bits
                    self.kinds.insert("float-nan");
                    return E::OpaqueK("0.0 / 0.0", "NaN", "nan");
                }
                let (a, b) = *self.p.pick(&[("1.5", "1.5"), ("0.0", "0"), ("0.0", "0"), ("-2.25", "-2.25"), ("1000000.0", "1000000")]);
                E::Opaque(a, b)
            }
            T::Char => {
                let (a, b) = *self.p.pick(&[("'a'", "a"), ("'Z'", "Z"), ("'é'", "é"), ("'0'", "0")]);
                E::Opaque(a, b)
            }
            T::Asn => {
                let (a, b) = *self.p.pick(&[("AS0", "AS0"), ("AS65000", "AS65000"), ("AS4294967295", "AS4294967295")]);
                E::Opaque(a, b)
            }
            T::IpAddr => {
                let (a, b) = *self.p.pick(&[("1.2.3.4", "1.2.3.4"), ("::1", "::1"), ("255.255.255.255", "255.255.255.255"), ("2001:db8::1", "2001:db8::1")]);
                E::Opaque(a, b)
            }
            T::Prefix => {
                let (a, b) = *self.p.pick(&[("10.0.0.0 / 8", "10.0.0.0/8"), ("0.0.0.0 / 0", "0.0.0.0/0"), ("2001:db8:: / 32", "2001:db8::/32")]);
                E::Opaque(a, b)
            }
            T::Host("Big") => {
                let inner = self.build(&T::Int(false, 32), 0);
                self.kinds.insert("host-clone-type");
                E::Host("mk_big", Box::new(inner))
            }
            T::Host(_) => {
                let inner = self.build(&T::Int(false, 8), 0);
                self.kinds.insert("host-copy-type");
                E::Host("mk_pt", Box::new(inner))
            }
            T::Str => E::Str(self.p.pick(&["", "a", "héllo", "xyz", "a longer string value"]).to_string()),
            T::List(e) => {
                let n = if depth == 0 { 0 } else { self.p.below(4) };
                let mut xs: Vec<E> = (0..n).map(|_| self.build(e, depth.saturating_sub(1))).collect();
                let order: Vec<usize> = (0..xs.len()).collect();
                self.order_effect(&mut xs, &order, "order:list-literal");
                E::Lst(xs)
            }
            T::Opt(_) | T::Res(..) | T::Verdict(..) => {
                let vs = self.variants_of(t).unwrap();
                let (mut c, _, tag, ts) = self.p.pick(&vs).clone();
                if matches!(t, T::Verdict(..)) && self.p.chance(1, 2) {
                    // built by `accept e` / `reject e` in a helper: the value
                    // travels through the function's return slot
                    let k = self.helpers.len();
                    let kw = if tag == 0 { "accept" } else { "reject" };
                    self.helpers.push(format!(
                        "fn verdict_{k}(x: {}) -> {} {{ {kw} x }}",
                        ts[0].src(&self.env),
                        t.src(&self.env)
                    ));
                    self.kinds.insert("accept-reject-return");
                    c = format!("verdict_{k}");
                }
                E::Enm(c, tag, ts.iter().map(|ft| self.build(ft, depth.saturating_sub(1))).collect())
            }
            T::Named(..) => {
                if let Some(fs) = self.fields_of(t) {
                    let name = match t {
                        T::Named(i, _) => self.env.decls[*i].name().to_string(),
                        _ => unreachable!(),
                    };
                    // sometimes an anonymous literal (fields in another order) that
                    // is coerced to the declared record type by its context
                    let name = if self.p.chance(1, 5) { String::new() } else { name };
                    if name.is_empty() {
                        self.kinds.insert("anonymous-literal-as-named-record");
                    }
                    let anonymous = name.is_empty();
                    let mut es: Vec<E> = fs.iter().map(|(_, ft)| self.build(ft, depth.saturating_sub(1))).collect();
                    // (evaluated in the order the printer writes them)
                    let order = rec_order(true, es.len());
                    self.order_effect(&mut es, &order, if anonymous { "order:anonymous-as-named" } else { "order:record-literal" });
                    E::Rec(Some(name), fs.iter().map(|(n, _)| n.clone()).zip(es).collect())
                } else {
                    let vs = self.variants_of(t).unwrap();
                    let (c, _, tag, ts) = self.p.pick(&vs).clone();
                    let mut es: Vec<E> = ts.iter().map(|ft| self.build(ft, depth.saturating_sub(1))).collect();
                    let order: Vec<usize> = (0..es.len()).collect();
                    self.order_effect(&mut es, &order, "order:enum-constructor");
                    E::Enm(c, tag, es)
                }
            }
            _ => unreachable!("type not in the behavioural subset: {t:?}"),
        }
    }

    /// a statement that WRITES to variable `v`: the whole variable, a field
    /// path of it, a compound assignment, or a push through it
    fn write_stmt(&mut self, v: usize) -> Option<S> {
        if self.vars[v].is_const || !self.vars[v].live {
            return None;
        }
        let mut ps = self.paths(v, 3);
        if self.vars[v].anon.is_none() {
            ps.push((vec![], self.vars[v].ty.clone()));
        }
        if ps.is_empty() {
            return None;
        }
        let (p, t) = self.p.pick(&ps).clone();
        match &t {
            T::Int(..) if self.p.chance(1, 2) => {
                let op = *self.p.pick(&['+', '-', '*']);
                let k = 1 + self.p.below(3) as i128;
                self.kinds.insert("order-compound-assign");
                Some(S::CSet(v, p, op, t.clone(), E::Lit(k)))
            }
            T::Str if self.p.chance(1, 2) => {
                self.kinds.insert("order-compound-assign");
                Some(S::CSet(v, p, '+', T::Str, E::Str("+".into())))
            }
            T::List(et) if !self.in_for && self.p.chance(1, 2) => {
                let x = self.build(et, 1);
                self.kinds.insert("order-push");
                Some(S::Push(Self::path_expr(v, &p), x))
            }
            _ => {
                let e = self.build(&t, 1);
                self.kinds.insert(if p.is_empty() { "order-assign-var" } else { "order-assign-field" });
                Some(S::Set(v, p, e))
            }
        }
    }

    /// Components of a constructor, `es[order[0]], es[order[1]], …` being the
    /// order of evaluation: sometimes a LATER one becomes a block that first
    /// writes to a variable (or a component of it) that an EARLIER one reads.
    /// The earlier component must hold the value from before the write.
    fn order_effect(&mut self, es: &mut [E], order: &[usize], kind: &'static str) {
        if self.closed || order.len() < 2 || !self.p.chance(1, 4) {
            return;
        }
        let j = 1 + self.p.below((order.len() - 1) as u64) as usize;
        let mut read = vec![];
        for i in 0..j {
            vars_read(&es[order[i]], &mut read);
        }
        read.retain(|v| self.vars[*v].live && !self.vars[*v].is_const);
        let v = if !read.is_empty() {
            *self.p.pick(&read)
        } else {
            let live: Vec<usize> = self.live_vars().into_iter().filter(|v| !self.vars[*v].is_const).collect();
            if live.is_empty() || !self.p.chance(1, 3) {
                return;
            }
            *self.p.pick(&live)
        };
        let Some(w) = self.write_stmt(v) else { return };
        let old = std::mem::replace(&mut es[order[j]], E::Unit);
        es[order[j]] = E::Seq(vec![w], Box::new(old));
        self.kinds.insert(kind);
        self.kinds.insert("later-component-writes");
    }

    /// `first_k(inner, { write; n })`: the arguments of a call are evaluated
    /// left to right, each one stored before the next
    fn first_call(&mut self, t: &T, inner: E) -> E {
        let mut read = vec![];
        vars_read(&inner, &mut read);
        read.retain(|v| self.vars[*v].live && !self.vars[*v].is_const);
        let live: Vec<usize> = self.live_vars().into_iter().filter(|v| !self.vars[*v].is_const).collect();
        let v = if !read.is_empty() {
            *self.p.pick(&read)
        } else if !live.is_empty() {
            *self.p.pick(&live)
        } else {
            return inner;
        };
        let Some(w) = self.write_stmt(v) else { return inner };
        let ts = t.src(&self.env);
        let k = self.helpers.len();
        self.helpers.push(format!("fn first_{k}(x: {ts}, y: u8) -> {ts} {{ x }}"));
        self.kinds.insert("order:call-arguments");
        self.kinds.insert("later-component-writes");
        let n = self.p.below(200) as i128;
        E::First(format!("first_{k}"), Box::new(inner), Box::new(E::Seq(vec![w], Box::new(E::Lit(n)))))
    }

    fn pass(&mut self, t: &T, e: E) -> E {
        let ts = t.src(&self.env);
        let k = self.helpers.len();
        let body = match self.p.below(3) {
            0 => "x".to_string(),
            1 => "let y = x; y".to_string(),
            _ => "let y = x; let z = y; z".to_string(),
        };
        self.helpers.push(format!("fn id_{k}(x: {ts}) -> {ts} {{ {body} }}"));
        self.kinds.insert("pass-return");
        E::Pass(k, Box::new(e))
    }

    fn pick_type(&mut self) -> T {
        let o = GenOpts { exotic: false, host: true };
        loop {
            let t = if !self.env.decls.is_empty() && self.p.chance(3, 5) {
                let i = self.p.below(self.env.decls.len() as u64) as usize;
                if self.env.decls[i].generic() {
                    let n = self.env.decls[i].nparams();
                    T::Named(i, (0..n).map(|_| gen_type(self.p, &self.env, 1, 0, &o)).collect())
                } else {
                    T::Named(i, vec![])
                }
            } else {
                gen_type(self.p, &self.env, 2, 0, &o)
            };
            if !matches!(t, T::Bool | T::Int(..) | T::Unit | T::F32 | T::F64 | T::Char | T::Asn) {
                return t;
            }
        }
    }

    /// record-field paths from a variable to sub-components: (path, type)
    fn paths(&self, v: usize, max: usize) -> Vec<(Vec<(usize, String)>, T)> {
        let mut out = vec![];
        let mut work: Vec<(Vec<(usize, String)>, Option<Vec<(String, T)>>, T)> =
            vec![(vec![], self.vars[v].anon.clone(), self.vars[v].ty.clone())];
        while let Some((p, anon, t)) = work.pop() {
            if !p.is_empty() {
                out.push((p.clone(), t.clone()));
            }
            if p.len() >= max {
                continue;
            }
            let fs = anon.or_else(|| self.fields_of(&t));
            if let Some(fs) = fs {
                for (k, (n, ft)) in fs.iter().enumerate() {
                    let mut q = p.clone();
                    q.push((k, n.clone()));
                    work.push((q, None, ft.clone()));
                }
            }
        }
        out
    }

    fn path_expr(v: usize, p: &[(usize, String)]) -> E {
        let mut e = E::Var(v);
        for (k, n) in p {
            e = E::Fld(Box::new(e), *k, n.clone());
        }
        e
    }

    fn live_vars(&self) -> Vec<usize> {
        (0..self.vars.len()).filter(|i| self.vars[*i].live).collect()
    }

    fn emit_var(&self, v: usize) -> Vec<S> {
        match &self.vars[v].anon {
            None => vec![S::Emit(E::Var(v), self.vars[v].ty.clone())],
            Some(fs) => fs
                .iter()
                .enumerate()
                .map(|(k, (n, ft))| S::Emit(E::Fld(Box::new(E::Var(v)), k, n.clone()), ft.clone()))
                .collect(),
        }
    }

    /// a helper `fn make_k(p0: u8, …, p6: bool) -> T { e }`
    fn make_helper(&mut self, t: &T, e: &E) -> usize {
        let k = self.helpers.len();
        let mut src = Src { env: &self.env, fresh: 0 };
        let body = src.e(e, None);
        let params: String =
            (0..NARGS).map(|i| format!("p{i}: {}", ARG_TYPES[i].src(&self.env))).collect::<Vec<_>>().join(", ");
        self.helpers.push(format!("fn make_{k}({params}) -> {} {{ {body} }}", t.src(&self.env)));
        k
    }

    /// a construction of type `t` from literals and `main`'s arguments only; an
    /// enum-like type is built in its variant `tag` (modulo) when one is given
    fn build_closed(&mut self, t: &T, tag: Option<usize>) -> E {
        let (c, ca) = (self.closed, self.closed_args);
        self.closed = true;
        self.closed_args = true;
        let e = match (tag, self.variants_of(t)) {
            (Some(k), Some(vs)) => {
                let (c, _, tag, ts) = vs[k % vs.len()].clone();
                E::Enm(c, tag, ts.iter().map(|ft| self.build0(ft, 2)).collect())
            }
            _ => self.build0(t, 3),
        };
        self.closed = c;
        self.closed_args = ca;
        e
    }

    /// `==` / `!=` / `contains` / `index` on two values that are EQUAL AS VALUES
    /// and differ in bytes that are not part of the value: both are built by
    /// the same construction inside a callee, once over a stack filled with
    /// one byte value and once over another (padding, the storage of variants
    /// that are not live), float zeros get the other sign. Compared directly,
    /// wrapped, and as elements of lists (whole-list `==`, `contains`,
    /// `index`); and against a near copy, which must stay different.
    fn repr_block(&mut self, t: &T, tag: Option<usize>, out: &mut Vec<S>) {
        let e = self.build_closed(t, tag);
        let (e2, flipped) = zero_flip(&e);
        let ka = self.make_helper(t, &e);
        let kb = if flipped { self.make_helper(t, &e2) } else { ka };
        let ann = t.src(&self.env);
        let lt = T::List(Box::new(t.clone()));
        let lann = lt.src(&self.env);
        let paints = [(0x55u8, 0xAAu8), (0x00, 0xFF), (0xFF, 0x00), (0x01, 0x80), (0xAA, 0x55)];
        let (pa, pb) = *self.p.pick(&paints);
        // in a callee over a repainted stack, or in two places of `main`'s own frame
        let inline = self.p.chance(1, 3);
        let va = self.new_var(t.clone(), None);
        out.push(S::Paint(pa));
        out.push(S::Let(va, Some(ann.clone()), if inline { e.clone() } else { E::Make(ka, Box::new(e.clone())) }));
        let vb = self.new_var(t.clone(), None);
        out.push(S::Paint(pb));
        out.push(S::Let(vb, Some(ann.clone()), if inline { e2.clone() } else { E::Make(kb, Box::new(e2.clone())) }));
        if inline {
            self.kinds.insert("eq-same-value-built-twice");
        }
        let eq = |neg: bool, a: E, b: E| S::Emit(E::Eq(neg, Box::new(a), Box::new(b)), T::Bool);
        out.push(eq(false, E::Var(va), E::Var(vb)));
        out.push(eq(true, E::Var(vb), E::Var(va)));
        // wrapped in an Option / an anonymous record
        out.push(eq(
            false,
            E::Enm("Some".into(), 0, vec![E::Var(va)]),
            E::Enm("Some".into(), 0, vec![E::Var(vb)]),
        ));
        // as list elements: literal or push, one or two elements
        let la = self.new_var(lt.clone(), None);
        let lb = self.new_var(lt.clone(), None);
        let two = self.p.chance(1, 2);
        if self.p.chance(1, 2) {
            let xs = |v: usize| if two { vec![E::Var(v), E::Var(v)] } else { vec![E::Var(v)] };
            out.push(S::Let(la, Some(lann.clone()), E::Lst(xs(va))));
            out.push(S::Let(lb, Some(lann.clone()), E::Lst(xs(vb))));
        } else {
            out.push(S::Let(la, Some(lann.clone()), E::Lst(vec![])));
            out.push(S::Let(lb, Some(lann.clone()), E::Lst(vec![])));
            for _ in 0..(1 + two as usize) {
                out.push(S::Push(E::Var(la), E::Var(va)));
                out.push(S::Push(E::Var(lb), E::Var(vb)));
            }
        }
        // where the host can receive the lists: are their bytes really different?
        let sfx = match t {
            T::Opt(x) if **x == T::Int(false, 32) => Some("ou32"),
            T::Opt(x) if **x == T::Int(false, 8) => Some("ou8"),
            T::Opt(x) if **x == T::Int(true, 64) => Some("oi64"),
            T::F64 => Some("f64"),
            _ => None,
        };
        if let Some(sfx) = sfx {
            out.push(S::Note(sfx, la, lb));
        }
        out.push(eq(false, E::Var(la), E::Var(lb)));
        out.push(eq(true, E::Var(lb), E::Var(la)));
        out.push(S::Emit(E::Contains(Box::new(E::Var(la)), Box::new(E::Var(vb))), T::Bool));
        out.push(S::Emit(E::Index(Box::new(E::Var(lb)), Box::new(E::Var(va))), T::Opt(Box::new(T::Int(false, 64)))));
        // lists of lists: the inner lists are distinct storages with equal contents
        out.push(eq(false, E::Lst(vec![E::Var(la)]), E::Lst(vec![E::Var(lb)])));
        // a near copy (one component changed) stays different, in every position
        let n = leaves(&e);
        if n > 0 {
            let mut k = self.p.below(n as u64) as isize;
            let e3 = near(&e, &mut k);
            let kc = self.make_helper(t, &e3);
            let vc = self.new_var(t.clone(), None);
            out.push(S::Paint(pa));
            out.push(S::Let(vc, Some(ann), E::Make(kc, Box::new(e3))));
            out.push(eq(false, E::Var(va), E::Var(vc)));
            out.push(eq(false, E::Var(la), E::Lst(if two { vec![E::Var(va), E::Var(vc)] } else { vec![E::Var(vc)] })));
            out.push(S::Emit(E::Contains(Box::new(E::Var(lb)), Box::new(E::Var(vc))), T::Bool));
        }
        self.kinds.insert("eq-same-value-other-bytes");
        if flipped {
            self.kinds.insert("eq-float-zero-signs");
        }
    }

    /// two lists `[None]` whose `None` was read by `l.get(i)` into a result
    /// variable that held `Some(x)` resp. `Some(y)` (x ≠ y) just before
    fn stale_block(&mut self, t: &T, out: &mut Vec<S>) {
        let x = self.build_closed(t, None);
        let n = leaves(&x);
        let y = if n > 0 {
            let mut k = self.p.below(n as u64) as isize;
            near(&x, &mut k)
        } else {
            self.build_closed(t, None)
        };
        let ot = T::Opt(Box::new(t.clone()));
        let lot = T::List(Box::new(ot.clone()));
        let k = self.helpers.len();
        self.helpers.push(format!(
            "fn stale_{k}(l: {}) -> {} {{ let out = []; let i = 0; while i <= l.len() {{ let x = l.get(i); if i == l.len() {{ out.push(x); }} i = i + 1; }} out }}",
            T::List(Box::new(t.clone())).src(&self.env),
            lot.src(&self.env)
        ));
        let ann = lot.src(&self.env);
        let sa = self.new_var(lot.clone(), None);
        out.push(S::Let(sa, Some(ann.clone()), E::StaleNone(k, Box::new(E::Lst(vec![x.clone()])))));
        let sb = self.new_var(lot.clone(), None);
        out.push(S::Let(sb, Some(ann), E::StaleNone(k, Box::new(E::Lst(vec![x, y])))));
        let nn = self.new_var(ot.clone(), None);
        out.push(S::Let(nn, Some(ot.src(&self.env)), E::Enm("None".into(), 1, vec![])));
        let eq = |neg: bool, a: E, b: E| S::Emit(E::Eq(neg, Box::new(a), Box::new(b)), T::Bool);
        out.push(eq(false, E::Var(sa), E::Var(sb)));
        out.push(eq(true, E::Var(sb), E::Var(sa)));
        out.push(eq(false, E::Var(sa), E::Lst(vec![E::Var(nn)])));
        out.push(S::Emit(E::Contains(Box::new(E::Var(sa)), Box::new(E::Var(nn))), T::Bool));
        out.push(S::Emit(E::Index(Box::new(E::Var(sb)), Box::new(E::Var(nn))), T::Opt(Box::new(T::Int(false, 64)))));
        out.push(S::Emit(E::Get(Box::new(E::Var(sa)), 0), T::Opt(Box::new(ot))));
        self.kinds.insert("eq-none-after-some");
    }

    fn stmt(&mut self, depth: u32, out: &mut Vec<S>) {
        let live = self.live_vars();
        let r = self.p.below(100);
        if live.is_empty() || r < 14 {
            // new value
            let t = self.pick_type();
            let e = self.build(&t, 3);
            let ann = t.src(&self.env);
            let v = self.new_var(t, None);
            out.push(S::Let(v, Some(ann), e));
            self.kinds.insert("let-build");
            return;
        }
        let v = *self.p.pick(&live);
        if r < 26 {
            // plain copy (assign / pass / store in an aggregate)
            let t = self.vars[v].ty.clone();
            if let Some(fs) = self.vars[v].anon.clone() {
                let w = self.new_var(t, Some(fs));
                self.vars[w].origin = self.vars[v].origin;
                out.push(S::Let(w, None, E::Var(v)));
                self.kinds.insert("copy-anon");
                return;
            }
            let e = match self.p.below(4) {
                0 => self.pass(&t, E::Var(v)),
                _ => E::Var(v),
            };
            let ann = t.src(&self.env);
            let w = self.new_var(t, None);
            out.push(S::Let(w, Some(ann), e));
            self.kinds.insert("copy-assign");
        } else if r < 32 {
            // anonymous record holding copies
            let mut fs = vec![];
            let mut es = vec![];
            let n = 1 + self.p.below(3) as usize;
            for k in 0..n {
                let name = ["p", "q", "r"][k].to_string();
                let cands: Vec<usize> = self.live_vars().into_iter().filter(|i| self.vars[*i].anon.is_none()).collect();
                if !cands.is_empty() && self.p.chance(2, 3) {
                    let c = *self.p.pick(&cands);
                    fs.push((name.clone(), self.vars[c].ty.clone()));
                    es.push((name, E::Var(c)));
                } else if self.p.chance(1, 2) {
                    let a = self.p.below(NARGS as u64) as usize;
                    fs.push((name.clone(), ARG_TYPES[a].clone()));
                    es.push((name, E::Arg(a)));
                } else {
                    fs.push((name.clone(), T::Str));
                    es.push((name, E::Str("anon".into())));
                }
            }
            let (names, mut xs): (Vec<String>, Vec<E>) = es.into_iter().unzip();
            let order: Vec<usize> = (0..xs.len()).collect();
            self.order_effect(&mut xs, &order, "order:anonymous-record");
            let es: Vec<(String, E)> = names.into_iter().zip(xs).collect();
            let w = self.new_var(T::Unit, Some(fs));
            out.push(S::Let(w, None, E::Rec(None, es)));
            self.kinds.insert("anon-record");
        } else if r < 34 {
            // equality must not see bytes that are not part of the value
            let t = if self.vars[v].anon.is_none() && !self.vars[v].is_const && self.p.chance(1, 2) {
                self.vars[v].ty.clone()
            } else {
                self.pick_type()
            };
            if self.p.chance(2, 3) {
                let tag = if self.p.chance(2, 3) { Some(self.p.below(8) as usize) } else { None };
                self.repr_block(&t, tag, out);
            } else {
                self.stale_block(&t, out);
            }
        } else if r < 52 {
            // mutate through a field path, or the whole variable
            if self.vars[v].is_const {
                return;
            }
            let ps = self.paths(v, 3);
            if !ps.is_empty() && self.p.chance(4, 5) {
                let (p, t) = self.p.pick(&ps).clone();
                let e = self.build(&t, 2);
                self.kinds.insert(if p.len() > 1 { "set-nested-field" } else { "set-field" });
                out.push(S::Set(v, p, e));
            } else if self.vars[v].anon.is_none() {
                let t = self.vars[v].ty.clone();
                let e = self.build(&t, 2);
                self.kinds.insert("set-var");
                out.push(S::Set(v, vec![], e));
            }
        } else if r < 64 {
            // list operation through any alias
            let mut ls = vec![];
            for w in self.live_vars() {
                if let T::List(e) = &self.vars[w].ty {
                    if self.vars[w].anon.is_none() {
                        ls.push((E::Var(w), (**e).clone()));
                    }
                }
                for (p, t) in self.paths(w, 2) {
                    if let T::List(e) = t {
                        ls.push((Self::path_expr(w, &p), *e));
                    }
                }
            }
            if ls.is_empty() {
                return;
            }
            let (l, et) = self.p.pick(&ls).clone();
            if self.p.chance(1, 4) {
                // structural equality of elements inside list methods, and concat
                let lt = T::List(Box::new(et.clone()));
                match self.p.below(3) {
                    0 => {
                        let x = self.build(&et, 2);
                        out.push(S::Emit(E::Contains(Box::new(l), Box::new(x)), T::Bool));
                        self.kinds.insert("list-contains");
                    }
                    1 => {
                        let x = self.build(&et, 2);
                        out.push(S::Emit(
                            E::Index(Box::new(l), Box::new(x)),
                            T::Opt(Box::new(T::Int(false, 64))),
                        ));
                        self.kinds.insert("list-index");
                    }
                    _ => {
                        let other = self.build(&lt, 2);
                        let ann = lt.src(&self.env);
                        let w = self.new_var(lt, None);
                        out.push(S::Let(w, Some(ann), E::Concat(Box::new(l), Box::new(other))));
                        self.kinds.insert("list-concat");
                    }
                }
            } else if self.p.chance(1, 3) {
                // read an element back out: a copy wrapped in an Option
                let ot = T::Opt(Box::new(et.clone()));
                let ann = ot.src(&self.env);
                let i = self.p.below(4);
                let w = self.new_var(ot, None);
                out.push(S::Let(w, Some(ann), E::Get(Box::new(l), i)));
                self.kinds.insert("list-get");
            } else if self.p.chance(3, 4) {
                let e = self.build(&et, 2);
                out.push(S::Push(l, e));
                self.kinds.insert("list-push");
            } else {
                out.push(S::Swap(l, self.p.below(3), self.p.below(3)));
                self.kinds.insert("list-swap");
            }
        } else if r < 78 && depth > 0 {
            // match-bind
            let mut cands = vec![];
            for w in self.live_vars() {
                if self.vars[w].anon.is_none() && self.variants_of(&self.vars[w].ty).is_some() {
                    cands.push((E::Var(w), self.vars[w].ty.clone()));
                }
                for (p, t) in self.paths(w, 2) {
                    if self.variants_of(&t).is_some() {
                        cands.push((Self::path_expr(w, &p), t));
                    }
                }
            }
            if cands.is_empty() {
                return;
            }
            let (scrut, t) = self.p.pick(&cands).clone();
            // the variable the examinee is read from: the match works on a COPY of the
            // examinee, so guards (and arm bodies) that write to that variable — whole,
            // a field path, compound assignment, push — change neither the arm taken
            // nor what a later arm binds
            let mut root_of = vec![];
            vars_read(&scrut, &mut root_of);
            let root = root_of.first().copied().filter(|w| !self.vars[*w].is_const && self.vars[*w].live);
            let guard_writes = root.is_some() && self.p.chance(2, 5);
            let scrut = if self.p.chance(1, 5) { self.pass(&t, scrut) } else { scrut };
            let vs = self.variants_of(&t).unwrap();
            let mut arms = vec![];
            let use_wild = self.p.chance(1, 2) && vs.len() > 1;
            let n_explicit = if use_wild { 1 + self.p.below((vs.len() - 1) as u64) as usize } else { vs.len() };
            let scope_mark = self.vars.len();
            for (k, (_, pat, tag, ts)) in vs.iter().enumerate() {
                if k >= n_explicit {
                    break;
                }
                // optional guarded arm first
                let guard_ix = ts.iter().position(|ft| matches!(ft, T::Int(..) | T::Bool));
                // arms whose guard WRITES to the variable the examinee was read from
                // (then says no, or tests a binding): the following arms of this
                // variant still bind the value the match started with
                let n_wg = if guard_writes && self.p.chance(2, 3) { 1 + self.p.below(2) } else { 0 };
                for _ in 0..n_wg {
                    let rv = root.unwrap();
                    let w = if self.vars[rv].anon.is_none() && self.p.chance(1, 2) {
                        let rt = self.vars[rv].ty.clone();
                        let e = self.build(&rt, 1);
                        Some(S::Set(rv, vec![], e))
                    } else {
                        self.write_stmt(rv)
                    };
                    let Some(w) = w else { break };
                    let binds: Vec<usize> = ts.iter().map(|ft| self.new_var(ft.clone(), None)).collect();
                    let verdict = match guard_ix {
                        Some(gi) if self.p.chance(1, 3) => {
                            let lit = self.lit(&ts[gi]);
                            E::Eq(self.p.chance(1, 2), Box::new(E::Var(binds[gi])), Box::new(lit))
                        }
                        _ => E::BLit(self.p.chance(1, 8)),
                    };
                    let mut body = vec![S::Emit(E::Lit(78), T::Int(false, 8))];
                    for b in &binds {
                        body.extend(self.emit_var(*b));
                    }
                    for i in scope_mark..self.vars.len() {
                        self.vars[i].live = false;
                    }
                    self.kinds.insert("match-guard-writes-examinee");
                    self.kinds.insert("held-copy");
                    arms.push(Arm { pat: Some((pat.clone(), *tag)), binds, guard: Some(E::Seq(vec![w], Box::new(verdict))), body });
                }
                let reps = if guard_ix.is_some() && self.p.chance(1, 2) { 2 } else { 1 };
                for rep in 0..reps {
                    let binds: Vec<usize> = ts.iter().map(|ft| self.new_var(ft.clone(), None)).collect();
                    let guard = if reps == 2 && rep == 0 {
                        let gi = guard_ix.unwrap();
                        let lit = if self.p.chance(1, 2) {
                            let args: Vec<usize> = (0..NARGS).filter(|i| ARG_TYPES[*i] == ts[gi]).collect();
                            if args.is_empty() { self.lit(&ts[gi]) } else { E::Arg(*self.p.pick(&args)) }
                        } else {
                            self.lit(&ts[gi])
                        };
                        self.kinds.insert("match-guard");
                        Some(E::Eq(self.p.chance(1, 3), Box::new(E::Var(binds[gi])), Box::new(lit)))
                    } else {
                        None
                    };
                    let mut body = vec![];
                    if let Some(rv) = root.filter(|_| self.p.chance(1, 5)) {
                        // the arm writes to the matched variable, then reads its bindings
                        if let Some(w) = self.write_stmt(rv) {
                            body.push(w);
                            self.kinds.insert("match-arm-writes-examinee");
                            self.kinds.insert("held-copy");
                        }
                    }
                    let n = self.p.below(3);
                    for _ in 0..n {
                        self.stmt(depth - 1, &mut body);
                    }
                    for b in &binds {
                        body.extend(self.emit_var(*b));
                    }
                    // binders and everything declared in the arm go out of scope
                    for i in scope_mark..self.vars.len() {
                        self.vars[i].live = false;
                    }
                    arms.push(Arm { pat: Some((pat.clone(), *tag)), binds, guard, body });
                }
            }
            if use_wild {
                let mut body = vec![];
                if self.p.chance(1, 2) {
                    self.stmt(depth - 1, &mut body);
                }
                body.push(S::Emit(E::Lit(77), T::Int(false, 8)));
                for i in scope_mark..self.vars.len() {
                    self.vars[i].live = false;
                }
                arms.push(Arm { pat: None, binds: vec![], guard: None, body });
                self.kinds.insert("match-wildcard");
            }
            self.kinds.insert("match-bind");
            out.push(S::Match(scrut, arms));
        } else if r < 84 && depth > 0 {
            // for over a list, pushing to (an alias of) it from inside
            let ls: Vec<usize> = self
                .live_vars()
                .into_iter()
                .filter(|w| matches!(self.vars[*w].ty, T::List(_)) && self.vars[*w].anon.is_none())
                .collect();
            if ls.is_empty() {
                return;
            }
            let l = *self.p.pick(&ls);
            let T::List(et) = self.vars[l].ty.clone() else { unreachable!() };
            let scope_mark = self.vars.len();
            let x = self.new_var((*et).clone(), None);
            let mut body = vec![];
            if !self.vars[l].is_const && self.p.chance(1, 4) {
                // the loop runs over the storage the iterable named when it started:
                // giving the VARIABLE another list inside the body does not end it
                let n = self.p.below(3);
                self.in_for = true;
                let xs = (0..n).map(|_| self.build(&et, 1)).collect();
                self.in_for = false;
                body.push(S::Set(l, vec![], E::Lst(xs)));
                self.kinds.insert("for-rebinds-iterable");
                self.kinds.insert("held-copy");
            }
            body.extend(self.emit_var(x));
            let same: Vec<usize> = ls.iter().copied().filter(|w| self.vars[*w].ty == self.vars[l].ty).collect();
            let target = *self.p.pick(&same);
            self.in_for = true;
            let pushed = if self.p.chance(1, 2) { E::Var(x) } else { self.build(&et, 1) };
            self.in_for = false;
            let bound = 4 + self.p.below(4);
            body.push(S::If(
                E::Len(Box::new(E::Var(target))),
                vec![S::Push(E::Var(target), pushed)],
                vec![S::Emit(E::Lit(bound as i128), T::Int(false, 64))],
            ));
            for i in scope_mark..self.vars.len() {
                self.vars[i].live = false;
            }
            self.kinds.insert("for-push");
            // the `If` on a `Len` is printed as `if <len> < bound`
            out.push(S::For(x, E::Var(l), body));
        } else if r < 90 {
            // `?` through a helper
            let cands: Vec<usize> = self
                .live_vars()
                .into_iter()
                .filter(|w| matches!(self.vars[*w].ty, T::Opt(_)) && self.vars[*w].anon.is_none())
                .collect();
            if cands.is_empty() {
                return;
            }
            let w = *self.p.pick(&cands);
            let T::Opt(inner) = self.vars[w].ty.clone() else { unreachable!() };
            let (path, names, rt) = match self.fields_of(&inner) {
                Some(fs) if self.p.chance(2, 3) => {
                    let k = self.p.below(fs.len() as u64) as usize;
                    (vec![k], format!(".{}", fs[k].0), fs[k].1.clone())
                }
                _ => (vec![], String::new(), (*inner).clone()),
            };
            let k = self.helpers.len();
            let ot = T::Opt(Box::new(rt));
            self.helpers.push(format!(
                "fn try_{k}(x: {}) -> {} {{ let y = x?; Some(y{names}) }}",
                self.vars[w].ty.src(&self.env),
                ot.src(&self.env)
            ));
            let ann = ot.src(&self.env);
            let nv = self.new_var(ot, None);
            out.push(S::Let(nv, Some(ann), E::Try(k, path, Box::new(E::Var(w)))));
            self.kinds.insert("question-mark");
        } else if r < 91 {
            // a value whose type keeps an unconstrained type variable: the
            // other variant is uninhabited (`enum { Some(!), None }`)
            let (ctor, tag, payload): (&str, usize, Option<E>) = match self.p.below(3) {
                0 => ("None", 1, None),
                1 => ("Ok", 0, Some(E::Lit(self.p.below(100) as i128))),
                _ => ("Err", 1, Some(E::Str("e".into()))),
            };
            let mk = |pl: &Option<E>| E::Enm(ctor.to_string(), tag, pl.iter().cloned().collect());
            let u1 = self.new_var(T::Unit, None);
            let u2 = self.new_var(T::Unit, None);
            self.vars[u1].live = false;
            self.vars[u2].live = false;
            out.push(S::Let(u1, None, mk(&payload)));
            out.push(S::Let(u2, None, E::Var(u1)));
            out.push(S::Emit(E::Eq(false, Box::new(E::Var(u1)), Box::new(E::Var(u2))), T::Bool));
            out.push(S::Emit(E::Eq(true, Box::new(E::Var(u2)), Box::new(mk(&payload))), T::Bool));
            if let Some(E::Lit(n)) = &payload {
                let other = Some(E::Lit(n + 1));
                out.push(S::Emit(E::Eq(false, Box::new(E::Var(u1)), Box::new(mk(&other))), T::Bool));
            }
            if self.p.chance(1, 2) {
                // stored in an anonymous record, copied, one copy mutated
                let u3 = self.new_var(T::Unit, None);
                let u4 = self.new_var(T::Unit, None);
                self.vars[u3].live = false;
                self.vars[u4].live = false;
                out.push(S::Let(u3, None, E::Rec(None, vec![("p".into(), E::Var(u1)), ("q".into(), E::Arg(0))])));
                out.push(S::Let(u4, None, E::Var(u3)));
                out.push(S::Set(u4, vec![(1, "q".into())], E::Lit(self.p.below(200) as i128)));
                out.push(S::Emit(E::Fld(Box::new(E::Var(u3)), 1, "q".into()), T::Int(false, 8)));
                out.push(S::Emit(E::Fld(Box::new(E::Var(u4)), 1, "q".into()), T::Int(false, 8)));
                out.push(S::Emit(E::Eq(true, Box::new(E::Var(u3)), Box::new(E::Var(u4))), T::Bool));
                out.push(S::Emit(
                    E::Eq(false, Box::new(E::Fld(Box::new(E::Var(u4)), 0, "p".into())), Box::new(E::Var(u2))),
                    T::Bool,
                ));
            }
            if self.p.chance(1, 2) {
                // matched: the arm of the uninhabited variant binds a value of type `!`
                let (pats, payload_ty): ([(&str, usize); 2], T) = match ctor {
                    "None" => ([("Some", 0), ("None", 1)], T::Unit),
                    "Ok" => ([("Ok", 0), ("Err", 1)], T::Int(true, 32)),
                    _ => ([("Ok", 0), ("Err", 1)], T::Str),
                };
                let mut arms = vec![];
                for (pat, ptag) in pats {
                    let has_field = !(ctor == "None" && ptag == 1);
                    let binds: Vec<usize> = if has_field {
                        let b = self.new_var(T::Unit, None);
                        self.vars[b].live = false;
                        vec![b]
                    } else {
                        vec![]
                    };
                    let mut body = vec![S::Emit(E::Lit(ptag as i128), T::Int(false, 8))];
                    if has_field && ptag == tag && ctor != "None" {
                        body.push(S::Emit(E::Var(binds[0]), payload_ty.clone()));
                    }
                    arms.push(Arm { pat: Some((pat.to_string(), ptag)), binds, guard: None, body });
                }
                out.push(S::Match(E::Var(u2), arms));
            }
            if self.p.chance(1, 3) {
                // a list of them, shared between two names
                let l1 = self.new_var(T::Unit, None);
                let l2 = self.new_var(T::Unit, None);
                self.vars[l1].live = false;
                self.vars[l2].live = false;
                out.push(S::Let(l1, None, E::Lst(vec![E::Var(u1), E::Var(u2)])));
                out.push(S::Let(l2, None, E::Var(l1)));
                out.push(S::Push(E::Var(l2), mk(&payload)));
                out.push(S::Emit(E::Len(Box::new(E::Var(l1))), T::Int(false, 64)));
                out.push(S::Emit(E::Contains(Box::new(E::Var(l1)), Box::new(E::Var(u1))), T::Bool));
            }
            self.kinds.insert("unconstrained-type-variable");
        } else if r < 96 {
            // == / != between two values of one type
            if self.vars[v].anon.is_some() {
                // anonymous records: only values of the same literal's type
                let same: Vec<usize> = self
                    .live_vars()
                    .into_iter()
                    .filter(|w| self.vars[*w].anon.is_some() && self.vars[*w].origin == self.vars[v].origin)
                    .collect();
                let w = *self.p.pick(&same);
                let neg = self.p.chance(1, 3);
                out.push(S::Emit(E::Eq(neg, Box::new(E::Var(v)), Box::new(E::Var(w))), T::Bool));
                self.kinds.insert("eq-anonymous");
                return;
            }
            let t = self.vars[v].ty.clone();
            if self.p.chance(1, 2) {
                // two values that differ in exactly one (random) component:
                // an equality that skips or misplaces a component says `equal`
                let a = self.build0(&t, 3);
                let n = leaves(&a);
                if n > 0 {
                    let mut k = self.p.below(n as u64) as isize;
                    let b = near(&a, &mut k);
                    let ann = t.src(&self.env);
                    let va = self.new_var(t.clone(), None);
                    out.push(S::Let(va, Some(ann.clone()), a));
                    let vb = self.new_var(t.clone(), None);
                    out.push(S::Let(vb, Some(ann), b));
                    out.push(S::Emit(E::Eq(false, Box::new(E::Var(va)), Box::new(E::Var(vb))), T::Bool));
                    out.push(S::Emit(E::Eq(true, Box::new(E::Var(vb)), Box::new(E::Var(va))), T::Bool));
                    self.kinds.insert("eq-near-copy");
                    return;
                }
            }
            let mut other = self.build(&t, 2);
            if self.p.chance(1, 4) {
                // the left operand is read before the right one writes to it
                if let Some(w) = self.write_stmt(v) {
                    other = E::Seq(vec![w], Box::new(other));
                    self.kinds.insert("order:eq-operands");
                    self.kinds.insert("later-component-writes");
                }
            }
            let neg = self.p.chance(1, 3);
            out.push(S::Emit(E::Eq(neg, Box::new(E::Var(v)), Box::new(other)), T::Bool));
            self.kinds.insert("eq");
        } else {
            out.extend(self.emit_var(v));
        }
    }
}

/// the variables an expression reads
fn vars_read(e: &E, out: &mut Vec<usize>) {
    match e {
        E::Var(i) => out.push(*i),
        E::Fld(b, ..) => vars_read(b, out),
        E::Rec(_, fs) => fs.iter().for_each(|(_, x)| vars_read(x, out)),
        E::RecO(_, fs) => fs.iter().for_each(|(_, _, x)| vars_read(x, out)),
        E::Enm(_, _, fs) | E::Lst(fs) => fs.iter().for_each(|x| vars_read(x, out)),
        E::Pass(_, x) | E::Host(_, x) | E::PassSet(_, _, _, x) | E::Get(x, _) | E::Try(_, _, x) | E::Len(x) | E::StaleNone(_, x) | E::Seq(_, x) => {
            vars_read(x, out)
        }
        E::If(c, a, b) => {
            vars_read(c, out);
            vars_read(a, out);
            vars_read(b, out);
        }
        E::Block(_, _, a, b) | E::Contains(a, b) | E::Index(a, b) | E::Concat(a, b) | E::Eq(_, a, b) | E::First(_, a, b) => {
            vars_read(a, out);
            vars_read(b, out);
        }
        _ => {}
    }
}

/// the same construction with the sign of every float zero flipped: equal as
/// a value (IEEE `==`), another bit pattern; `true` when there was one
fn zero_flip(e: &E) -> (E, bool) {
    let mut any = false;
    let mut go = |x: &E| {
        let (y, f) = zero_flip(x);
        any |= f;
        y
    };
    let out = match e {
        E::Opaque("0.0", _) => return (E::OpaqueK("-0.0", "-0", "0"), true),
        E::OpaqueK("-0.0", _, _) => return (E::Opaque("0.0", "0"), true),
        E::Rec(n, fs) => E::Rec(n.clone(), fs.iter().map(|(f, x)| (f.clone(), go(x))).collect()),
        E::Enm(c, t, fs) => E::Enm(c.clone(), *t, fs.iter().map(|x| go(x)).collect()),
        E::Lst(fs) => E::Lst(fs.iter().map(|x| go(x)).collect()),
        other => other.clone(),
    };
    (out, any)
}

/// number of literal leaves of a construction expression
fn leaves(e: &E) -> usize {
    match e {
        E::Lit(_) | E::BLit(_) | E::Str(_) | E::Opaque(..) | E::OpaqueK(..) => 1,
        E::Rec(_, fs) => fs.iter().map(|(_, x)| leaves(x)).sum(),
        E::Enm(_, _, fs) | E::Lst(fs) => fs.iter().map(leaves).sum(),
        E::Host(_, x) | E::Pass(_, x) => leaves(x),
        _ => 0,
    }
}

/// the same construction with its `k`-th literal leaf changed: a value that
/// differs from the original in exactly one component
fn near(e: &E, k: &mut isize) -> E {
    match e {
        E::Lit(_) | E::BLit(_) | E::Str(_) | E::Opaque(..) | E::OpaqueK(..) => {
            *k -= 1;
            if *k != -1 {
                return e.clone();
            }
            match e {
                E::Lit(v) => E::Lit(if v.rem_euclid(2) == 0 || v - 1 < -(i64::MAX as i128) { v + 1 } else { v - 1 }),
                E::BLit(b) => E::BLit(!b),
                E::Str(s) => E::Str(format!("{s}x")),
                E::Opaque(a, _) => match *a {
                    "1.5" => E::Opaque("-2.25", "-2.25"),
                    "0.0" | "-2.25" | "1000000.0" => E::Opaque("1.5", "1.5"),
                    "'a'" => E::Opaque("'Z'", "Z"),
                    "'Z'" | "'é'" | "'0'" => E::Opaque("'a'", "a"),
                    "AS0" => E::Opaque("AS65000", "AS65000"),
                    "AS65000" | "AS4294967295" => E::Opaque("AS0", "AS0"),
                    "1.2.3.4" => E::Opaque("::1", "::1"),
                    "::1" | "255.255.255.255" | "2001:db8::1" => E::Opaque("1.2.3.4", "1.2.3.4"),
                    "10.0.0.0 / 8" => E::Opaque("0.0.0.0 / 0", "0.0.0.0/0"),
                    _ => E::Opaque("10.0.0.0 / 8", "10.0.0.0/8"),
                },
                E::OpaqueK(..) => E::Opaque("1.5", "1.5"),
                _ => unreachable!(),
            }
        }
        E::Rec(n, fs) => E::Rec(n.clone(), fs.iter().map(|(f, x)| (f.clone(), near(x, k))).collect()),
        E::Enm(c, t, fs) => E::Enm(c.clone(), *t, fs.iter().map(|x| near(x, k)).collect()),
        E::Lst(fs) => E::Lst(fs.iter().map(|x| near(x, k)).collect()),
        E::Host(f, x) => E::Host(f, Box::new(near(x, k))),
        E::Pass(f, x) => E::Pass(*f, Box::new(near(x, k))),
        other => other.clone(),
    }
}

// ------------------------------------------------------------ printers

struct Src<'a> {
    env: &'a Env,
    fresh: usize,
}

fn lit_src(v: i128, t: Option<&T>) -> String {
    match t {
        Some(T::Bool) => (v != 0).to_string(),
        _ => v.to_string(),
    }
}

impl Src<'_> {
    fn e(&mut self, e: &E, ty: Option<&T>) -> String {
        match e {
            E::Lit(v) => lit_src(*v, ty),
            E::BLit(b) => b.to_string(),
            E::Opaque(src, _) => format!("({src})"),
            E::Str(s) => format!("{s:?}"),
            E::Unit => "()".into(),
            E::Arg(i) => format!("p{i}"),
            E::Var(i) => vname(*i),
            E::Fld(b, _, n) => format!("{}.{n}", self.e(b, None)),
            E::Rec(name, fs) => {
                // field initialisers are written in a different order than the
                // declaration for every other record literal (they are matched by name)
                let parts: Vec<String> = rec_order(name.is_some(), fs.len())
                    .into_iter()
                    .map(|k| format!("{}: {}", fs[k].0, self.e(&fs[k].1, None)))
                    .collect();
                let body = parts.join(", ");
                match name {
                    Some(n) if !n.is_empty() => format!("{n} {{ {body} }}"),
                    _ => format!("{{ {body} }}"),
                }
            }
            E::Enm(c, _, fs) => {
                if fs.is_empty() {
                    c.clone()
                } else {
                    format!("{c}({})", fs.iter().map(|x| self.e(x, None)).collect::<Vec<_>>().join(", "))
                }
            }
            E::Lst(xs) => format!("[{}]", xs.iter().map(|x| self.e(x, None)).collect::<Vec<_>>().join(", ")),
            E::Pass(k, x) => format!("id_{k}({})", self.e(x, None)),
            E::Host(f, x) => format!("{f}({})", self.e(x, None)),
            E::PassSet(k, _, _, x) => format!("setf_{k}({})", self.e(x, None)),
            E::If(c, a, b) => format!("if {} {{ {} }} else {{ {} }}", self.e(c, None), self.e(a, None), self.e(b, None)),
            E::Block(tv, p, x, f) => {
                let pth: String = p.iter().map(|(_, n)| format!(".{n}")).collect();
                format!("{{ let {0} = {1}; {0}{pth} = {2}; {0} }}", vname(*tv), self.e(x, None), self.e(f, None))
            }
            E::Get(l, i) => format!("{}.get({i})", self.e(l, None)),
            E::Contains(l, x) => format!("{}.contains({})", self.e(l, None), self.e(x, None)),
            E::Index(l, x) => format!("{}.index({})", self.e(l, None), self.e(x, None)),
            E::Concat(a, b) => format!("{}.concat({})", self.e(a, None), self.e(b, None)),
            E::Try(k, _, x) => format!("try_{k}({})", self.e(x, None)),
            E::Eq(neg, a, b) => format!("({} {} {})", self.e(a, None), if *neg { "!=" } else { "==" }, self.e(b, None)),
            E::Len(x) => format!("{}.len()", self.e(x, None)),
            E::OpaqueK(src, _, _) => format!("({src})"),
            E::Make(k, _) => format!("make_{k}({})", (0..NARGS).map(|i| format!("p{i}")).collect::<Vec<_>>().join(", ")),
            E::StaleNone(k, l) => format!("stale_{k}({})", self.e(l, None)),
            E::Seq(ss, x) => {
                let mut body = String::new();
                self.block(ss, "", &mut body);
                format!("{{ {} {} }}", body.replace('\n', " ").trim_end(), self.e(x, None))
            }
            E::RecO(name, fs) => {
                let body = fs.iter().map(|(_, n, x)| format!("{n}: {}", self.e(x, None))).collect::<Vec<_>>().join(", ");
                match name {
                    Some(n) if !n.is_empty() => format!("{n} {{ {body} }}"),
                    _ => format!("{{ {body} }}"),
                }
            }
            E::First(f, a, b) => format!("{f}({}, {})", self.e(a, None), self.e(b, None)),
        }
    }

    /// type-directed emission of every component of `e : t`
    fn emit(&mut self, e: &str, t: &T, ind: &str, out: &mut String) {
        match t {
            T::Bool => *out += &format!("{ind}emit_bool({e});\n"),
            T::Int(s, b) => *out += &format!("{ind}emit_{}{b}({e});\n", if *s { "i" } else { "u" }),
            T::Str => *out += &format!("{ind}emit_str({e});\n"),
            T::F32 => *out += &format!("{ind}emit_f32({e});\n"),
            T::F64 => *out += &format!("{ind}emit_f64({e});\n"),
            T::Char => *out += &format!("{ind}emit_char({e});\n"),
            T::Asn => *out += &format!("{ind}emit_asn({e});\n"),
            T::IpAddr => *out += &format!("{ind}emit_ip({e});\n"),
            T::Prefix => *out += &format!("{ind}emit_prefix({e});\n"),
            T::Host("Big") => *out += &format!("{ind}emit_big({e});\n"),
            T::Host(_) => *out += &format!("{ind}emit_pt({e});\n"),
            T::Unit => *out += &format!("{ind}emit_unit();\n"),
            T::List(et) => {
                let x = format!("x{}", self.fresh);
                self.fresh += 1;
                *out += &format!("{ind}emit_len({e}.len());\n{ind}for {x} in {e} {{\n");
                self.emit(&x, et, &format!("{ind}    "), out);
                *out += &format!("{ind}}}\n");
            }
            T::Named(i, args) if matches!(self.env.decls[*i], Decl::Record { .. }) => {
                let Decl::Record { fields, .. } = &self.env.decls[*i] else { unreachable!() };
                for (n, ft) in fields {
                    let ft = ft.subst(args);
                    self.emit(&format!("{e}.{n}"), &ft, ind, out);
                }
            }
            _ => {
                let vs: Vec<(String, usize, Vec<T>)> = match t {
                    T::Opt(a) => vec![("Some".into(), 0, vec![(**a).clone()]), ("None".into(), 1, vec![])],
                    T::Res(a, b) => vec![("Ok".into(), 0, vec![(**a).clone()]), ("Err".into(), 1, vec![(**b).clone()])],
                    T::Verdict(a, b) => {
                        vec![("Accept".into(), 0, vec![(**a).clone()]), ("Reject".into(), 1, vec![(**b).clone()])]
                    }
                    T::Named(i, args) => {
                        let Decl::Enum { variants, .. } = &self.env.decls[*i] else { unreachable!() };
                        variants
                            .iter()
                            .enumerate()
                            .map(|(k, (v, ts))| {
                                (
                                    v.clone(),
                                    k,
                                    ts.iter().map(|ft| ft.subst(args)).collect(),
                                )
                            })
                            .collect()
                    }
                    other => unreachable!("emit of {other:?}"),
                };
                *out += &format!("{ind}match {e} {{\n");
                for (pat, tag, ts) in vs {
                    let bs: Vec<String> = ts
                        .iter()
                        .map(|_| {
                            self.fresh += 1;
                            format!("b{}", self.fresh)
                        })
                        .collect();
                    if bs.is_empty() {
                        *out += &format!("{ind}    {pat} => {{\n");
                    } else {
                        *out += &format!("{ind}    {pat}({}) => {{\n", bs.join(", "));
                    }
                    *out += &format!("{ind}        emit_tag({tag});\n");
                    for (b, ft) in bs.iter().zip(&ts) {
                        self.emit(b, ft, &format!("{ind}        "), out);
                    }
                    *out += &format!("{ind}    }}\n");
                }
                *out += &format!("{ind}}}\n");
            }
        }
    }

    fn block(&mut self, ss: &[S], ind: &str, out: &mut String) {
        for s in ss {
            match s {
                S::Let(v, ann, e) => {
                    let a = ann.as_ref().map(|a| format!(": {a}")).unwrap_or_default();
                    *out += &format!("{ind}let {}{a} = {};\n", vname(*v), self.e(e, None));
                }
                S::Set(v, p, e) => {
                    let path: String = p.iter().map(|(_, n)| format!(".{n}")).collect();
                    *out += &format!("{ind}{}{path} = {};\n", vname(*v), self.e(e, None));
                }
                S::CSet(v, p, op, _, e) => {
                    let path: String = p.iter().map(|(_, n)| format!(".{n}")).collect();
                    *out += &format!("{ind}{}{path} {op}= {};\n", vname(*v), self.e(e, None));
                }
                S::Push(l, e) => *out += &format!("{ind}{}.push({});\n", self.e(l, None), self.e(e, None)),
                S::Swap(l, i, j) => *out += &format!("{ind}{}.swap({i}, {j});\n", self.e(l, None)),
                S::Paint(v) => *out += &format!("{ind}paint_stack({v});\n"),
                S::Note(sfx, a, b) => *out += &format!("{ind}note_{sfx}({}, {});\n", vname(*a), vname(*b)),
                S::Call(k, ps, _) => {
                    let args = ps.iter().map(|(_, a)| self.e(a, None)).collect::<Vec<_>>().join(", ");
                    *out += &format!("{ind}callee_{k}({args});\n");
                }
                S::Emit(e, t) => {
                    let es = self.e(e, Some(t));
                    // bind once so that the emitted expression is evaluated once
                    if matches!(e, E::Var(_) | E::Lit(_)) || matches!(t, T::Bool | T::Int(..) | T::Str | T::Unit | T::Host(_) | T::F32 | T::F64 | T::Char | T::Asn | T::IpAddr | T::Prefix) {
                        self.emit(&es, t, ind, out);
                    } else {
                        self.fresh += 1;
                        let tmp = format!("m{}", self.fresh);
                        *out += &format!("{ind}let {tmp} = {es};\n");
                        self.emit(&tmp, t, ind, out);
                    }
                }
                S::Match(e, arms) => {
                    *out += &format!("{ind}match {} {{\n", self.e(e, None));
                    for a in arms {
                        let pat = match &a.pat {
                            None => "_".to_string(),
                            Some((p, _)) if a.binds.is_empty() => p.clone(),
                            Some((p, _)) => {
                                format!("{p}({})", a.binds.iter().map(|b| vname(*b)).collect::<Vec<_>>().join(", "))
                            }
                        };
                        let g = a.guard.as_ref().map(|g| format!(" if {}", self.e(g, None))).unwrap_or_default();
                        *out += &format!("{ind}    {pat}{g} => {{\n");
                        self.block(&a.body, &format!("{ind}        "), out);
                        *out += &format!("{ind}    }}\n");
                    }
                    *out += &format!("{ind}}}\n");
                }
                S::For(x, l, body) => {
                    *out += &format!("{ind}for {} in {} {{\n", vname(*x), self.e(l, None));
                    self.block(body, &format!("{ind}    "), out);
                    *out += &format!("{ind}}}\n");
                }
                S::If(c, a, b) => {
                    // only produced as `if <list>.len() < bound { push } else { emit bound }`
                    let bound = match &b[0] {
                        S::Emit(E::Lit(n), _) => *n,
                        _ => 0,
                    };
                    *out += &format!("{ind}if {} < {bound} {{\n", self.e(c, None));
                    self.block(a, &format!("{ind}    "), out);
                    *out += &format!("{ind}}} else {{\n");
                    self.block(b, &format!("{ind}    "), out);
                    *out += &format!("{ind}}}\n");
                }
            }
        }
    }
}

fn spec_e(e: &E, args: &Args, out: &mut Vec<String>) {
    match e {
        E::Lit(v) => out.extend(["L".into(), v.to_string()]),
        E::BLit(b) => out.extend(["L".into(), (*b as u8).to_string()]),
        E::Opaque(_, shown) => out.extend(["O".into(), hex(shown)]),
        E::Str(s) => out.extend(["S".into(), if s.is_empty() { "-".into() } else { hex(s) }]),
        E::Unit => out.push("U".into()),
        E::Arg(i) => out.extend(["L".into(), arg_val(args, *i).to_string()]),
        E::Var(i) => out.extend(["V".into(), i.to_string()]),
        E::Fld(b, k, _) => {
            out.extend(["F".into(), k.to_string()]);
            spec_e(b, args, out);
        }
        E::Rec(name, fs) => {
            // evaluated in the order the printer writes the initialisers
            let order = rec_order(name.is_some(), fs.len());
            if order.iter().enumerate().all(|(i, k)| i == *k) {
                out.extend(["R".into(), fs.len().to_string()]);
                for (_, x) in fs {
                    spec_e(x, args, out);
                }
            } else {
                out.extend(["RO".into(), fs.len().to_string()]);
                for k in order {
                    out.push(k.to_string());
                    spec_e(&fs[k].1, args, out);
                }
            }
        }
        E::RecO(_, fs) => {
            out.extend(["RO".into(), fs.len().to_string()]);
            for (k, _, x) in fs {
                out.push(k.to_string());
                spec_e(x, args, out);
            }
        }
        E::Seq(ss, x) => {
            out.push("SQ".into());
            spec_block(ss, args, out);
            spec_e(x, args, out);
        }
        E::First(_, a, b) => {
            out.push("P1".into());
            spec_e(a, args, out);
            spec_e(b, args, out);
        }
        E::Enm(_, tag, fs) => {
            out.extend(["N".into(), tag.to_string(), fs.len().to_string()]);
            for x in fs {
                spec_e(x, args, out);
            }
        }
        E::Lst(xs) => {
            out.extend(["A".into(), xs.len().to_string()]);
            for x in xs {
                spec_e(x, args, out);
            }
        }
        E::Pass(_, x) => spec_e(x, args, out),
        E::Host(_, x) => spec_e(x, args, out),
        E::PassSet(_, p, c, x) => {
            out.extend(["M".into(), p.len().to_string()]);
            out.extend(p.iter().map(|(k, _)| k.to_string()));
            spec_e(c, args, out);
            spec_e(x, args, out);
        }
        E::If(c, a, b) => {
            out.push("I".into());
            spec_e(c, args, out);
            spec_e(a, args, out);
            spec_e(b, args, out);
        }
        E::Block(_, p, x, f) => {
            // `{ let t = x; t.p = f; t }`: x is evaluated first, then f
            out.extend(["B".into(), p.len().to_string()]);
            out.extend(p.iter().map(|(k, _)| k.to_string()));
            spec_e(x, args, out);
            spec_e(f, args, out);
        }
        E::Get(l, i) => {
            out.extend(["G".into(), i.to_string()]);
            spec_e(l, args, out);
        }
        E::Contains(l, x) => {
            out.push("C".into());
            spec_e(l, args, out);
            spec_e(x, args, out);
        }
        E::Index(l, x) => {
            out.push("X".into());
            spec_e(l, args, out);
            spec_e(x, args, out);
        }
        E::Concat(a, b) => {
            out.push("K".into());
            spec_e(a, args, out);
            spec_e(b, args, out);
        }
        E::Try(_, p, x) => {
            out.extend(["T".into(), p.len().to_string()]);
            out.extend(p.iter().map(|k| k.to_string()));
            spec_e(x, args, out);
        }
        E::Eq(neg, a, b) => {
            out.extend(["Q".into(), (*neg as u8).to_string()]);
            spec_e(a, args, out);
            spec_e(b, args, out);
        }
        E::Len(x) => {
            out.push("Z".into());
            spec_e(x, args, out);
        }
        E::OpaqueK(_, shown, key) => out.extend(["O2".into(), hex(shown), hex(key)]),
        E::Make(_, x) => spec_e(x, args, out),
        E::StaleNone(_, l) => {
            out.push("W".into());
            spec_e(l, args, out);
        }
    }
}

fn spec_block(ss: &[S], args: &Args, out: &mut Vec<String>) {
    out.push(ss.len().to_string());
    for s in ss {
        match s {
            S::Let(v, _, e) => {
                out.extend(["let".into(), v.to_string()]);
                spec_e(e, args, out);
            }
            S::Set(v, p, e) => {
                out.extend(["set".into(), v.to_string(), p.len().to_string()]);
                out.extend(p.iter().map(|(k, _)| k.to_string()));
                spec_e(e, args, out);
            }
            S::CSet(v, p, op, t, e) => {
                // `v.p op= e` is `v.p = v.p op e`
                out.extend(["set".into(), v.to_string(), p.len().to_string()]);
                out.extend(p.iter().map(|(k, _)| k.to_string()));
                match t {
                    T::Int(sg, bits) => {
                        let o = match op {
                            '+' => 0,
                            '-' => 1,
                            _ => 2,
                        };
                        out.extend(["AR".into(), o.to_string(), (*sg as u8).to_string(), bits.to_string()]);
                    }
                    _ => out.push("SC".into()),
                }
                for (k, _) in p.iter().rev() {
                    out.extend(["F".into(), k.to_string()]);
                }
                out.extend(["V".into(), v.to_string()]);
                spec_e(e, args, out);
            }
            S::Push(l, e) => {
                out.push("push".into());
                spec_e(l, args, out);
                spec_e(e, args, out);
            }
            S::Swap(l, i, j) => {
                out.push("swap".into());
                spec_e(l, args, out);
                out.extend([i.to_string(), j.to_string()]);
            }
            S::Paint(_) | S::Note(..) => out.push("nop".into()),
            S::Call(_, ps, body) => {
                // one statement of the spec: `if 0 < 1 { let p_i = a_i; …; body } else { }`
                out.extend(["iflt".into(), "L".into(), "0".into(), "1".into()]);
                let mut all: Vec<S> = ps.iter().map(|(v, a)| S::Let(*v, None, a.clone())).collect();
                all.extend(body.iter().cloned());
                spec_block(&all, args, out);
                out.push("0".into());
            }
            S::Emit(e, _) => {
                out.push("emit".into());
                spec_e(e, args, out);
            }
            S::Match(e, arms) => {
                out.push("match".into());
                spec_e(e, args, out);
                out.push(arms.len().to_string());
                for a in arms {
                    out.push(match &a.pat {
                        None => "-1".into(),
                        Some((_, t)) => t.to_string(),
                    });
                    out.push(a.binds.len().to_string());
                    out.extend(a.binds.iter().map(|b| b.to_string()));
                    match &a.guard {
                        None => out.push("0".into()),
                        Some(g) => {
                            out.push("1".into());
                            spec_e(g, args, out);
                        }
                    }
                    spec_block(&a.body, args, out);
                }
            }
            S::For(x, l, body) => {
                out.extend(["for".into(), x.to_string()]);
                spec_e(l, args, out);
                spec_block(body, args, out);
            }
            S::If(c, a, b) => {
                let bound = match &b[0] {
                    S::Emit(E::Lit(n), _) => *n,
                    _ => 0,
                };
                out.extend(["iflt".into()]);
                spec_e(c, args, out);
                out.push(bound.to_string());
                spec_block(a, args, out);
                spec_block(b, args, out);
            }
        }
    }
}

pub struct Program {
    /// `const v{i}: T = init;` (constants are variables 0..n of the program)
    pub consts: Vec<(usize, String, E)>,
    pub env: Env,
    pub helpers: Vec<String>,
    pub body: Vec<S>,
    pub kinds: Vec<&'static str>,
}

pub fn gen_program(p: &mut Prng) -> Program {
    let o = GenOpts { exotic: false, host: true };
    let n = 1 + p.below(4) as usize;
    let env = gen_env(p, n, &o);
    let mut g = Gen { p, env, vars: vec![], helpers: vec![], kinds: Default::default(), fresh: 0, closed: false, closed_args: false, in_for: false };
    for d in &g.env.decls {
        match d.nparams() {
            1 => {
                g.kinds.insert("generic-one-parameter");
            }
            2 => {
                g.kinds.insert("generic-two-parameters");
            }
            _ => {}
        }
    }
    let mut body = vec![];
    // constants: closed initialisers, read whole or by field, never assigned
    let mut consts = vec![];
    let nc = g.p.below(3);
    for _ in 0..nc {
        let t = g.pick_type();
        g.closed = true;
        let e = g.build0(&t, 2);
        g.closed = false;
        let ann = t.src(&g.env);
        let v = g.new_var(t, None);
        g.vars[v].is_const = true;
        g.kinds.insert("const-item");
        consts.push((v, ann, e));
    }
    let n = 6 + g.p.below(10);
    for _ in 0..n {
        g.stmt(2, &mut body);
    }
    for v in g.live_vars() {
        body.extend(g.emit_var(v));
    }
    let _ = g.fresh;
    Program { consts, env: g.env, helpers: g.helpers, body, kinds: g.kinds.into_iter().collect() }
}

pub fn source(pr: &Program) -> String {
    let mut s = decl_src(&pr.env);
    {
        let mut src = Src { env: &pr.env, fresh: 0 };
        for (v, ann, e) in &pr.consts {
            s += &format!("const {}: {ann} = {};\n", vname(*v), src.e(e, None));
        }
    }
    for h in &pr.helpers {
        s += h;
        s += "\n";
    }
    s += "fn main(p0: u8, p1: u16, p2: u32, p3: u64, p4: i8, p5: i64, p6: bool) {\n";
    let mut src = Src { env: &pr.env, fresh: 0 };
    let mut out = String::new();
    src.block(&pr.body, "    ", &mut out);
    s += &out;
    s += "}\n";
    s
}

pub fn spec(pr: &Program, args: &Args) -> String {
    // constants are evaluated once, before `main`: plain bindings in the spec
    let mut all: Vec<S> = pr.consts.iter().map(|(v, _, e)| S::Let(*v, None, e.clone())).collect();
    all.extend(pr.body.iter().cloned());
    let mut out = vec![];
    spec_block(&all, args, &mut out);
    out.join(" ")
}

fn gen_args(p: &mut Prng) -> Args {
    let b = |p: &mut Prng, lo: i128, hi: i128| -> i128 {
        match p.below(5) {
            0 => lo,
            1 => hi,
            2 => 0,
            3 => 1,
            _ => lo + (p.next() as i128).rem_euclid(hi - lo + 1),
        }
    };
    (
        b(p, 0, 255) as u8,
        b(p, 0, 65535) as u16,
        b(p, 0, u32::MAX as i128) as u32,
        b(p, 0, u64::MAX as i128) as u64,
        b(p, -128, 127) as i8,
        b(p, i64::MIN as i128, i64::MAX as i128) as i64,
        p.chance(1, 2),
    )
}

/// scripts above this size are regenerated: the inline emission of deeply
/// nested types can expand to megabytes, which only measures compile time
pub const MAX_SCRIPT: usize = 48 * 1024;

pub fn gen_case(seed: u64, idx: u64) -> Case {
    let mut p = Prng::for_case(seed ^ 0xC02B, idx);
    let mut pr = gen_program(&mut p);
    let mut script = source(&pr);
    let mut attempt = 0u64;
    while script.len() > MAX_SCRIPT && attempt < 8 {
        attempt += 1;
        p = Prng::for_case(seed ^ 0xC02B ^ (attempt << 40), idx);
        pr = gen_program(&mut p);
        script = source(&pr);
    }
    // a list inside a constant is one shared storage for the life of the
    // package: pushes made during one call of `main` are seen by the next. The
    // spec evaluates one call from fresh constants, so such scripts run once.
    let runs = if pr.consts.is_empty() { 3 } else { 1 };
    let args: Vec<Args> = (0..runs).map(|_| gen_args(&mut p)).collect();
    // the spec text depends on the arguments (they are substituted)
    let spec = args.iter().map(|a| spec(&pr, a)).collect::<Vec<_>>().join("\n");
    Case { script, spec, args, sig: pr.kinds.join("+") }
}

// ------------------------------------------------------------ class representatives

/// The element types of the representation battery: one per way a value can
/// own bytes that are not part of it (an Option / enum whose live variant is
/// smaller than the largest, padding inside and at the end of a record, float
/// zeros, nests of those), plus the kinds that go through clone functions.
fn rep_env() -> (Env, Vec<T>) {
    let u = |b: u8| T::Int(false, b);
    let f = |n: &str, t: T| (n.to_string(), t);
    let env = Env {
        decls: vec![
            // 0: padding between the fields
            Decl::Record { name: "R0".into(), generic: 0, fields: vec![f("a", u(8)), f("b", u(32))] },
            // 1: padding at the end
            Decl::Record { name: "R1".into(), generic: 0, fields: vec![f("a", u(64)), f("b", u(8))] },
            // 2: floats of both widths (and padding after the f32)
            Decl::Record { name: "R2".into(), generic: 0, fields: vec![f("x", T::F64), f("y", T::F32)] },
            // 3: payloads of three sizes
            Decl::Enum {
                name: "E3".into(),
                generic: 0,
                variants: vec![("A".into(), vec![u(64), u(16)]), ("B".into(), vec![u(8)]), ("C".into(), vec![])],
            },
            // 4: generic, payload then nothing
            Decl::Enum {
                name: "E4".into(),
                generic: 1,
                variants: vec![("P".into(), vec![T::Param(0), u(8)]), ("Q".into(), vec![])],
            },
            // 5: needs a clone function, holds an Option whose payload may be stale
            Decl::Record {
                name: "R5".into(),
                generic: 0,
                fields: vec![f("s", T::Str), f("o", T::Opt(Box::new(u(32)))), f("t", u(8))],
            },
            // 6: nested: a record with padding inside an enum inside a record
            Decl::Record {
                name: "R6".into(),
                generic: 0,
                fields: vec![f("k", T::Bool), f("e", T::Named(3, vec![])), f("r", T::Opt(Box::new(T::Named(0, vec![]))))],
            },
        ],
    };
    let o = |t: T| T::Opt(Box::new(t));
    let ts = vec![
        o(u(32)),
        o(u(8)),
        o(T::Int(true, 64)),
        T::Named(0, vec![]),
        T::Named(1, vec![]),
        T::Named(2, vec![]),
        T::F64,
        T::F32,
        o(T::F64),
        T::Named(3, vec![]),
        T::Named(4, vec![u(16)]),
        T::Named(4, vec![T::Named(0, vec![])]),
        T::Res(Box::new(u(64)), Box::new(u(8))),
        T::Verdict(Box::new(u(8)), Box::new(T::Named(1, vec![]))),
        o(T::Named(0, vec![])),
        o(o(u(16))),
        T::Named(5, vec![]),
        T::Named(6, vec![]),
        o(T::Str),
        o(T::Unit),
        T::Host("Pt"),
        o(T::Host("Pt")),
        o(T::Host("Big")),
        o(T::IpAddr),
        o(T::Prefix),
        o(T::Char),
        T::List(Box::new(o(u(32)))),
        T::Bool,
        u(64),
    ];
    (env, ts)
}

pub fn n_reps() -> u64 {
    n_held_reps() + n_order_reps() + 2 * rep_env().1.len() as u64
}

// ---- evaluation order inside constructors: constructor kind x earlier component x later write

/// the constructor kinds whose components are evaluated one after the other
const CTORS: [&str; 10] = [
    "record",          // W { first: <early>, second: { <write>; n } }
    "record-reversed", // X { b: <early>, a: { <write>; n } }  (declared a, b)
    "anonymous",       // { first: <early>, second: { <write>; n } }
    "anonymous-as-named", // let w: W = { first: <early>, second: { <write>; n } }
    "enum",            // VV.A(<early>, { <write>; n })
    "list",            // [<early>, { <write>; <early> }]
    "call",            // first_k(<early>, { <write>; n })
    "host-call",       // first_u32(<early>, { <write>; n })
    "eq",              // <early> == { <write>; <early> }
    "record-three",    // W3 { a: <early>, b: { <write>; n }, c: <early> }
];

/// the kinds of earlier component (what the later write could reach)
const EARLY: [&str; 16] = [
    "variable-u32", "variable-i64", "variable-u8", "field", "nested-field", "literal", "whole-record",
    "sub-record", "string", "string-field", "option", "enum", "list", "host-clone", "anonymous-field", "list-field",
];

pub fn n_order_reps() -> u64 {
    (CTORS.len() * EARLY.len()) as u64
}

/// declarations of the evaluation-order representatives; `t` = type of the earlier component
fn order_env(t: &T) -> Env {
    let u = |b: u8| T::Int(false, b);
    let f = |n: &str, t: T| (n.to_string(), t);
    Env {
        decls: vec![
            Decl::Record { name: "P".into(), generic: 0, fields: vec![f("x", u(32)), f("y", u(8))] },
            Decl::Record { name: "N".into(), generic: 0, fields: vec![f("p", T::Named(0, vec![])), f("k", u(16)), f("s", T::Str)] },
            Decl::Enum { name: "V0".into(), generic: 0, variants: vec![("A".into(), vec![u(32), u(8)]), ("B".into(), vec![])] },
            Decl::Record { name: "LR".into(), generic: 0, fields: vec![f("l", T::List(Box::new(u(32)))), f("k", u(8))] },
            // 4..: the constructors under test
            Decl::Record { name: "W".into(), generic: 0, fields: vec![f("first", t.clone()), f("second", u(8))] },
            Decl::Record { name: "X".into(), generic: 0, fields: vec![f("a", u(8)), f("b", t.clone())] },
            Decl::Enum { name: "VV".into(), generic: 0, variants: vec![("A".into(), vec![t.clone(), u(8)]), ("B".into(), vec![])] },
            Decl::Record { name: "W3".into(), generic: 0, fields: vec![f("a", t.clone()), f("b", u(8)), f("c", t.clone())] },
            // 8, 9: holders of the held-copy representatives
            Decl::Record { name: "H".into(), generic: 0, fields: vec![f("o", T::Opt(Box::new(t.clone()))), f("k", u(8))] },
            Decl::Enum {
                name: "VH".into(),
                generic: 0,
                variants: vec![("A".into(), vec![t.clone(), u(8)]), ("B".into(), vec![u(64), u(64)]), ("C".into(), vec![])],
            },
        ],
    }
}

fn early_type(ek: usize) -> T {
    let u = |b: u8| T::Int(false, b);
    match EARLY[ek] {
        "variable-u32" | "field" | "nested-field" | "literal" | "anonymous-field" => u(32),
        "variable-i64" => T::Int(true, 64),
        "variable-u8" => u(8),
        "whole-record" | "sub-record" => T::Named(0, vec![]),
        "string" | "string-field" => T::Str,
        "option" => T::Opt(Box::new(u(32))),
        "enum" => T::Named(2, vec![]),
        "list" | "list-field" => T::List(Box::new(u(32))),
        "host-clone" => T::Host("Big"),
        other => unreachable!("{other}"),
    }
}

/// one group of an evaluation-order representative: fresh variables, the
/// earlier component's expression, the root variable the later write goes
/// to, and the `m`-th write of this kind (`None` when there is no `m`-th)
fn early_group(g: &mut Gen, ek: usize, m: usize, out: &mut Vec<S>) -> Option<(E, usize, S)> {
    let u = |b: u8| T::Int(false, b);
    let pt = T::Named(0, vec![]);
    let nt = T::Named(1, vec![]);
    let fld = |k: usize, n: &str| (k, n.to_string());
    let mk_p = |x: E, y: E| E::Rec(Some("P".into()), vec![("x".into(), x), ("y".into(), y)]);
    let mk_n = |p: E, k: E, s: &str| E::Rec(Some("N".into()), vec![("p".into(), p), ("k".into(), k), ("s".into(), E::Str(s.into()))]);
    let kind = EARLY[ek];
    // (declare lazily: only when the m-th write exists)
    macro_rules! pick {
        ($ws:expr) => {{
            let mut ws: Vec<S> = $ws;
            if m >= ws.len() {
                return None;
            }
            ws.swap_remove(m)
        }};
    }
    let nwrites = match kind {
        "variable-u32" | "field" | "whole-record" | "string-field" | "list-field" => 3,
        "nested-field" | "sub-record" => 4,
        "enum" | "host-clone" => 1,
        _ => 2,
    };
    if m >= nwrites {
        return None;
    }
    let let_ = |g: &mut Gen, t: T, e: E, out: &mut Vec<S>| -> usize {
        let ann = t.src(&g.env);
        let v = g.new_var(t, None);
        out.push(S::Let(v, Some(ann), e));
        v
    };
    Some(match kind {
        "variable-u32" | "literal" => {
            let n = let_(g, u(32), E::Arg(2), out);
            let w = pick!(vec![
                S::Set(n, vec![], E::Lit(9)),
                S::CSet(n, vec![], '+', u(32), E::Lit(1)),
                S::CSet(n, vec![], '*', u(32), E::Lit(3)),
            ]);
            (if kind == "literal" { E::Lit(7) } else { E::Var(n) }, n, w)
        }
        "variable-i64" => {
            let n = let_(g, T::Int(true, 64), E::Arg(5), out);
            let w = pick!(vec![S::Set(n, vec![], E::Lit(-4)), S::CSet(n, vec![], '-', T::Int(true, 64), E::Lit(1))]);
            (E::Var(n), n, w)
        }
        "variable-u8" => {
            let n = let_(g, u(8), E::Arg(0), out);
            let w = pick!(vec![S::Set(n, vec![], E::Lit(200)), S::CSet(n, vec![], '+', u(8), E::Lit(100))]);
            (E::Var(n), n, w)
        }
        "field" | "whole-record" => {
            let p = let_(g, pt.clone(), mk_p(E::Arg(2), E::Arg(0)), out);
            let w = pick!(vec![
                S::Set(p, vec![], mk_p(E::Lit(50), E::Lit(60))),
                S::Set(p, vec![fld(0, "x")], E::Lit(99)),
                if kind == "field" {
                    S::CSet(p, vec![fld(0, "x")], '+', u(32), E::Lit(1))
                } else {
                    S::CSet(p, vec![fld(1, "y")], '+', u(8), E::Lit(1))
                },
            ]);
            let read = if kind == "field" { Gen::path_expr(p, &[fld(0, "x")]) } else { E::Var(p) };
            (read, p, w)
        }
        "nested-field" | "sub-record" | "string-field" => {
            let q = let_(g, nt.clone(), mk_n(mk_p(E::Arg(2), E::Arg(0)), E::Arg(1), "s"), out);
            let other = mk_n(mk_p(E::Lit(50), E::Lit(60)), E::Lit(70), "other");
            let w = match kind {
                "nested-field" => pick!(vec![
                    S::Set(q, vec![], other),
                    S::Set(q, vec![fld(0, "p")], mk_p(E::Lit(51), E::Lit(61))),
                    S::Set(q, vec![fld(0, "p"), fld(0, "x")], E::Lit(99)),
                    S::CSet(q, vec![fld(0, "p"), fld(0, "x")], '*', u(32), E::Lit(2)),
                ]),
                "sub-record" => pick!(vec![
                    S::Set(q, vec![], other),
                    S::Set(q, vec![fld(0, "p")], mk_p(E::Lit(51), E::Lit(61))),
                    S::Set(q, vec![fld(0, "p"), fld(0, "x")], E::Lit(99)),
                    S::CSet(q, vec![fld(0, "p"), fld(1, "y")], '-', u(8), E::Lit(1)),
                ]),
                _ => pick!(vec![
                    S::Set(q, vec![], other),
                    S::Set(q, vec![fld(2, "s")], E::Str("new".into())),
                    S::CSet(q, vec![fld(2, "s")], '+', T::Str, E::Str("y".into())),
                ]),
            };
            let read = match kind {
                "nested-field" => Gen::path_expr(q, &[fld(0, "p"), fld(0, "x")]),
                "sub-record" => Gen::path_expr(q, &[fld(0, "p")]),
                _ => Gen::path_expr(q, &[fld(2, "s")]),
            };
            (read, q, w)
        }
        "string" => {
            let sv = let_(g, T::Str, E::Str("abc".into()), out);
            let w = pick!(vec![S::Set(sv, vec![], E::Str("zz".into())), S::CSet(sv, vec![], '+', T::Str, E::Str("x".into()))]);
            (E::Var(sv), sv, w)
        }
        "option" => {
            let o = let_(g, T::Opt(Box::new(u(32))), E::Enm("Some".into(), 0, vec![E::Arg(2)]), out);
            let w = pick!(vec![
                S::Set(o, vec![], E::Enm("None".into(), 1, vec![])),
                S::Set(o, vec![], E::Enm("Some".into(), 0, vec![E::Lit(1)])),
            ]);
            (E::Var(o), o, w)
        }
        "enum" => {
            let e = let_(g, T::Named(2, vec![]), E::Enm("V0.A".into(), 0, vec![E::Arg(2), E::Lit(1)]), out);
            (E::Var(e), e, S::Set(e, vec![], E::Enm("V0.B".into(), 1, vec![])))
        }
        "list" => {
            let l = let_(g, T::List(Box::new(u(32))), E::Lst(vec![E::Arg(2)]), out);
            // rebinding the name (the earlier component keeps the OLD storage) / a push (shared: seen)
            let w = pick!(vec![S::Set(l, vec![], E::Lst(vec![E::Lit(9), E::Lit(9)])), S::Push(E::Var(l), E::Lit(5))]);
            (E::Var(l), l, w)
        }
        "list-field" => {
            let r = let_(
                g,
                T::Named(3, vec![]),
                E::Rec(Some("LR".into()), vec![("l".into(), E::Lst(vec![E::Arg(2)])), ("k".into(), E::Arg(0))]),
                out,
            );
            let w = pick!(vec![
                S::Set(r, vec![fld(0, "l")], E::Lst(vec![E::Lit(1)])),
                S::Push(Gen::path_expr(r, &[fld(0, "l")]), E::Lit(3)),
                S::Set(r, vec![], E::Rec(Some("LR".into()), vec![("l".into(), E::Lst(vec![])), ("k".into(), E::Lit(2))])),
            ]);
            (Gen::path_expr(r, &[fld(0, "l")]), r, w)
        }
        "host-clone" => {
            let b = let_(g, T::Host("Big"), E::Host("mk_big", Box::new(E::Arg(2))), out);
            (E::Var(b), b, S::Set(b, vec![], E::Host("mk_big", Box::new(E::Lit(7)))))
        }
        "anonymous-field" => {
            let fs = vec![("f".to_string(), u(32)), ("g".to_string(), u(8))];
            let a = g.new_var(T::Unit, Some(fs));
            out.push(S::Let(a, None, E::Rec(None, vec![("f".into(), E::Arg(2)), ("g".into(), E::Arg(0))])));
            let w = pick!(vec![S::Set(a, vec![fld(0, "f")], E::Lit(5)), S::CSet(a, vec![fld(0, "f")], '+', u(32), E::Lit(1))]);
            (Gen::path_expr(a, &[fld(0, "f")]), a, w)
        }
        other => unreachable!("{other}"),
    })
}

/// evaluation-order representative `idx` = (constructor kind, earlier component kind): one
/// group per kind of later write. `None`: the combination does not exist
fn gen_order_rep(idx: u64) -> Option<Case> {
    let ck = idx as usize / EARLY.len();
    let ek = idx as usize % EARLY.len();
    let ctor = CTORS[ck];
    let t = early_type(ek);
    match (ctor, EARLY[ek]) {
        // the host functions of that shape take a u32 / a String
        ("host-call", e) if !matches!(e, "variable-u32" | "field" | "nested-field" | "literal" | "anonymous-field" | "string" | "string-field") => {
            return None
        }
        // no `==` on the registered type
        ("eq", "host-clone") => return None,
        _ => {}
    }
    let mut p = Prng::for_case(0xC02_07D3, idx);
    let env = order_env(&t);
    let mut g = Gen { p: &mut p, env, vars: vec![], helpers: vec![], kinds: Default::default(), fresh: 0, closed: false, closed_args: false, in_for: false };
    let mut body = vec![];
    let u8t = T::Int(false, 8);
    for m in 0..4 {
        let Some((read, root, write)) = early_group(&mut g, ek, m, &mut body) else { break };
        let late = |x: E| E::Seq(vec![write.clone()], Box::new(x));
        let n = E::Lit(1 + m as i128);
        let (wt, anon, e): (T, Option<Vec<(String, T)>>, E) = match ctor {
            "record" => (
                T::Named(4, vec![]),
                None,
                E::RecO(Some("W".into()), vec![(0, "first".into(), read.clone()), (1, "second".into(), late(n))]),
            ),
            "record-reversed" => (
                T::Named(5, vec![]),
                None,
                E::RecO(Some("X".into()), vec![(1, "b".into(), read.clone()), (0, "a".into(), late(n))]),
            ),
            "anonymous" => (
                T::Unit,
                Some(vec![("first".to_string(), t.clone()), ("second".to_string(), u8t.clone())]),
                E::RecO(None, vec![(0, "first".into(), read.clone()), (1, "second".into(), late(n))]),
            ),
            "anonymous-as-named" => (
                T::Named(4, vec![]),
                None,
                E::RecO(Some(String::new()), vec![(0, "first".into(), read.clone()), (1, "second".into(), late(n))]),
            ),
            "enum" => (T::Named(6, vec![]), None, E::Enm("VV.A".into(), 0, vec![read.clone(), late(n)])),
            "list" => (T::List(Box::new(t.clone())), None, E::Lst(vec![read.clone(), late(read.clone())])),
            "call" => {
                let k = g.helpers.len();
                let ts = t.src(&g.env);
                g.helpers.push(format!("fn first_{k}(x: {ts}, y: u8) -> {ts} {{ x }}"));
                (t.clone(), None, E::First(format!("first_{k}"), Box::new(read.clone()), Box::new(late(n))))
            }
            "host-call" => {
                let f = if t == T::Str { "first_str" } else { "first_u32" };
                (t.clone(), None, E::First(f.into(), Box::new(read.clone()), Box::new(late(n))))
            }
            "eq" => (T::Bool, None, E::Eq(m % 2 == 1, Box::new(read.clone()), Box::new(late(read.clone())))),
            "record-three" => (
                T::Named(7, vec![]),
                None,
                E::RecO(
                    Some("W3".into()),
                    vec![(0, "a".into(), read.clone()), (1, "b".into(), late(n)), (2, "c".into(), read.clone())],
                ),
            ),
            other => unreachable!("{other}"),
        };
        let ann = if anon.is_some() { None } else { Some(wt.src(&g.env)) };
        let w = g.new_var(wt, anon);
        body.push(S::Let(w, ann, e));
        body.extend(g.emit_var(w));
        body.extend(g.emit_var(root));
        g.kinds.insert(match &write {
            S::Set(_, p, _) if p.is_empty() => "order-assign-var",
            S::Set(..) => "order-assign-field",
            S::CSet(..) => "order-compound-assign",
            _ => "order-push",
        });
    }
    let pr = Program { consts: vec![], env: g.env, helpers: g.helpers, body, kinds: g.kinds.into_iter().collect() };
    let script = prune_decls(&pr);
    let args: Vec<Args> = (0..3).map(|_| gen_args(&mut p)).collect();
    let spec = args.iter().map(|a| spec(&pr, a)).collect::<Vec<_>>().join("\n");
    Some(Case { script, spec, args, sig: format!("order-representative+ctor:{ctor}+early:{}+{}", EARLY[ek], pr.kinds.join("+")) })
}


// ---- a held copy is not reached by a later write: holder kind x value kind x write

/// The places where the language takes a COPY of an aggregate and keeps using
/// it while user code runs that can write to the variable the copy was taken
/// from: the examinee of a `match` (discriminant read, then per candidate arm
/// the bindings are extracted and the guard runs — a guard is arbitrary code),
/// the iterable of a `for`, a `let`, a parameter. `<write>` ranges over the
/// writes of `early_group` (assign the variable / a field / a nested field,
/// compound assignment, push).
const HOLDS: [&str; 11] = [
    "match-guard-local",    // let o = Some(<v>); match o { Some(y) if { <write>; o = Some(<v>); false } => .., Some(y) => emit y, None => .. }
    "match-guard-variant",  // … Some(y) if { o = None; <write>; false } => .., Some(y) => emit y, None => ..
    "match-guard-param",    // fn callee(o: Option[T], n: T) { match o { Some(y) if { o = Some(n); false } => .., Some(y) => emit y, .. } }
    "match-guard-field",    // match r.o { Some(y) if { r.o = Some(<v>); false } => .., Some(y) if { r = H {..}; false } => .., Some(y) => emit y, .. }
    "match-guard-true",     // … Some(y) if { o = None; <write>; true } => emit y, ..
    "match-own-enum",       // match e { A(a, b) if { e = VH.B(..); false } => .., A(a, b) if { e = VH.C; false } => .., A(a, b) => emit a b, .. }
    "match-wild-after-guard", // match o { Some(y) if { o = None; false } => .., None => .., _ => { emit 77; emit o } }
    "match-arm-write",      // match o { Some(y) => { o = None; <write>; emit y; emit o } .. }
    "match-binding-write",  // match o { Some(y) => { <write>; y = <v>; emit y; emit o } .. }
    "for-rebind",           // let l = [<v>, <v>]; for x in l { l = []; <write>; emit x }
    "let-copy",             // let c = <v>; <write>; emit c
];

pub fn n_held_reps() -> u64 {
    (HOLDS.len() * EARLY.len()) as u64
}

fn gen_held_rep(idx: u64) -> Case {
    let hk = idx as usize / EARLY.len();
    let ek = idx as usize % EARLY.len();
    let hold = HOLDS[hk];
    let t = early_type(ek);
    let mut p = Prng::for_case(0xC02_08A1, idx);
    let env = order_env(&t);
    let mut g = Gen { p: &mut p, env, vars: vec![], helpers: vec![], kinds: Default::default(), fresh: 0, closed: false, closed_args: false, in_for: false };
    let mut body = vec![];
    let u8t = T::Int(false, 8);
    let ot = T::Opt(Box::new(t.clone()));
    let some = |e: E| E::Enm("Some".into(), 0, vec![e]);
    let none = || E::Enm("None".into(), 1, vec![]);
    let mark = |n: i128| S::Emit(E::Lit(n), T::Int(false, 8));
    let no = |ss: Vec<S>| E::Seq(ss, Box::new(E::BLit(false)));
    let some_pat = || Some(("Some".to_string(), 0usize));
    let none_pat = || Some(("None".to_string(), 1usize));
    for m in 0..4 {
        let Some((read, root, write)) = early_group(&mut g, ek, m, &mut body) else { break };
        let let_ = |g: &mut Gen, t: &T, e: E, body: &mut Vec<S>| -> usize {
            let ann = t.src(&g.env);
            let v = g.new_var(t.clone(), None);
            body.push(S::Let(v, Some(ann), e));
            v
        };
        // an arm `Some(y) [if guard] => { mark; emit y; extra }`
        let arm = |g: &mut Gen, pat: Option<(String, usize)>, bind_t: &[T], guard: Option<E>, n: i128, extra: Vec<S>| -> Arm {
            let binds: Vec<usize> = bind_t.iter().map(|bt| g.new_var(bt.clone(), None)).collect();
            let mut b = vec![mark(n)];
            for y in &binds {
                b.extend(g.emit_var(*y));
            }
            b.extend(extra);
            Arm { pat, binds, guard, body: b }
        };
        match hold {
            "match-guard-local" | "match-guard-variant" | "match-guard-true" | "match-wild-after-guard" => {
                let o = let_(&mut g, &ot, some(read.clone()), &mut body);
                let mut arms = vec![];
                match hold {
                    "match-guard-local" => {
                        let gd = no(vec![write.clone(), S::Set(o, vec![], some(read.clone()))]);
                        arms.push(arm(&mut g, some_pat(), &[t.clone()], Some(gd), 101, vec![]));
                        arms.push(arm(&mut g, some_pat(), &[t.clone()], None, 102, vec![]));
                        arms.push(arm(&mut g, none_pat(), &[], None, 103, vec![]));
                    }
                    "match-guard-variant" => {
                        let gd = no(vec![S::Set(o, vec![], none()), write.clone()]);
                        arms.push(arm(&mut g, some_pat(), &[t.clone()], Some(gd), 101, vec![]));
                        arms.push(arm(&mut g, none_pat(), &[], None, 103, vec![]));
                        arms.push(arm(&mut g, some_pat(), &[t.clone()], None, 102, vec![]));
                    }
                    "match-guard-true" => {
                        let gd = E::Seq(vec![S::Set(o, vec![], none()), write.clone()], Box::new(E::BLit(true)));
                        arms.push(arm(&mut g, some_pat(), &[t.clone()], Some(gd), 101, vec![]));
                        arms.push(arm(&mut g, some_pat(), &[t.clone()], None, 102, vec![]));
                        arms.push(arm(&mut g, none_pat(), &[], None, 103, vec![]));
                    }
                    _ => {
                        let gd = no(vec![S::Set(o, vec![], none()), write.clone()]);
                        arms.push(arm(&mut g, some_pat(), &[t.clone()], Some(gd), 101, vec![]));
                        arms.push(arm(&mut g, none_pat(), &[], None, 103, vec![]));
                        let rest = g.emit_var(o);
                        arms.push(arm(&mut g, None, &[], None, 77, rest));
                    }
                }
                body.push(S::Match(E::Var(o), arms));
                body.extend(g.emit_var(o));
            }
            "match-guard-param" => {
                // the callee matches on ITS parameter; the guard overwrites the parameter
                let o = g.new_var(ot.clone(), None);
                let n = g.new_var(t.clone(), None);
                let mut cb = vec![];
                let gd1 = no(vec![S::Set(o, vec![], some(E::Var(n)))]);
                let gd2 = no(vec![S::Set(o, vec![], none())]);
                let arms = vec![
                    arm(&mut g, some_pat(), &[t.clone()], Some(gd1), 101, vec![]),
                    arm(&mut g, some_pat(), &[t.clone()], Some(gd2), 104, vec![]),
                    arm(&mut g, some_pat(), &[t.clone()], None, 102, vec![]),
                    arm(&mut g, none_pat(), &[], None, 103, vec![]),
                ];
                cb.push(S::Match(E::Var(o), arms));
                cb.extend(g.emit_var(o));
                let k = g.helpers.len();
                let mut src = Src { env: &g.env, fresh: 50_000 + 1000 * k };
                let mut text = String::new();
                src.block(&cb, "    ", &mut text);
                let h = format!("fn callee_{k}({}: {}, {}: {}) {{\n{text}}}", vname(o), ot.src(&g.env), vname(n), t.src(&g.env));
                g.helpers.push(h);
                body.push(S::Call(k, vec![(o, some(read.clone())), (n, E::Seq(vec![write.clone()], Box::new(read.clone())))], cb));
            }
            "match-guard-field" => {
                let ht = T::Named(8, vec![]);
                let mk_h = |o: E, k: i128| E::Rec(Some("H".into()), vec![("o".into(), o), ("k".into(), E::Lit(k))]);
                let r = let_(&mut g, &ht, mk_h(some(read.clone()), 1), &mut body);
                let fo = vec![(0usize, "o".to_string())];
                let gd1 = no(vec![write.clone(), S::Set(r, fo.clone(), some(read.clone()))]);
                let gd2 = no(vec![S::Set(r, vec![], mk_h(none(), 2))]);
                let arms = vec![
                    arm(&mut g, some_pat(), &[t.clone()], Some(gd1), 101, vec![]),
                    arm(&mut g, some_pat(), &[t.clone()], Some(gd2), 104, vec![]),
                    arm(&mut g, some_pat(), &[t.clone()], None, 102, vec![]),
                    arm(&mut g, none_pat(), &[], None, 103, vec![]),
                ];
                body.push(S::Match(Gen::path_expr(r, &fo), arms));
                body.extend(g.emit_var(r));
            }
            "match-own-enum" => {
                let vt = T::Named(9, vec![]);
                let u64t = T::Int(false, 64);
                let e = let_(&mut g, &vt, E::Enm("VH.A".into(), 0, vec![read.clone(), E::Lit(7)]), &mut body);
                let to_b = S::Set(e, vec![], E::Enm("VH.B".into(), 1, vec![E::Lit(0x1111_1111_1111_1111), E::Arg(3)]));
                let to_c = S::Set(e, vec![], E::Enm("VH.C".into(), 2, vec![]));
                let a_pat = || Some(("A".to_string(), 0usize));
                let gd1 = no(vec![to_b]);
                let gd2 = no(vec![to_c, write.clone()]);
                let arms = vec![
                    arm(&mut g, a_pat(), &[t.clone(), u8t.clone()], Some(gd1), 101, vec![]),
                    arm(&mut g, a_pat(), &[t.clone(), u8t.clone()], Some(gd2), 104, vec![]),
                    arm(&mut g, a_pat(), &[t.clone(), u8t.clone()], None, 102, vec![]),
                    arm(&mut g, Some(("B".to_string(), 1)), &[u64t.clone(), u64t.clone()], None, 105, vec![]),
                    arm(&mut g, Some(("C".to_string(), 2)), &[], None, 103, vec![]),
                ];
                body.push(S::Match(E::Var(e), arms));
                body.extend(g.emit_var(e));
            }
            "match-arm-write" | "match-binding-write" => {
                let o = let_(&mut g, &ot, some(read.clone()), &mut body);
                let y = g.new_var(t.clone(), None);
                let mut b = vec![];
                if hold == "match-arm-write" {
                    b.push(S::Set(o, vec![], none()));
                    b.push(write.clone());
                } else {
                    b.push(write.clone());
                    b.push(S::Set(y, vec![], read.clone()));
                }
                b.extend(g.emit_var(y));
                b.extend(g.emit_var(o));
                let arms = vec![
                    Arm { pat: some_pat(), binds: vec![y], guard: None, body: b },
                    arm(&mut g, none_pat(), &[], None, 103, vec![]),
                ];
                body.push(S::Match(E::Var(o), arms));
                body.extend(g.emit_var(o));
            }
            "for-rebind" => {
                let lt = T::List(Box::new(t.clone()));
                let l = let_(&mut g, &lt, E::Lst(vec![read.clone(), read.clone()]), &mut body);
                let x = g.new_var(t.clone(), None);
                let mut b = vec![S::Set(l, vec![], E::Lst(vec![])), write.clone()];
                b.extend(g.emit_var(x));
                body.push(S::For(x, E::Var(l), b));
                body.extend(g.emit_var(l));
            }
            "let-copy" => {
                let c = let_(&mut g, &t, read.clone(), &mut body);
                body.push(write.clone());
                body.extend(g.emit_var(c));
            }
            other => unreachable!("{other}"),
        }
        body.extend(g.emit_var(root));
        g.kinds.insert(match &write {
            S::Set(_, p, _) if p.is_empty() => "held-assign-var",
            S::Set(..) => "held-assign-field",
            S::CSet(..) => "held-compound-assign",
            _ => "held-push",
        });
    }
    let pr = Program { consts: vec![], env: g.env, helpers: g.helpers, body, kinds: g.kinds.into_iter().collect() };
    let script = prune_decls(&pr);
    let args: Vec<Args> = (0..3).map(|_| gen_args(&mut p)).collect();
    let spec = args.iter().map(|a| spec(&pr, a)).collect::<Vec<_>>().join("\n");
    Case { script, spec, args, sig: format!("held-copy-representative+hold:{hold}+value:{}+{}", EARLY[ek], pr.kinds.join("+")) }
}

/// the source of a program without the declarations nothing refers to (a
/// representative should be as small as its class allows)
fn prune_decls(pr: &Program) -> String {
    let full = source(pr);
    let all = decl_src(&pr.env);
    let rest = full.strip_prefix(all.as_str()).unwrap_or(&full).to_string();
    // (a declaration only refers to earlier ones: print prefixes and cut)
    let mut each: Vec<String> = vec![];
    let mut upto = String::new();
    for i in 0..pr.env.decls.len() {
        let next = decl_src(&Env { decls: pr.env.decls[..=i].to_vec() });
        each.push(next[upto.len()..].to_string());
        upto = next;
    }
    let words = |t: &str| -> std::collections::BTreeSet<String> {
        t.split(|c: char| !(c.is_alphanumeric() || c == '_')).map(|w| w.to_string()).collect()
    };
    let mut keep = vec![false; each.len()];
    let mut seen = words(&rest);
    loop {
        let mut changed = false;
        for i in 0..each.len() {
            if !keep[i] && seen.contains(pr.env.decls[i].name()) {
                keep[i] = true;
                changed = true;
                // the body of the declaration (after its own name) refers to others
                seen.extend(words(&each[i]));
            }
        }
        if !changed {
            break;
        }
    }
    let mut out = String::new();
    for i in 0..each.len() {
        if keep[i] {
            out += &each[i];
        }
    }
    out + &rest
}

/// representative `idx` of the batteries: independent of the seed of the run.
/// The evaluation-order representatives come first.
pub fn gen_rep_case(idx: u64) -> Case {
    // the held-copy representatives come first, then evaluation order, then representation
    if idx < n_held_reps() {
        return gen_held_rep(idx);
    }
    let idx = idx - n_held_reps();
    if idx < n_order_reps() {
        return gen_order_rep(idx).unwrap_or(Case {
            script: "fn main(p0: u8, p1: u16, p2: u32, p3: u64, p4: i8, p5: i64, p6: bool) {\n}\n".into(),
            spec: "0".into(),
            args: vec![(0, 0, 0, 0, 0, 0, false)],
            sig: "order-representative:not-applicable".into(),
        });
    }
    let idx = idx - n_order_reps();
    let (env, ts) = rep_env();
    let t = ts[idx as usize % ts.len()].clone();
    let round = idx as usize / ts.len();
    let mut p = Prng::for_case(0xC02_4E95, idx);
    let mut g = Gen { p: &mut p, env, vars: vec![], helpers: vec![], kinds: Default::default(), fresh: 0, closed: false, closed_args: false, in_for: false };
    let mut body = vec![];
    // every variant of an enum-like type in turn (two per representative)
    g.repr_block(&t, Some(2 * round), &mut body);
    g.repr_block(&t, Some(2 * round + 1), &mut body);
    if round == 0 {
        g.stale_block(&t, &mut body);
    } else {
        g.repr_block(&t, Some(2 * round + 2), &mut body);
    }
    for v in g.live_vars() {
        body.extend(g.emit_var(v));
    }
    g.kinds.insert("representative");
    let pr = Program { consts: vec![], env: g.env, helpers: g.helpers, body, kinds: g.kinds.into_iter().collect() };
    let script = source(&pr);
    let args: Vec<Args> = (0..3).map(|_| gen_args(&mut p)).collect();
    let spec = args.iter().map(|a| spec(&pr, a)).collect::<Vec<_>>().join("\n");
    Case { script, spec, args, sig: format!("{}:{}", pr.kinds.join("+"), t.src(&pr.env)) }
}

pub fn case_json(c: &Case) -> Value {
    json!({
        "kind": "beh",
        "script": c.script,
        "spec": c.spec.lines().collect::<Vec<_>>(),
        "args": c.args.iter().map(|a| json!([a.0, a.1, a.2, a.3, a.4, a.5, a.6])).collect::<Vec<_>>(),
    })
}

// ------------------------------------------------------------ runner

thread_local! {
    static LAST_PANIC: std::cell::RefCell<String> = const { std::cell::RefCell::new(String::new()) };
}

fn install_panic_hook() {
    std::panic::set_hook(Box::new(|info| {
        let loc = info
            .location()
            .map(|l| {
                let f = l.file();
                let f = f.rsplit_once("/src/").map(|x| format!("src/{}", x.1)).unwrap_or(f.to_string());
                format!("{f}:{}", l.line())
            })
            .unwrap_or_default();
        LAST_PANIC.with(|p| *p.borrow_mut() = loc);
    }));
}

/// Every item of the script's MIR — the structured dump of the real lowerer's output after
/// dead-code elimination, hook `verif_hooks::c03::dump` — goes through the Lean checker
/// `RotoV.ValueMir.matchIsOnCopy` (`c02 mirmatch`), which is proved sound
/// (`match_bindings_read_the_switched_value_mir`): if it accepts, then on EVERY path through the
/// item no instruction between a discriminant read of a variable and a binding extraction from
/// it writes, drops or moves that variable. A rejection is a violation with the script as the
/// failing input (the behavioural run of the same script shows the wrong value when the path
/// is taken); the number of binding extractions verified is measured.
fn mir_match_check(script: &str, rt: &Runtime<NoCtx>, drv: &mut Driver, rep: &mut Report, input: &dyn Fn(Value) -> Value) {
    let dumped = std::panic::catch_unwind(std::panic::AssertUnwindSafe(|| {
        roto::verif_hooks::c03::dump(FileTree::test_file("c02.roto", script, 0), rt)
    }));
    let Ok(Ok(items)) = dumped else {
        rep.hist("mir_match_checker", "no-dump");
        return;
    };
    for it in items {
        let nums: Vec<String> = it.nums.iter().map(|n| n.to_string()).collect();
        let ans = drv.ask(&format!("c02 mirmatch {}", nums.join(" ")));
        let get = |k: &str| -> u64 {
            ans.split(';').find_map(|kv| kv.strip_prefix(k)).and_then(|x| x.parse().ok()).unwrap_or(0)
        };
        if ans.starts_with("ok;") {
            rep.hist("mir_match_checker", "items-accepted");
            for _ in 0..get("binds=") {
                rep.hist("mir_match_checker", "binding-extractions-verified");
            }
            for _ in 0..get("discr=") {
                rep.hist("mir_match_checker", "discriminant-reads");
            }
            // the second verified checker (`argumentsAreConsumed`, soundness
            // `call_arguments_are_consumed_mir`): aggregate / owned values handed to a call
            for _ in 0..get("args=") {
                rep.hist("mir_match_checker", "call-arguments-verified");
            }
        } else if ans.starts_with("badarg;") {
            let var = it.vars.get(get("var=") as usize).cloned().unwrap_or_default();
            crate::viol(
                rep,
                &format!(
                    "the MIR of a well-typed script hands variable `{var}` (a record / enum / owned value) to a call and reads, drops, moves, passes or returns `{var}` afterwards on some path before assigning it anew: the callee's parameter is not a copy of its own (item {}, {ans})",
                    it.name
                ),
                "call-argument-used-after-call",
                input(json!({"item": it.name, "checker": ans, "variable": var, "mir": it.text})),
            );
        } else if ans.starts_with("bad;") {
            let var = it.vars.get(get("var=") as usize).cloned().unwrap_or_default();
            crate::viol(
                rep,
                &format!(
                    "the MIR of a well-typed script extracts a pattern binding from variable `{var}` on a path on which `{var}` was written (or dropped / moved) after its discriminant was read: the match does not work on a copy (item {}, {ans})",
                    it.name
                ),
                "match-binding-after-write",
                input(json!({"item": it.name, "checker": ans, "variable": var, "mir": it.text})),
            );
        } else {
            rep.mismatch(
                "the Lean reader cannot decode the MIR dump of an item (grammar of verif_hooks::c03 changed?)",
                input(json!({"item": it.name, "answer": ans})),
            );
        }
    }
}

fn run_case(script: &str, specs: &[String], args: &[Args], sig: &str, rt: &Runtime<NoCtx>, drv: &mut Driver, rep: &mut Report) {
    rep.evaluations += 1;
    let input = |extra: Value| {
        json!({
            "kind": "beh", "script": script, "spec": specs,
            "args": args.iter().map(|a| json!([a.0, a.1, a.2, a.3, a.4, a.5, a.6])).collect::<Vec<_>>(),
            "detail": extra,
        })
    };
    let compiled = std::panic::catch_unwind(std::panic::AssertUnwindSafe(|| {
        FileTree::test_file("c02.roto", script, 0).compile(rt)
    }));
    let mut pkg = match compiled {
        Err(_) => {
            let loc = LAST_PANIC.with(|p| p.borrow().clone());
            crate::viol(rep, &format!("compiling a well-typed copy/mutate script panics the compiler at {loc}"),
                &format!("compile-panic {loc}"),
                input(json!(loc)),
            );
            return;
        }
        Ok(Err(e)) => {
            rep.hist("beh_scripts", "rejected");
            let msg = crate::strip_ansi(&format!("{e}")).lines().take(8).collect::<Vec<_>>().join(" / ");
            if rep.notes.len() < 5 {
                rep.notes.push(format!("generator produced a rejected script: {msg}"));
            }
            // every generated script is well-typed by construction (0 rejections on
            // the unchanged tree): a rejection breaks the tie
            crate::viol(
                rep,
                &format!("the compiler rejects a well-typed script: {msg}"),
                "rejected-well-typed",
                input(json!(msg)),
            );
            return;
        }
        Ok(Ok(p)) => p,
    };
    rep.hist("beh_scripts", "ok");
    // before anything runs: the real lowerer's MIR of the script through the verified checker
    mir_match_check(script, rt, drv, rep, &input);
    let f = match pkg.get_function::<fn(u8, u16, u32, u64, i8, i64, bool) -> ()>("main") {
        Ok(f) => f,
        Err(e) => {
            rep.notes.push(format!("main not retrievable: {e}"));
            return;
        }
    };
    let mut all_ok = true;
    let mut run_no = 0usize;
    for (a, sp) in args.iter().zip(specs) {
        LOG.lock().unwrap().clear();
        let live_before = LIVE_BIG.load(std::sync::atomic::Ordering::SeqCst);
        // what `main`'s frame holds before `main` writes to it
        paint([0x00u8, 0x5A, 0xC3][run_no % 3]);
        run_no += 1;
        let r = std::panic::catch_unwind(std::panic::AssertUnwindSafe(|| f.call(a.0, a.1, a.2, a.3, a.4, a.5, a.6)));
        let got = LOG.lock().unwrap().join(",");
        for (c, k) in [(&BYTES_DIFFER, "differ"), (&BYTES_SAME, "same")] {
            for _ in 0..c.swap(0, std::sync::atomic::Ordering::SeqCst) {
                rep.hist("equal_values_compared_as_list_elements_bytes", k);
            }
        }
        let live_after = LIVE_BIG.load(std::sync::atomic::Ordering::SeqCst);
        let bad = BAD_BIG.swap(0, std::sync::atomic::Ordering::SeqCst);
        // (a value pushed into a list that lives in a `const` legitimately outlives the call)
        let retains = sig.contains("const-item") || script.contains("\nconst ");
        if r.is_ok() && ((live_after != live_before && !retains) || bad != 0) {
            crate::viol(
                rep,
                "registered Clone values are not released exactly once: after `main` returned the number of live host values changed, or a dead one was touched",
                "drop-balance",
                input(json!({"live_before": live_before, "live_after": live_after, "touched_dead": bad, "statement_kinds": sig})),
            );
            return;
        }
        if r.is_err() {
            crate::viol(rep, "running the script panicked", "run-panic", input(json!(null)));
            return;
        }
        let want = drv.ask(&format!("c02 spec {sp}"));
        if want.starts_with("bad") {
            rep.mismatch("the Lean spec rejected a generated program", input(json!(want)));
            return;
        }
        if got != want {
            all_ok = false;
            let g: Vec<&str> = got.split(',').collect();
            let w: Vec<&str> = want.split(',').collect();
            let first = (0..g.len().max(w.len())).find(|i| g.get(*i) != w.get(*i)).unwrap_or(0);
            crate::viol(rep, "a compiled script emits other component values than value semantics (Lean spec) prescribes",
                "value-semantics",
                input(json!({"statement_kinds": sig, "first_difference_at": first, "impl": g.get(first), "spec": w.get(first),
                             "impl_len": g.len(), "spec_len": w.len()})),
            );
            break;
        }
        rep.hist("emissions_per_run", format!("<= {}", (got.split(',').count()).next_power_of_two()));
    }
    if all_ok {
        rep.class(format!("beh {sig}"));
        for k in sig.split('+') {
            rep.hist("statement_kinds", k);
        }
        if rep.samples.len() < 6 && script.len() < 1500 {
            rep.sample(json!({"script": script, "emitted": LOG.lock().unwrap().len()}));
        }
    }
}

pub fn worker(seed: u64, base: u64, from: u64, n: u64, reps: bool) {
    install_panic_hook();
    let rt = runtime();
    let mut drv = Driver::spawn().expect("driver");
    let mut rep = Report::default();
    crate::start_watchdog(10);
    for idx in from..from + n {
        println!("START {idx}");
        crate::case_begins();
        let c = if reps { gen_rep_case(base + idx) } else { gen_case(seed, base + idx) };
        let specs: Vec<String> = c.spec.lines().map(|s| s.to_string()).collect();
        run_case(&c.script, &specs, &c.args, &c.sig, &rt, &mut drv, &mut rep);
    }
    rep.emit();
}

fn parse_args(v: &Value) -> Vec<Args> {
    v.as_array()
        .map(|a| {
            a.iter()
                .map(|t| {
                    (
                        t[0].as_u64().unwrap_or(0) as u8,
                        t[1].as_u64().unwrap_or(0) as u16,
                        t[2].as_u64().unwrap_or(0) as u32,
                        t[3].as_u64().unwrap_or(0),
                        t[4].as_i64().unwrap_or(0) as i8,
                        t[5].as_i64().unwrap_or(0),
                        t[6].as_bool().unwrap_or(false),
                    )
                })
                .collect()
        })
        .unwrap_or_default()
}

pub fn replay(v: &Value, rep: &mut Report) {
    // compile / run in a child so that a crash is reported, not suffered
    // handed over in a file: a script may exceed the argv limit
    let dir = std::path::Path::new("evidence/replays");
    let _ = std::fs::create_dir_all(dir);
    let path = dir.join(format!(".c02-replay-{}.json", std::process::id()));
    std::fs::write(&path, v.to_string()).expect("write replay payload");
    let payload = format!("@{}", path.display());
    let ended = rotov_harness::worker::run_worker(&["beh-one", "0", "0", "0", &payload], std::time::Duration::from_secs(120));
    let _ = std::fs::remove_file(&path);
    match ended {
        rotov_harness::worker::Ended::Exit(0, out) => {
            if let Some(j) = Report::parse_stdout(&out) {
                rep.merge_json(&j);
            }
        }
        other => rep.violation(
            &format!("replaying the script kills the process: {}", crate::ended_str(&other)),
            "crash beh",
            v.clone(),
        ),
    }
}

pub fn replay_in_worker(payload: &str) {
    install_panic_hook();
    crate::start_watchdog(30);
    let text = match payload.strip_prefix('@') {
        Some(path) => std::fs::read_to_string(path).expect("replay payload file"),
        None => payload.to_string(),
    };
    let v: Value = serde_json::from_str(&text).expect("json");
    let rt = runtime();
    let mut drv = Driver::spawn().expect("driver");
    let mut rep = Report::default();
    let specs: Vec<String> =
        v["spec"].as_array().map(|a| a.iter().map(|s| s.as_str().unwrap_or("").to_string()).collect()).unwrap_or_default();
    let args = parse_args(&v["args"]);
    run_case(v["script"].as_str().unwrap_or(""), &specs, &args, "replay", &rt, &mut drv, &mut rep);
    rep.emit();
}

/// minimised past disagreements / known witnesses, replayed first
pub fn corpus(rep: &mut Report) {
    let dir = std::path::Path::new("corpus/C02");
    let Ok(rd) = std::fs::read_dir(dir) else { return };
    let mut files: Vec<_> = rd.filter_map(|e| e.ok()).map(|e| e.path()).collect();
    files.sort();
    for f in files {
        if f.extension().map(|e| e == "json").unwrap_or(false) {
            if let Ok(s) = std::fs::read_to_string(&f) {
                if let Ok(v) = serde_json::from_str::<Value>(&s) {
                    replay(&v, rep);
                    rep.hist("corpus", "replayed");
                }
            }
        }
    }
}
