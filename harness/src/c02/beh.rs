//! C02 behavioural correspondence (stub, filled in below).
use rotov_harness::Report;
use serde_json::{Value, json};

pub struct Case { pub script: String }
pub fn corpus(_rep: &mut Report) {}
pub fn gen_case(_seed: u64, _idx: u64) -> Case { Case { script: String::new() } }
pub fn case_json(c: &Case) -> Value { json!({"kind": "beh", "script": c.script}) }
pub fn worker(_seed: u64, _from: u64, _n: u64) { Report::default().emit(); }
pub fn replay(_v: &Value, _rep: &mut Report) {}
