//! Zero-sized registered values (`Val<T>` with `size_of::<T>() == 0`).
//!
//! Since the boundary repair "a zero-sized registered type among the
//! parameters shifted every later argument" a registered type is a reference
//! type whatever its size: a bare zero-sized registered value has an IR value
//! (a pointer) and is cloned / dropped / compared through its registered
//! functions like any other registered value, while an aggregate whose only
//! components are such values is still zero-sized itself. This battery runs
//! copy / compare scripts over both and checks the property at that corner:
//! every copy is a value of its own (one clone per copy that stays alive, one
//! drop per value released — counted by a drop-tracked zero-sized host type),
//! and `==` is structural.
//!
//! Each script runs in a subprocess (`c02 zst-one <i>`).
use roto::{FileTree, List, Runtime, TypedFunc, Val, library};
use rotov_harness::Report;
use serde_json::json;
use std::sync::atomic::{AtomicI64, AtomicU64, Ordering};

pub static LIVE0: AtomicI64 = AtomicI64::new(0);
pub static EQS0: AtomicU64 = AtomicU64::new(0);

/// zero-sized, drop-tracked
#[derive(Debug)]
pub struct Tk0;
impl Tk0 {
    pub fn new() -> Tk0 {
        LIVE0.fetch_add(1, Ordering::SeqCst);
        Tk0
    }
}
impl Clone for Tk0 {
    fn clone(&self) -> Tk0 {
        Tk0::new()
    }
}
impl Drop for Tk0 {
    fn drop(&mut self) {
        LIVE0.fetch_sub(1, Ordering::SeqCst);
    }
}
impl PartialEq for Tk0 {
    fn eq(&self, _: &Tk0) -> bool {
        EQS0.fetch_add(1, Ordering::SeqCst);
        true
    }
}

const DECLS: &str = "
record R0 { z: Tk0 }
record R00 { a: Tk0, b: Tk0 }
record RX { z: Tk0, x: u32 }
record RN { r: R0 }
";

/// (name, body of `fn f(out: List[Tk0]) -> bool`, number of values `out` must hold afterwards)
pub const SCRIPTS: &[(&str, &str, usize)] = &[
    ("bare-copy", "let a = mk0(); let b = a; out.push(b); out.push(a); true", 2),
    ("bare-eq", "let a = mk0(); let b = mk0(); a == b", 0),
    ("bare-ne", "let a = mk0(); let b = mk0(); !(a != b)", 0),
    ("rec0-copy", "let r = R0 { z: mk0() }; let s = r; out.push(s.z); out.push(r.z); true", 2),
    ("rec0-unused", "let r = R0 { z: mk0() }; let s = r; true", 0),
    ("rec0-eq", "let r = R0 { z: mk0() }; let s = R0 { z: mk0() }; r == s", 0),
    ("rec0-pass", "let r = R0 { z: mk0() }; take0(r, out); out.push(r.z); true", 2),
    ("rec00-copy", "let r = R00 { a: mk0(), b: mk0() }; let s = r; out.push(s.a); out.push(r.b); true", 2),
    ("recn-copy", "let r = RN { r: R0 { z: mk0() } }; let s = r; out.push(s.r.z); out.push(r.r.z); true", 2),
    ("recx-copy", "let r = RX { z: mk0(), x: 1 }; let s = r; out.push(s.z); out.push(r.z); true", 2),
    ("recx-eq", "let r = RX { z: mk0(), x: 1 }; let s = RX { z: mk0(), x: 1 }; r == s", 0),
    ("opt-copy", "let r = Some(mk0()); let s = r; match s { Some(z) => { out.push(z); } None => {} } match r { Some(z) => { out.push(z); } None => {} } true", 2),
    ("opt-eq", "let r = Some(mk0()); let s = Some(mk0()); r == s", 0),
    ("opt-rec0-copy", "let r = Some(R0 { z: mk0() }); let s = r; match s { Some(q) => { out.push(q.z); } None => {} } match r { Some(q) => { out.push(q.z); } None => {} } true", 2),
    ("list-rec0", "let l = [R0 { z: mk0() }]; match l.get(0) { Some(q) => { out.push(q.z); } None => {} } match l.get(0) { Some(q) => { out.push(q.z); } None => {} } true", 2),
    ("field-write", "let r = RX { z: mk0(), x: 1 }; let s = r; s.z = mk0(); out.push(s.z); out.push(r.z); true", 2),
    ("field-write0", "let r = R0 { z: mk0() }; let s = r; s.z = mk0(); out.push(s.z); out.push(r.z); true", 2),
];

pub fn source(i: usize) -> String {
    format!(
        "{DECLS}{}\nfn f(out: List[Tk0]) -> bool {{ {} }}\n",
        if SCRIPTS[i].1.contains("take0(") { "\nfn take0(r: R0, out: List[Tk0]) { out.push(r.z); }" } else { "" },
        SCRIPTS[i].1
    )
}

/// worker: prints `ZST {json}`
pub fn one(i: usize) {
    let rt = Runtime::from_lib(library! {
        /// zero-sized registered Clone type
        #[clone] type Tk0 = Val<Tk0>;
        /// make one
        fn mk0() -> Val<Tk0> { Val(Tk0::new()) }
    })
    .expect("runtime");
    let src = source(i);
    let mut pkg = match FileTree::test_file("zst.roto", &src, 0).compile(&rt) {
        Ok(p) => p,
        Err(e) => {
            println!("ZST {}", json!({"compile_error": super::strip_ansi(&format!("{e}"))}));
            return;
        }
    };
    let f: TypedFunc<roto::NoCtx, fn(List<Val<Tk0>>) -> bool> = pkg.get_function("f").expect("f");
    let base = LIVE0.load(Ordering::SeqCst);
    let out: List<Val<Tk0>> = List::new();
    let r = f.call(out.clone());
    let held = out.len();
    let live_after = LIVE0.load(Ordering::SeqCst) - base;
    drop(out);
    let live_end = LIVE0.load(Ordering::SeqCst) - base;
    println!(
        "ZST {}",
        json!({"result": r, "held": held, "live_after": live_after, "live_end": live_end, "eqs": EQS0.load(Ordering::SeqCst)})
    );
}

/// Does the script build a value of a zero-sized aggregate type with a
/// zero-sized registered component (`R0`, `R00`, `RN`)? Those are the inputs
/// of the open finding `C02-zero-sized-aggregate-of-registered`.
pub fn zero_sized_aggregate(i: usize) -> bool {
    let b = SCRIPTS[i].1;
    b.contains("R0 {") || b.contains("R00 {") || b.contains("RN {")
}

pub fn run(rep: &mut Report) {
    for i in 0..SCRIPTS.len() {
        run_one(i, rep);
    }
}

pub fn run_one(i: usize, rep: &mut Report) {
    let exe = std::env::current_exe().expect("exe");
    {
        let (name, _, want) = &SCRIPTS[i];
        let pre = if zero_sized_aggregate(i) { "zst0agg" } else { "zst" };
        let out = std::process::Command::new(&exe).args(["zst-one", &i.to_string()]).output();
        rep.evaluations += 1;
        rep.hist("zst", *name);
        let input = json!({"kind": "zst", "index": i, "name": name, "script": source(i)});
        let Ok(out) = out else {
            super::viol(rep, "cannot run the zero-sized battery", &format!("{pre}:{name}:spawn"), input);
            return;
        };
        let text = String::from_utf8_lossy(&out.stdout).to_string();
        let line = text.lines().find_map(|l| l.strip_prefix("ZST "));
        let Some(v) = line.and_then(|l| serde_json::from_str::<serde_json::Value>(l).ok()) else {
            let err = super::strip_ansi(&String::from_utf8_lossy(&out.stderr));
            let first: Vec<&str> = err.lines().filter(|l| !l.trim().is_empty() && !l.starts_with("thread '")).take(1).collect();
            let how = if err.contains("Internal compiler error: did not find Var") { "ice-did-not-find-var" } else { "crash" };
            super::viol(
                rep,
                &format!("a well-typed script over zero-sized registered values kills the process ({:?}): {}", out.status.code(), first.join(" / ")),
                &format!("{pre}:{name}:{how}"),
                input,
            );
            return;
        };
        if let Some(e) = v.get("compile_error") {
            super::viol(rep, &format!("a well-typed script over zero-sized registered values does not compile: {e}"), &format!("{pre}:{name}:compile"), input);
            return;
        }
        let held = v["held"].as_u64().unwrap_or(u64::MAX) as usize;
        let la = v["live_after"].as_i64().unwrap_or(i64::MIN);
        let le = v["live_end"].as_i64().unwrap_or(i64::MIN);
        if v["result"] != json!(true) {
            super::viol(rep, "== / != on values built from zero-sized registered values is not structural equality", &format!("{pre}:{name}:eq"), input.clone());
        }
        if held != *want || la != *want as i64 || le != 0 {
            super::viol(
                rep,
                &format!(
                    "copies of a value built from zero-sized registered Clone values are not values of their own: the host holds {held} (expected {want}), live after the call {la} (expected {want}), live after releasing them {le} (expected 0)"
                ),
                &format!("{pre}:{name}:balance"),
                input,
            );
        }
    }
}
