//! Script backend of the C15 harness: the same operations issued from compiled
//! Roto functions on the same `List<T>` handles.
use super::{Elem, Op};
use roto::List;

pub const AVAILABLE: bool = false;

pub struct Funcs<T: Elem>
where
    T::Transformed: PartialEq,
{
    _p: std::marker::PhantomData<T>,
}

pub fn compile<T: Elem>() -> Funcs<T>
where
    T::Transformed: PartialEq,
{
    Funcs { _p: std::marker::PhantomData }
}

pub fn step<T: Elem>(_f: &Funcs<T>, _slots: &mut Vec<Option<List<T>>>, _op: &Op) -> String
where
    T::Transformed: PartialEq,
{
    "unsupported".into()
}
