//! Script backend of the C15 harness: the same operations issued from compiled
//! Roto functions (list literals, methods, `+`, `==`, `for`) on the same
//! `List<T>` handles the Rust side holds.
//!
//! A zero-sized registered value is never passed *as an argument* (that is
//! C05's known defect, not C15's business): for `Tk0` the element is made
//! inside the script by a registered `mk0()`.
use super::{Body, Elem, Op, Tk0, Tk24, nats, show_opt};
use roto::{FileTree, List, NoCtx, RotoString, Runtime, TypedFunc, Val, library};

pub const AVAILABLE: bool = true;

type F<A> = TypedFunc<NoCtx, A>;

enum WithElem<T: Elem, R: 'static>
where
    T::Transformed: PartialEq,
{
    Arg(F<fn(List<T>, T) -> R>),
    Made(F<fn(List<T>) -> R>),
}

enum Lit<T: Elem>
where
    T::Transformed: PartialEq,
{
    Arg(F<fn(T, T) -> List<T>>, F<fn(T, T, T) -> List<T>>),
    Made(F<fn() -> List<T>>, F<fn() -> List<T>>),
}

pub struct Funcs<T: Elem>
where
    T::Transformed: PartialEq,
{
    new: F<fn() -> List<T>>,
    new_method: F<fn() -> List<T>>,
    lit: Lit<T>,
    push: WithElem<T, ()>,
    contains: WithElem<T, bool>,
    index: WithElem<T, Option<u64>>,
    get: F<fn(List<T>, u64) -> Option<T>>,
    len: F<fn(List<T>) -> u64>,
    is_empty: F<fn(List<T>) -> bool>,
    capacity: F<fn(List<T>) -> u64>,
    swap: F<fn(List<T>, u64, u64)>,
    concat: F<fn(List<T>, List<T>) -> List<T>>,
    plus: F<fn(List<T>, List<T>) -> List<T>>,
    eq: F<fn(List<T>, List<T>) -> bool>,
    ne: F<fn(List<T>, List<T>) -> bool>,
    iter: F<fn(List<T>) -> List<T>>,
    ident: F<fn(List<T>) -> List<T>>,
    drop: F<fn(List<T>)>,
    join: Option<F<fn(List<T>, RotoString) -> RotoString>>,
    for_rebind: F<fn(List<T>, List<T>, u64) -> List<T>>,
    for_concat: F<fn(List<T>, List<T>, u64) -> List<T>>,
    for_new: F<fn(List<T>, u64) -> List<T>>,
    for_field: F<fn(List<T>, List<T>, u64) -> List<T>>,
    for_push: ForPush<T>,
    for_swap: F<fn(List<T>, List<T>, u64, u64, u64) -> List<T>>,
}

enum ForPush<T: Elem>
where
    T::Transformed: PartialEq,
{
    Arg(F<fn(List<T>, List<T>, u64, T) -> List<T>>),
    Made(F<fn(List<T>, List<T>, u64) -> List<T>>),
}

fn source(t: &str, made: bool, string: bool) -> String {
    let l = format!("List[{t}]");
    let mut s = String::new();
    s.push_str(&format!("fn s_new() -> {l} {{ [] }}\n"));
    s.push_str(&format!("fn s_new_method() -> {l} {{ List.new() }}\n"));
    if made {
        s.push_str(&format!("fn s_lit2() -> {l} {{ [mk0(), mk0()] }}\n"));
        s.push_str(&format!("fn s_lit3() -> {l} {{ [mk0(), mk0(), mk0()] }}\n"));
        s.push_str(&format!("fn s_push(l: {l}) {{ l.push(mk0()); }}\n"));
        s.push_str(&format!("fn s_contains(l: {l}) -> bool {{ l.contains(mk0()) }}\n"));
        s.push_str(&format!("fn s_index(l: {l}) -> u64? {{ l.index(mk0()) }}\n"));
    } else {
        s.push_str(&format!("fn s_lit2(a: {t}, b: {t}) -> {l} {{ [a, b] }}\n"));
        s.push_str(&format!("fn s_lit3(a: {t}, b: {t}, c: {t}) -> {l} {{ [a, b, c] }}\n"));
        s.push_str(&format!("fn s_push(l: {l}, v: {t}) {{ l.push(v); }}\n"));
        s.push_str(&format!("fn s_contains(l: {l}, v: {t}) -> bool {{ l.contains(v) }}\n"));
        s.push_str(&format!("fn s_index(l: {l}, v: {t}) -> u64? {{ l.index(v) }}\n"));
    }
    s.push_str(&format!("fn s_get(l: {l}, i: u64) -> {t}? {{ l.get(i) }}\n"));
    s.push_str(&format!("fn s_len(l: {l}) -> u64 {{ l.len() }}\n"));
    s.push_str(&format!("fn s_is_empty(l: {l}) -> bool {{ l.is_empty() }}\n"));
    s.push_str(&format!("fn s_capacity(l: {l}) -> u64 {{ l.capacity() }}\n"));
    s.push_str(&format!("fn s_swap(l: {l}, i: u64, j: u64) {{ l.swap(i, j); }}\n"));
    s.push_str(&format!("fn s_concat(a: {l}, b: {l}) -> {l} {{ a.concat(b) }}\n"));
    s.push_str(&format!("fn s_plus(a: {l}, b: {l}) -> {l} {{ a + b }}\n"));
    s.push_str(&format!("fn s_eq(a: {l}, b: {l}) -> bool {{ a == b }}\n"));
    s.push_str(&format!("fn s_ne(a: {l}, b: {l}) -> bool {{ a != b }}\n"));
    s.push_str(&format!(
        "fn s_iter(l: {l}) -> {l} {{ let out = List.new(); for x in l {{ out.push(x); }} out }}\n"
    ));
    s.push_str(&format!("fn s_ident(l: {l}) -> {l} {{ l }}\n"));
    s.push_str(&format!("fn s_drop(l: {l}) {{ }}\n"));
    if string {
        s.push_str("fn s_join(l: List[String], sep: String) -> String { l.join(sep) }\n");
    }
    // loops with a body: during iteration `k` the variable the loop is written over
    // gets another handle, or a list is changed through the second variable
    let lp = |body: &str| format!("let out = List.new(); let i = 0; for x in l {{ out.push(x); if i == k {{ {body} }} i = i + 1; }} out");
    s.push_str(&format!("fn s_for_rebind(l: {l}, o: {l}, k: u64) -> {l} {{ {} }}\n", lp("l = o;")));
    s.push_str(&format!("fn s_for_concat(l: {l}, o: {l}, k: u64) -> {l} {{ {} }}\n", lp("l = l + o;")));
    s.push_str(&format!("fn s_for_new(l: {l}, k: u64) -> {l} {{ {} }}\n", lp("l = [];")));
    s.push_str(&format!("record Holder {{ items: {l} }}\n"));
    s.push_str(&format!(
        "fn s_for_field(l: {l}, o: {l}, k: u64) -> {l} {{ let r = Holder {{ items: l }}; let out = List.new(); let i = 0; for x in r.items {{ out.push(x); if i == k {{ r.items = o; }} i = i + 1; }} out }}\n"
    ));
    if made {
        s.push_str(&format!("fn s_for_push(l: {l}, o: {l}, k: u64) -> {l} {{ {} }}\n", lp("o.push(mk0());")));
    } else {
        s.push_str(&format!("fn s_for_push(l: {l}, o: {l}, k: u64, v: {t}) -> {l} {{ {} }}\n", lp("o.push(v);")));
    }
    s.push_str(&format!("fn s_for_swap(l: {l}, o: {l}, k: u64, a: u64, b: u64) -> {l} {{ {} }}\n", lp("o.swap(a, b);")));
    s
}

pub fn compile<T: Elem>() -> Funcs<T>
where
    T::Transformed: PartialEq,
{
    let rt = Runtime::from_lib(library! {
        #[clone] type Tk0 = Val<Tk0>;
        #[clone] type Tk24 = Val<Tk24>;
        fn mk0() -> Val<Tk0> { Val(Tk0::new()) }
    })
    .expect("runtime");
    let made = T::NAME == "Tk0";
    let string = T::NAME == "String";
    let src = source(T::ROTO, made, string);
    let mut pkg = match FileTree::test_file("c15.roto", &src, 0).compile(&rt) {
        Ok(p) => p,
        Err(e) => panic!("the C15 script for {} does not compile:\n{e}", T::NAME),
    };
    macro_rules! f {
        ($n:expr) => {
            pkg.get_function($n).unwrap_or_else(|e| panic!("{}: {e}", $n))
        };
    }
    Funcs {
        new: f!("s_new"),
        new_method: f!("s_new_method"),
        lit: if made { Lit::Made(f!("s_lit2"), f!("s_lit3")) } else { Lit::Arg(f!("s_lit2"), f!("s_lit3")) },
        push: if made { WithElem::Made(f!("s_push")) } else { WithElem::Arg(f!("s_push")) },
        contains: if made { WithElem::Made(f!("s_contains")) } else { WithElem::Arg(f!("s_contains")) },
        index: if made { WithElem::Made(f!("s_index")) } else { WithElem::Arg(f!("s_index")) },
        get: f!("s_get"),
        len: f!("s_len"),
        is_empty: f!("s_is_empty"),
        capacity: f!("s_capacity"),
        swap: f!("s_swap"),
        concat: f!("s_concat"),
        plus: f!("s_plus"),
        eq: f!("s_eq"),
        ne: f!("s_ne"),
        iter: f!("s_iter"),
        ident: f!("s_ident"),
        drop: f!("s_drop"),
        join: if string { Some(f!("s_join")) } else { None },
        for_rebind: f!("s_for_rebind"),
        for_concat: f!("s_for_concat"),
        for_new: f!("s_for_new"),
        for_field: f!("s_for_field"),
        for_push: if made { ForPush::Made(f!("s_for_push")) } else { ForPush::Arg(f!("s_for_push")) },
        for_swap: f!("s_for_swap"),
    }
}

pub fn step<T: Elem>(f: &Funcs<T>, slots: &mut Vec<Option<List<T>>>, op: &Op) -> String
where
    T::Transformed: PartialEq,
{
    let h = |slots: &Vec<Option<List<T>>>, i: usize| -> List<T> { slots[i].as_ref().expect("bound").clone() };
    match op {
        Op::New(d) => {
            let l = if d % 2 == 0 { f.new.call() } else { f.new_method.call() };
            slots[*d] = Some(l);
            "u".into()
        }
        Op::FromVec(d, xs) => {
            // a literal of two or three elements when there are that many, the rest is pushed
            let (l, rest): (List<T>, &[u64]) = match (&f.lit, xs.len()) {
                (_, 0) | (_, 1) => (f.new.call(), &xs[..]),
                (Lit::Arg(l2, _), 2) => (l2.call(T::make(xs[0]), T::make(xs[1])), &xs[2..]),
                (Lit::Arg(_, l3), _) => (l3.call(T::make(xs[0]), T::make(xs[1]), T::make(xs[2])), &xs[3..]),
                (Lit::Made(l2, _), 2) => (l2.call(), &xs[2..]),
                (Lit::Made(_, l3), _) => (l3.call(), &xs[3..]),
            };
            for x in rest {
                match &f.push {
                    WithElem::Arg(p) => p.call(l.clone(), T::make(*x)),
                    WithElem::Made(p) => p.call(l.clone()),
                }
            }
            slots[*d] = Some(l);
            "u".into()
        }
        Op::CloneH(d, s) => {
            let l = f.ident.call(h(slots, *s));
            slots[*d] = Some(l);
            "u".into()
        }
        Op::DropH(i) => {
            let l = slots[*i].take().expect("bound");
            f.drop.call(l);
            "u".into()
        }
        Op::Push(i, v) => {
            match &f.push {
                WithElem::Arg(p) => p.call(h(slots, *i), T::make(*v)),
                WithElem::Made(p) => p.call(h(slots, *i)),
            }
            "u".into()
        }
        Op::Get(i, k) => show_opt(f.get.call(h(slots, *i), *k).map(|x| x.val())),
        Op::Len(i) => format!("n{}", f.len.call(h(slots, *i))),
        Op::IsEmpty(i) => format!("b{}", f.is_empty.call(h(slots, *i)) as u8),
        Op::Capacity(i) => format!("n{}", f.capacity.call(h(slots, *i))),
        Op::Swap(i, a, b) => {
            f.swap.call(h(slots, *i), *a, *b);
            "u".into()
        }
        Op::Concat(d, a, b) => {
            let l = if (a + b + d) % 2 == 0 {
                f.concat.call(h(slots, *a), h(slots, *b))
            } else {
                f.plus.call(h(slots, *a), h(slots, *b))
            };
            slots[*d] = Some(l);
            "u".into()
        }
        Op::Contains(i, v) => {
            let r = match &f.contains {
                WithElem::Arg(p) => p.call(h(slots, *i), T::make(*v)),
                WithElem::Made(p) => p.call(h(slots, *i)),
            };
            format!("b{}", r as u8)
        }
        Op::Index(i, v) => {
            let r = match &f.index {
                WithElem::Arg(p) => p.call(h(slots, *i), T::make(*v)),
                WithElem::Made(p) => p.call(h(slots, *i)),
            };
            show_opt(r)
        }
        Op::Eq(a, b) => {
            let r = if (a + b) % 2 == 0 {
                f.eq.call(h(slots, *a), h(slots, *b))
            } else {
                !f.ne.call(h(slots, *a), h(slots, *b))
            };
            format!("b{}", r as u8)
        }
        Op::ToVec(i) | Op::Iter(i) => {
            let out = f.iter.call(h(slots, *i));
            let v: Vec<u64> = out.to_vec().iter().map(|x| x.val()).collect();
            format!("v{}", nats(&v))
        }
        // Rust-side iterators are never issued by a script (`Case::valid`, `Block::case`)
        Op::ItNew(..) | Op::ItNext(_) | Op::ItDrop(_) => "unsupported".into(),
        Op::Join(i, k) => {
            let j = f.join.as_ref().expect("join is for List[String]");
            let s = j.call(h(slots, *i), super::SEPS[*k].into());
            let s: &str = s.as_ref();
            super::show_str(s)
        }
        Op::ForDo(i, k, body) => {
            let l = h(slots, *i);
            let out = match body {
                Body::Rebind(g) => f.for_rebind.call(l, h(slots, *g), *k),
                Body::RebindConcat(g) => f.for_concat.call(l, h(slots, *g), *k),
                Body::RebindNew => f.for_new.call(l, *k),
                Body::RebindField(g) => f.for_field.call(l, h(slots, *g), *k),
                Body::Push(g, v) => match &f.for_push {
                    ForPush::Arg(p) => p.call(l, h(slots, *g), *k, T::make(*v)),
                    ForPush::Made(p) => p.call(l, h(slots, *g), *k),
                },
                Body::Swap(g, a, b) => f.for_swap.call(l, h(slots, *g), *k, *a, *b),
            };
            let v: Vec<u64> = out.to_vec().iter().map(|x| x.val()).collect();
            format!("v{}", nats(&v))
        }
    }
}

/// `c15 zstprobe`: where exactly the zero-sized token balance breaks (diagnostic
/// behind the known finding C15-zst-for-tokens)
pub fn zst_probe() {
    use std::sync::atomic::Ordering;
    let rt = Runtime::from_lib(library! {
        #[clone] type Tk0 = Val<Tk0>;
        fn mk0() -> Val<Tk0> { Val(Tk0::new()) }
    })
    .expect("runtime");
    let src = "
fn dup(l: List[Tk0]) { let a = mk0(); l.push(a); l.push(a); }
fn forcount(l: List[Tk0]) -> u64 { let n = 0; for x in l { n = n + 1; } n }
fn forpush(l: List[Tk0], out: List[Tk0]) { for x in l { out.push(x); } }
fn getdrop(l: List[Tk0]) { let x = l.get(0); }
fn getmatch(l: List[Tk0], out: List[Tk0]) { match l.get(0) { Some(x) => { out.push(x); } None => {} } }
fn letcopy(out: List[Tk0]) { let a = mk0(); let b = a; out.push(b); }
";
    let mut pkg = FileTree::test_file("zst.roto", src, 0).compile(&rt).map_err(|e| format!("{e}")).expect("compile");
    let live = || super::LIVE0.load(Ordering::SeqCst);
    let l: List<Val<Tk0>> = List::new();
    let f: F<fn(List<Val<Tk0>>)> = pkg.get_function("dup").unwrap();
    f.call(l.clone());
    println!("dup: len {} live {}", l.len(), live());
    let f: F<fn(List<Val<Tk0>>) -> u64> = pkg.get_function("forcount").unwrap();
    let n = f.call(l.clone());
    println!("forcount: n {n} len {} live {}", l.len(), live());
    let out: List<Val<Tk0>> = List::new();
    let f: F<fn(List<Val<Tk0>>, List<Val<Tk0>>)> = pkg.get_function("forpush").unwrap();
    f.call(l.clone(), out.clone());
    println!("forpush: len {} out {} live {}", l.len(), out.len(), live());
    let f: F<fn(List<Val<Tk0>>)> = pkg.get_function("getdrop").unwrap();
    f.call(l.clone());
    println!("getdrop: len {} out {} live {}", l.len(), out.len(), live());
    let f: F<fn(List<Val<Tk0>>, List<Val<Tk0>>)> = pkg.get_function("getmatch").unwrap();
    f.call(l.clone(), out.clone());
    println!("getmatch: len {} out {} live {}", l.len(), out.len(), live());
    let f: F<fn(List<Val<Tk0>>)> = pkg.get_function("letcopy").unwrap();
    f.call(out.clone());
    println!("letcopy: len {} out {} live {}", l.len(), out.len(), live());
}

/// nested lists from scripts: a pushed list stays shared, `==` / `contains` go
/// through `ErasedList::eq` one level down
pub fn nested_probe() -> Vec<(&'static str, bool, String)> {
    let rt = Runtime::new();
    let src = "
fn push_then_grow(o: List[List[u64]], i: List[u64]) -> bool {
    o.push(i);
    i.push(9);
    match o.get(o.len() - 1) { Some(x) => x.contains(9), None => false }
}
fn eqn(a: List[List[u64]], b: List[List[u64]]) -> bool { a == b }
fn has(a: List[List[u64]], b: List[u64]) -> bool { a.contains(b) }
fn lit() -> List[List[u64]] { let x = [1, 2]; let o = [x, x, [3]]; x.push(7); o }
fn total(o: List[List[u64]]) -> u64 { let n = 0; for l in o { for v in l { n = n + v; } } n }
fn mkf(x: f64, y: f64) -> List[List[f64]] { [[x], [y, x]] }
fn eqf(a: List[List[f64]], b: List[List[f64]]) -> bool { a == b }
fn hasf(a: List[List[f64]], x: f64) -> bool { a.contains([x]) }
fn idxf(a: List[List[f64]], y: f64, x: f64) -> u64? { a.index([y, x]) }
fn stale(v: u64) -> List[u64?] { let x = Some(v); x = None; [x] }
fn fresh() -> List[u64?] { let n: u64? = None; [n] }
fn opt_eq(v: u64) -> bool { stale(v) == fresh() }
fn opt_eq_rev(v: u64) -> bool { fresh() == stale(v) }
fn opt_ne(v: u64) -> bool { stale(v) != fresh() }
fn opt_has(v: u64) -> bool { let n: u64? = None; stale(v).contains(n) }
fn opt_idx(v: u64) -> u64? { let n: u64? = None; stale(v).index(n) }
fn opt_some(v: u64) -> bool { let a = [Some(v), None]; let b = [Some(v), None]; a == b && a.contains(Some(v)) }
";
    let mut pkg = match FileTree::test_file("nested.roto", src, 0).compile(&rt) {
        Ok(p) => p,
        Err(e) => return vec![("script-compiles", false, format!("{e}"))],
    };
    let mut out = vec![];
    let vv = |o: &List<List<u64>>| -> Vec<Vec<u64>> { o.to_vec().iter().map(|l| l.to_vec()).collect() };
    super::OP_STARTED_MS.store(super::now_ms(), std::sync::atomic::Ordering::SeqCst);
    let f: F<fn(List<List<u64>>, List<u64>) -> bool> = pkg.get_function("push_then_grow").unwrap();
    let o = List::<List<u64>>::new();
    let i = List::<u64>::from(vec![1]);
    let r = f.call(o.clone(), i.clone());
    out.push(("script-push-shares", r && vv(&o) == vec![vec![1, 9]] && i.to_vec() == vec![1, 9], format!("{r} {:?}", vv(&o))));
    let eqn: F<fn(List<List<u64>>, List<List<u64>>) -> bool> = pkg.get_function("eqn").unwrap();
    let o2 = List::<List<u64>>::from(vec![List::from(vec![1, 9])]);
    out.push(("script-eq-by-contents", eqn.call(o.clone(), o2.clone()) && eqn.call(o2.clone(), o.clone()) && eqn.call(o.clone(), o.clone()), "".into()));
    o2.get(0).unwrap().push(2);
    out.push(("script-eq-after-inner-push", !eqn.call(o.clone(), o2.clone()), "".into()));
    let has: F<fn(List<List<u64>>, List<u64>) -> bool> = pkg.get_function("has").unwrap();
    out.push(("script-contains-by-contents", has.call(o.clone(), List::from(vec![1, 9])) && !has.call(o.clone(), List::from(vec![1])), "".into()));
    let lit: F<fn() -> List<List<u64>>> = pkg.get_function("lit").unwrap();
    let l = lit.call();
    out.push(("script-literal-shares", vv(&l) == vec![vec![1, 2, 7], vec![1, 2, 7], vec![3]], format!("{:?}", vv(&l))));
    let total: F<fn(List<List<u64>>) -> u64> = pkg.get_function("total").unwrap();
    out.push(("script-nested-for", total.call(l.clone()) == 23, format!("{}", total.call(l.clone()))));
    // inner lists of floats built by the script (no clone function in their vtable): the
    // outer `==` / `contains` / `index` compare them through `ErasedList::eq`, which must use
    // the element `==` (0.0 == -0.0, NaN != NaN) exactly as `Vec<Vec<f64>>` does
    let mkf: F<fn(f64, f64) -> List<List<f64>>> = pkg.get_function("mkf").unwrap();
    let eqf: F<fn(List<List<f64>>, List<List<f64>>) -> bool> = pkg.get_function("eqf").unwrap();
    let hasf: F<fn(List<List<f64>>, f64) -> bool> = pkg.get_function("hasf").unwrap();
    let idxf: F<fn(List<List<f64>>, f64, f64) -> Option<u64>> = pkg.get_function("idxf").unwrap();
    let vf = |x: f64, y: f64| -> Vec<Vec<f64>> { vec![vec![x], vec![y, x]] };
    for (name, (x1, y1), (x2, y2)) in [
        ("script-nested-f64-eq-zeros", (0.0f64, 1.5f64), (-0.0f64, 1.5f64)),
        ("script-nested-f64-eq-nan", (f64::NAN, 1.5), (f64::NAN, 1.5)),
        ("script-nested-f64-eq-differ", (1.0, 1.5), (1.0, 2.5)),
    ] {
        let got = eqf.call(mkf.call(x1, y1), mkf.call(x2, y2));
        let want = vf(x1, y1) == vf(x2, y2);
        out.push((name, got == want, format!("{got} vs Vec<Vec<f64>> {want}")));
    }
    for (name, (x, y), item) in [
        ("script-nested-f64-contains-zero", (0.0f64, 1.5f64), -0.0f64),
        ("script-nested-f64-contains-nan", (f64::NAN, 1.5), f64::NAN),
        ("script-nested-f64-contains-miss", (1.0, 1.5), 2.0),
    ] {
        let got = hasf.call(mkf.call(x, y), item);
        let want = vf(x, y).contains(&vec![item]);
        out.push((name, got == want, format!("{got} vs Vec<Vec<f64>> {want}")));
    }
    // a Copy element whose representation has bytes that are not part of its value: an
    // `u64?` that was `Some(v)` and is `None` now keeps `v` in its payload bytes; it is
    // equal to a fresh `None` (as `Vec<Option<u64>>` says), its bytes are not
    {
        let want = vec![None::<u64>] == vec![None::<u64>];
        for name in ["opt_eq", "opt_eq_rev"] {
            let f: F<fn(u64) -> bool> = pkg.get_function(name).unwrap();
            let got = f.call(5) && f.call(0xFFFF_FFFF_FFFF);
            out.push((if name == "opt_eq" { "script-option-stale-payload-eq" } else { "script-option-stale-payload-eq-rev" }, got == want, format!("{got} vs Vec<Option<u64>> {want}")));
        }
        let f: F<fn(u64) -> bool> = pkg.get_function("opt_ne").unwrap();
        out.push(("script-option-stale-payload-ne", !f.call(5), "!= of equal lists".into()));
        let f: F<fn(u64) -> bool> = pkg.get_function("opt_has").unwrap();
        out.push(("script-option-stale-payload-contains", f.call(7) == vec![None::<u64>].contains(&None), "contains(None)".into()));
        let f: F<fn(u64) -> Option<u64>> = pkg.get_function("opt_idx").unwrap();
        out.push(("script-option-stale-payload-index", f.call(7) == Some(0), format!("{:?}", f.call(7))));
        let f: F<fn(u64) -> bool> = pkg.get_function("opt_some").unwrap();
        out.push(("script-option-some-none", f.call(3), "[Some(v), None] == [Some(v), None]".into()));
    }
    {
        let got = idxf.call(mkf.call(-0.0, 1.5), 1.5, 0.0);
        let want = vf(-0.0, 1.5).iter().position(|v| *v == vec![1.5, 0.0]).map(|i| i as u64);
        out.push(("script-nested-f64-index-zero", got == want, format!("{got:?} vs Vec<Vec<f64>> {want:?}")));
    }
    out
}
