//! Nested lists with *mutable shared inner lists*: random histories over three
//! `List<List<u64>>` variables and three `List<u64>` variables, issued from
//! Rust and from compiled scripts, compared after every operation with nested
//! `Rc<RefCell<Vec<…>>>` (the property). Outside the flat Lean model, so this
//! part of the tie is implementation vs specification only.
use super::{CASE_INDEX, OP_INDEX, OP_STARTED_MS, now_ms, start_watchdog};
use roto::{FileTree, List, NoCtx, Runtime, TypedFunc};
use rotov_harness::driver::Driver;
use rotov_harness::{Prng, Report};
use serde_json::json;
use std::cell::RefCell;
use std::io::Write;
use std::rc::Rc;
use std::sync::atomic::Ordering;

type Inner = List<u64>;
type Outer = List<List<u64>>;
type RInner = Rc<RefCell<Vec<u64>>>;
type ROuter = Rc<RefCell<Vec<RInner>>>;
type F<A> = TypedFunc<NoCtx, A>;
const N: usize = 3;

#[derive(Clone, Debug, PartialEq)]
pub enum NOp {
    NewO(usize),
    NewI(usize, Vec<u64>),
    CloneO(usize, usize),
    CloneI(usize, usize),
    DropO(usize),
    DropI(usize),
    PushI(usize, u64),
    /// outer.push(inner.clone()): the element aliases the variable
    PushO(usize, usize),
    /// inner[d] = outer.get(k) when it is Some
    GetO(usize, usize, u64),
    ContainsO(usize, usize),
    IndexO(usize, usize),
    EqO(usize, usize),
    ConcatO(usize, usize, usize),
    SwapO(usize, u64, u64),
    EqI(usize, usize),
}

fn nats(xs: &[u64]) -> String {
    xs.iter().map(|x| x.to_string()).collect::<Vec<_>>().join(",")
}

impl NOp {
    fn kind(&self) -> &'static str {
        match self {
            NOp::NewO(_) => "new-outer",
            NOp::NewI(..) => "new-inner",
            NOp::CloneO(..) => "clone-outer",
            NOp::CloneI(..) => "clone-inner",
            NOp::DropO(_) => "drop-outer",
            NOp::DropI(_) => "drop-inner",
            NOp::PushI(..) => "push-inner",
            NOp::PushO(..) => "push-outer",
            NOp::GetO(..) => "get-outer",
            NOp::ContainsO(..) => "contains-outer",
            NOp::IndexO(..) => "index-outer",
            NOp::EqO(..) => "eq-outer",
            NOp::ConcatO(..) => "concat-outer",
            NOp::SwapO(..) => "swap-outer",
            NOp::EqI(..) => "eq-inner",
        }
    }
    fn text(&self, script: bool) -> String {
        let b = match self {
            NOp::NewO(d) => format!("on:{d}"),
            NOp::NewI(d, xs) => format!("in:{d}:{}", nats(xs)),
            NOp::CloneO(d, s) => format!("oc:{d}:{s}"),
            NOp::CloneI(d, s) => format!("ic:{d}:{s}"),
            NOp::DropO(h) => format!("od:{h}"),
            NOp::DropI(h) => format!("id:{h}"),
            NOp::PushI(h, v) => format!("ip:{h}:{v}"),
            NOp::PushO(o, i) => format!("op:{o}:{i}"),
            NOp::GetO(d, o, k) => format!("og:{d}:{o}:{k}"),
            NOp::ContainsO(o, i) => format!("o?:{o}:{i}"),
            NOp::IndexO(o, i) => format!("oi:{o}:{i}"),
            NOp::EqO(a, b) => format!("o=:{a}:{b}"),
            NOp::ConcatO(d, a, b) => format!("o+:{d}:{a}:{b}"),
            NOp::SwapO(o, i, j) => format!("os:{o}:{i}:{j}"),
            NOp::EqI(a, b) => format!("i=:{a}:{b}"),
        };
        if script { format!("{b}@s") } else { b }
    }
    fn parse(tok: &str) -> Option<(NOp, bool)> {
        let (body, script) = match tok.strip_suffix("@s") {
            Some(b) => (b, true),
            None => (tok, false),
        };
        let p: Vec<&str> = body.split(':').collect();
        let h = |i: usize| -> Option<usize> { p.get(i)?.parse().ok().filter(|x| *x < N) };
        let n = |i: usize| -> Option<u64> { p.get(i)?.parse().ok() };
        let op = match (p[0], p.len()) {
            ("on", 2) => NOp::NewO(h(1)?),
            ("in", 2) => NOp::NewI(h(1)?, vec![]),
            ("in", 3) => NOp::NewI(
                h(1)?,
                if p[2].is_empty() { vec![] } else { p[2].split(',').map(|x| x.parse().ok()).collect::<Option<Vec<u64>>>()? },
            ),
            ("oc", 3) => NOp::CloneO(h(1)?, h(2)?),
            ("ic", 3) => NOp::CloneI(h(1)?, h(2)?),
            ("od", 2) => NOp::DropO(h(1)?),
            ("id", 2) => NOp::DropI(h(1)?),
            ("ip", 3) => NOp::PushI(h(1)?, n(2)?),
            ("op", 3) => NOp::PushO(h(1)?, h(2)?),
            ("og", 4) => NOp::GetO(h(1)?, h(2)?, n(3)?),
            ("o?", 3) => NOp::ContainsO(h(1)?, h(2)?),
            ("oi", 3) => NOp::IndexO(h(1)?, h(2)?),
            ("o=", 3) => NOp::EqO(h(1)?, h(2)?),
            ("o+", 4) => NOp::ConcatO(h(1)?, h(2)?, h(3)?),
            ("os", 4) => NOp::SwapO(h(1)?, n(2)?, n(3)?),
            ("i=", 3) => NOp::EqI(h(1)?, h(2)?),
            _ => return None,
        };
        Some((op, script))
    }
}

pub fn op_text(o: &NOp, script: bool) -> String {
    o.text(script)
}

pub fn parse_case(s: &str) -> Option<Vec<(NOp, bool)>> {
    s.split_whitespace().map(NOp::parse).collect()
}

fn case_text(ops: &[(NOp, bool)]) -> String {
    ops.iter().map(|(o, s)| o.text(*s)).collect::<Vec<_>>().join(" ")
}

struct Funcs {
    push_i: F<fn(Inner, u64)>,
    push_o: F<fn(Outer, Inner)>,
    get_o: F<fn(Outer, u64) -> Option<Inner>>,
    contains_o: F<fn(Outer, Inner) -> bool>,
    index_o: F<fn(Outer, Inner) -> Option<u64>>,
    eq_o: F<fn(Outer, Outer) -> bool>,
    eq_i: F<fn(Inner, Inner) -> bool>,
    concat_o: F<fn(Outer, Outer) -> Outer>,
    swap_o: F<fn(Outer, u64, u64)>,
    new_o: F<fn() -> Outer>,
}

fn compile() -> Funcs {
    let rt = Runtime::new();
    let src = "
fn push_i(l: List[u64], v: u64) { l.push(v); }
fn push_o(o: List[List[u64]], i: List[u64]) { o.push(i); }
fn get_o(o: List[List[u64]], k: u64) -> List[u64]? { o.get(k) }
fn contains_o(o: List[List[u64]], i: List[u64]) -> bool { o.contains(i) }
fn index_o(o: List[List[u64]], i: List[u64]) -> u64? { o.index(i) }
fn eq_o(a: List[List[u64]], b: List[List[u64]]) -> bool { a == b }
fn eq_i(a: List[u64], b: List[u64]) -> bool { a == b }
fn concat_o(a: List[List[u64]], b: List[List[u64]]) -> List[List[u64]] { a + b }
fn swap_o(o: List[List[u64]], i: u64, j: u64) { o.swap(i, j); }
fn new_o() -> List[List[u64]] { [] }
";
    let mut pkg = FileTree::test_file("nestedrand.roto", src, 0)
        .compile(&rt)
        .unwrap_or_else(|e| panic!("nested script does not compile:\n{e}"));
    macro_rules! f {
        ($n:expr) => {
            pkg.get_function($n).unwrap_or_else(|e| panic!("{}: {e}", $n))
        };
    }
    Funcs {
        push_i: f!("push_i"),
        push_o: f!("push_o"),
        get_o: f!("get_o"),
        contains_o: f!("contains_o"),
        index_o: f!("index_o"),
        eq_o: f!("eq_o"),
        eq_i: f!("eq_i"),
        concat_o: f!("concat_o"),
        swap_o: f!("swap_o"),
        new_o: f!("new_o"),
    }
}

fn show_opt(o: Option<u64>) -> String {
    match o {
        Some(v) => format!("o{v}"),
        None => "o-".into(),
    }
}

struct Impl {
    o: Vec<Option<Outer>>,
    i: Vec<Option<Inner>>,
}
struct Reference {
    o: Vec<Option<ROuter>>,
    i: Vec<Option<RInner>>,
}

fn req(a: &RInner, b: &RInner) -> bool {
    *a.borrow() == *b.borrow()
}

impl Reference {
    fn step(&mut self, op: &NOp) -> String {
        match op {
            NOp::NewO(d) => { self.o[*d] = Some(Rc::new(RefCell::new(vec![]))); "u".into() }
            NOp::NewI(d, xs) => { self.i[*d] = Some(Rc::new(RefCell::new(xs.clone()))); "u".into() }
            NOp::CloneO(d, s) => { self.o[*d] = self.o[*s].clone(); "u".into() }
            NOp::CloneI(d, s) => { self.i[*d] = self.i[*s].clone(); "u".into() }
            NOp::DropO(h) => { self.o[*h] = None; "u".into() }
            NOp::DropI(h) => { self.i[*h] = None; "u".into() }
            NOp::PushI(h, v) => { self.i[*h].as_ref().unwrap().borrow_mut().push(*v); "u".into() }
            NOp::PushO(o, i) => {
                let x = self.i[*i].clone().unwrap();
                self.o[*o].as_ref().unwrap().borrow_mut().push(x);
                "u".into()
            }
            NOp::GetO(d, o, k) => {
                let x = self.o[*o].as_ref().unwrap().borrow().get(*k as usize).cloned();
                match x {
                    Some(x) => { self.i[*d] = Some(x); "b1".into() }
                    None => "b0".into(),
                }
            }
            NOp::ContainsO(o, i) => {
                let x = self.i[*i].clone().unwrap();
                format!("b{}", self.o[*o].as_ref().unwrap().borrow().iter().any(|e| req(e, &x)) as u8)
            }
            NOp::IndexO(o, i) => {
                let x = self.i[*i].clone().unwrap();
                show_opt(self.o[*o].as_ref().unwrap().borrow().iter().position(|e| req(e, &x)).map(|p| p as u64))
            }
            NOp::EqO(a, b) => {
                let (x, y) = (self.o[*a].clone().unwrap(), self.o[*b].clone().unwrap());
                let (x, y) = (x.borrow(), y.borrow());
                format!("b{}", (x.len() == y.len() && x.iter().zip(y.iter()).all(|(p, q)| req(p, q))) as u8)
            }
            NOp::EqI(a, b) => format!("b{}", req(self.i[*a].as_ref().unwrap(), self.i[*b].as_ref().unwrap()) as u8),
            NOp::ConcatO(d, a, b) => {
                let mut v = self.o[*a].as_ref().unwrap().borrow().clone();
                v.extend(self.o[*b].as_ref().unwrap().borrow().iter().cloned());
                self.o[*d] = Some(Rc::new(RefCell::new(v)));
                "u".into()
            }
            NOp::SwapO(o, i, j) => {
                let l = self.o[*o].clone().unwrap();
                let mut v = l.borrow_mut();
                let (i, j) = (*i as usize, *j as usize);
                if i < v.len() && j < v.len() { v.swap(i, j); }
                "u".into()
            }
        }
    }
    fn observe(&self) -> String {
        let o: Vec<String> = self.o.iter().map(|s| match s {
            None => "-".into(),
            Some(l) => format!("[{}]", l.borrow().iter().map(|e| format!("({})", nats(&e.borrow()))).collect::<Vec<_>>().join("")),
        }).collect();
        let i: Vec<String> = self.i.iter().map(|s| match s {
            None => "-".into(),
            Some(l) => format!("({})", nats(&l.borrow())),
        }).collect();
        format!("{} | {}", o.join(" "), i.join(" "))
    }
}

impl Impl {
    fn step(&mut self, f: &Funcs, op: &NOp, script: bool) -> String {
        let oh = |s: &Impl, h: usize| s.o[h].clone().expect("bound outer");
        let ih = |s: &Impl, h: usize| s.i[h].clone().expect("bound inner");
        match op {
            NOp::NewO(d) => { self.o[*d] = Some(if script { f.new_o.call() } else { List::new() }); "u".into() }
            NOp::NewI(d, xs) => { self.i[*d] = Some(List::from(xs.clone())); "u".into() }
            NOp::CloneO(d, s) => { self.o[*d] = self.o[*s].clone(); "u".into() }
            NOp::CloneI(d, s) => { self.i[*d] = self.i[*s].clone(); "u".into() }
            NOp::DropO(h) => { self.o[*h] = None; "u".into() }
            NOp::DropI(h) => { self.i[*h] = None; "u".into() }
            NOp::PushI(h, v) => {
                if script { f.push_i.call(ih(self, *h), *v) } else { ih(self, *h).push(*v) }
                "u".into()
            }
            NOp::PushO(o, i) => {
                if script { f.push_o.call(oh(self, *o), ih(self, *i)) } else { oh(self, *o).push(ih(self, *i)) }
                "u".into()
            }
            NOp::GetO(d, o, k) => {
                let x = if script { f.get_o.call(oh(self, *o), *k) } else { usize::try_from(*k).ok().and_then(|k| oh(self, *o).get(k)) };
                match x {
                    Some(x) => { self.i[*d] = Some(x); "b1".into() }
                    None => "b0".into(),
                }
            }
            NOp::ContainsO(o, i) => {
                let r = if script { f.contains_o.call(oh(self, *o), ih(self, *i)) } else { oh(self, *o).contains(&ih(self, *i)) };
                format!("b{}", r as u8)
            }
            NOp::IndexO(o, i) => {
                let r = if script { f.index_o.call(oh(self, *o), ih(self, *i)) } else { oh(self, *o).index(&ih(self, *i)).map(|p| p as u64) };
                show_opt(r)
            }
            NOp::EqO(a, b) => {
                let r = if script { f.eq_o.call(oh(self, *a), oh(self, *b)) } else { oh(self, *a) == oh(self, *b) };
                format!("b{}", r as u8)
            }
            NOp::EqI(a, b) => {
                let r = if script { f.eq_i.call(ih(self, *a), ih(self, *b)) } else { ih(self, *a) == ih(self, *b) };
                format!("b{}", r as u8)
            }
            NOp::ConcatO(d, a, b) => {
                let l = if script { f.concat_o.call(oh(self, *a), oh(self, *b)) } else { oh(self, *a).concat(&oh(self, *b)) };
                self.o[*d] = Some(l);
                "u".into()
            }
            NOp::SwapO(o, i, j) => {
                if script { f.swap_o.call(oh(self, *o), *i, *j) } else { oh(self, *o).swap(*i as usize, *j as usize) }
                "u".into()
            }
        }
    }
    fn observe(&self) -> String {
        let o: Vec<String> = self.o.iter().map(|s| match s {
            None => "-".into(),
            Some(l) => format!("[{}]", l.to_vec().iter().map(|e| format!("({})", nats(&e.to_vec()))).collect::<Vec<_>>().join("")),
        }).collect();
        let i: Vec<String> = self.i.iter().map(|s| match s {
            None => "-".into(),
            Some(l) => format!("({})", nats(&l.to_vec())),
        }).collect();
        format!("{} | {}", o.join(" "), i.join(" "))
    }
}

pub fn random_case(seed: u64, idx: u64) -> Vec<(NOp, bool)> {
    let mut p = Prng::for_case(seed ^ 0x6e65_7374, idx);
    let n = 1 + p.below(120) as usize;
    let via_mode = idx % 3;
    let (mut bo, mut bi) = ([false; N], [false; N]);
    let mut ops = vec![];
    while ops.len() < n {
        let script = match via_mode { 0 => false, 1 => true, _ => p.chance(1, 2) };
        let os: Vec<usize> = (0..N).filter(|h| bo[*h]).collect();
        let is: Vec<usize> = (0..N).filter(|h| bi[*h]).collect();
        let d = p.below(N as u64) as usize;
        if os.is_empty() || (p.chance(1, 30)) {
            bo[d] = true;
            ops.push((NOp::NewO(d), script));
            continue;
        }
        if is.is_empty() || p.chance(1, 12) {
            let k = p.below(4);
            let xs = (0..k).map(|_| p.below(3)).collect();
            bi[d] = true;
            ops.push((NOp::NewI(d, xs), false));
            continue;
        }
        let (o, o2, i, i2) = (*p.pick(&os), *p.pick(&os), *p.pick(&is), *p.pick(&is));
        let op = match p.below(100) {
            0..=17 => NOp::PushI(i, p.below(3)),
            18..=35 => NOp::PushO(o, i),
            36..=45 => { bi[d] = true; NOp::GetO(d, o, p.below(5)) }
            46..=55 => NOp::ContainsO(o, i),
            56..=63 => NOp::IndexO(o, i),
            64..=72 => NOp::EqO(o, o2),
            73..=77 => NOp::EqI(i, i2),
            78..=83 => { bo[d] = true; NOp::ConcatO(d, o, o2) }
            84..=88 => NOp::SwapO(o, p.below(4), p.below(4)),
            89..=91 => { if d == o { NOp::EqO(o, o) } else { bo[d] = true; NOp::CloneO(d, o) } }
            92..=94 => { if d == i { NOp::EqI(i, i) } else { bi[d] = true; NOp::CloneI(d, i) } }
            95..=96 => { bo[o] = false; NOp::DropO(o) }
            _ => { bi[i] = false; NOp::DropI(i) }
        };
        // a get that misses leaves its destination unbound: only mark it bound when it was
        if let NOp::GetO(dd, _, _) = &op {
            // conservatively keep `bi` as it was unless the variable was already bound
            if !is.contains(dd) { bi[*dd] = false; }
        }
        ops.push((op, script));
    }
    ops
}

/// (len, capacity) of the inner variables, then of the outer variables
type Caps = Vec<Option<(u64, u64)>>;

fn caps_of(imp: &Impl) -> Caps {
    let mut v: Caps = imp.i.iter().map(|s| s.as_ref().map(|l| (l.len() as u64, l.capacity() as u64))).collect();
    v.extend(imp.o.iter().map(|s| s.as_ref().map(|l| (l.len() as u64, l.capacity() as u64))));
    v
}

/// run one history; Some((step, what)) when the implementation leaves the specification
fn run_case(f: &Funcs, ops: &[(NOp, bool)]) -> Option<(usize, String)> {
    run_case_caps(f, ops).err()
}

fn run_case_caps(f: &Funcs, ops: &[(NOp, bool)]) -> Result<Vec<Caps>, (usize, String)> {
    let mut imp = Impl { o: vec![None; N], i: vec![None; N] };
    let mut rf = Reference { o: vec![None; N], i: vec![None; N] };
    let mut caps = vec![];
    for (k, (op, script)) in ops.iter().enumerate() {
        OP_INDEX.store(k as u64, Ordering::SeqCst);
        OP_STARTED_MS.store(now_ms(), Ordering::SeqCst);
        let got = imp.step(f, op, *script);
        let gobs = imp.observe();
        OP_STARTED_MS.store(0, Ordering::SeqCst);
        let want = rf.step(op);
        let wobs = rf.observe();
        if got != want {
            return Err((k, format!("result {got}, nested shared vectors give {want}")));
        }
        if gobs != wobs {
            return Err((k, format!("contents {gobs}, nested shared vectors hold {wobs}")));
        }
        caps.push(caps_of(&imp));
    }
    Ok(caps)
}

// ---------------------------------------------------------------- nested histories on the flat Lean model
//
// An element of a `List<List<u64>>` is an `ErasedList` handle, which is what a
// handle variable of the flat model is. A nested history is compiled into a flat
// one: inner variables are the model's variables 0..3, outer variables 3..6,
// variable 6 is a temporary, and every element of an outer list gets a fresh
// variable `k` (the outer list holds the numbers `k`):
//   outer.push(inner)        = c:k:inner  p:outer:k
//   inner' = outer.get(j)    = c:inner':k_j
//   outer.contains(&inner)   = the `==` of k_0, k_1, … with inner until one is true
//   a == b                   = same list, or lengths, or the `==` of the pairs until one is false
//   a.concat(&b)             = a new list receiving a clone of every element of a, then of b
//   dropping the last handle of an outer list drops every k it holds
// The model's state after every nested operation must show the implementation's
// lengths, capacities and nested contents.

struct Compiled {
    toks: Vec<String>,
    nslots: usize,
    /// per nested operation: expected contents of the 6 variables
    /// (inner: contents; outer: contents of contents) as the reference gives them
    expect: Vec<(Vec<Option<Vec<u64>>>, Vec<Option<Vec<Vec<u64>>>>, usize)>,
}

fn compile_flat(ops: &[(NOp, bool)]) -> Compiled {
    use std::collections::HashMap;
    const TMP: usize = 6;
    let mut rf = Reference { o: vec![None; N], i: vec![None; N] };
    let mut toks: Vec<String> = vec![];
    let mut next = TMP + 1;
    // outer allocation ↦ (its element variables, created by a script)
    let mut elems: HashMap<*const RefCell<Vec<RInner>>, (Vec<usize>, bool)> = HashMap::new();
    let mut expect = vec![];
    let ptr = |r: &ROuter| Rc::as_ptr(r);
    let holders = |rf: &Reference, r: &ROuter| rf.o.iter().filter(|s| s.as_ref().is_some_and(|x| Rc::ptr_eq(x, r))).count();
    for (op, script) in ops {
        let eqt = |by_script: bool, a: usize, b: usize| if by_script { format!("~:{a}:{b}") } else { format!("=:{a}:{b}") };
        // the outer list a variable is about to lose: its elements die with its last handle
        let mut dying: Option<Vec<usize>> = None;
        let mut lose = |rf: &Reference, d: usize, elems: &mut HashMap<*const RefCell<Vec<RInner>>, (Vec<usize>, bool)>, keep: Option<&ROuter>| {
            if let Some(old) = &rf.o[d] {
                let kept = keep.is_some_and(|k| Rc::ptr_eq(k, old));
                if !kept && holders(rf, old) == 1 {
                    dying = elems.remove(&ptr(old)).map(|e| e.0);
                }
            }
        };
        match op {
            NOp::NewO(d) => {
                lose(&rf, *d, &mut elems, None);
                toks.push(format!("n:{}", 3 + d));
            }
            NOp::NewI(d, xs) => toks.push(format!("f:{d}:{}", nats(xs))),
            NOp::CloneO(d, s) => {
                let src = rf.o[*s].clone();
                lose(&rf, *d, &mut elems, src.as_ref());
                toks.push(format!("c:{}:{}", 3 + d, 3 + s));
            }
            NOp::CloneI(d, s) => toks.push(format!("c:{d}:{s}")),
            NOp::DropO(h) => {
                lose(&rf, *h, &mut elems, None);
                toks.push(format!("d:{}", 3 + h));
            }
            NOp::DropI(h) => toks.push(format!("d:{h}")),
            NOp::PushI(h, v) => toks.push(format!("p:{h}:{v}")),
            NOp::PushO(o, i) => {
                let k = next;
                next += 1;
                toks.push(format!("c:{k}:{i}"));
                toks.push(format!("p:{}:{k}", 3 + o));
                elems.get_mut(&ptr(rf.o[*o].as_ref().unwrap())).unwrap().0.push(k);
            }
            NOp::GetO(d, o, idx) => {
                let e = &elems[&ptr(rf.o[*o].as_ref().unwrap())].0;
                if let Some(k) = usize::try_from(*idx).ok().and_then(|j| e.get(j)) {
                    toks.push(format!("c:{d}:{k}"));
                }
            }
            NOp::ContainsO(o, i) | NOp::IndexO(o, i) => {
                let ro = rf.o[*o].clone().unwrap();
                let (e, by_script) = elems[&ptr(&ro)].clone();
                let item = rf.i[*i].clone().unwrap();
                for (j, k) in e.iter().enumerate() {
                    toks.push(eqt(by_script, *k, *i));
                    if req(&ro.borrow()[j], &item) {
                        break;
                    }
                }
            }
            NOp::EqO(a, b) => {
                let (ra, rb) = (rf.o[*a].clone().unwrap(), rf.o[*b].clone().unwrap());
                if !Rc::ptr_eq(&ra, &rb) && ra.borrow().len() == rb.borrow().len() {
                    let (ea, by_script) = elems[&ptr(&ra)].clone();
                    let eb = elems[&ptr(&rb)].0.clone();
                    // from Rust the elements are compared by the typed `==`, from a script by the
                    // equality function of `self`'s element type
                    let kind = if *script { by_script } else { false };
                    for j in 0..ea.len() {
                        toks.push(eqt(kind, ea[j], eb[j]));
                        if !req(&ra.borrow()[j], &rb.borrow()[j]) {
                            break;
                        }
                    }
                }
            }
            NOp::EqI(a, b) => toks.push(eqt(*script, *a, *b)),
            NOp::ConcatO(d, a, b) => {
                let (ra, rb) = (rf.o[*a].clone().unwrap(), rf.o[*b].clone().unwrap());
                let mut ks = elems[&ptr(&ra)].0.clone();
                ks.extend(elems[&ptr(&rb)].0.iter().copied());
                toks.push(format!("n:{TMP}"));
                let mut fresh = vec![];
                for k in ks {
                    let k2 = next;
                    next += 1;
                    toks.push(format!("c:{k2}:{k}"));
                    toks.push(format!("p:{TMP}:{k2}"));
                    fresh.push(k2);
                }
                lose(&rf, *d, &mut elems, None);
                toks.push(format!("c:{}:{TMP}", 3 + d));
                toks.push(format!("d:{TMP}"));
                // registered below, once the reference has made the new list
                dying = dying.map(|mut v| { v.push(usize::MAX); v }).or(Some(vec![usize::MAX]));
                elems.insert(std::ptr::null(), (fresh, *script));
            }
            NOp::SwapO(o, i, j) => {
                toks.push(format!("s:{}:{i}:{j}", 3 + o));
                let ro = rf.o[*o].clone().unwrap();
                let e = &mut elems.get_mut(&ptr(&ro)).unwrap().0;
                let (i, j) = (*i as usize, *j as usize);
                if i < e.len() && j < e.len() {
                    e.swap(i, j);
                }
            }
        }
        // (swap above: indices beyond usize cannot occur on 64-bit)
        if let Some(ks) = dying.take() {
            for k in ks {
                if k != usize::MAX {
                    toks.push(format!("d:{k}"));
                }
            }
        }
        rf.step(op);
        match op {
            NOp::NewO(d) => {
                elems.insert(ptr(rf.o[*d].as_ref().unwrap()), (vec![], *script));
            }
            NOp::ConcatO(d, _, _) => {
                let (fresh, by) = elems.remove(&std::ptr::null()).unwrap();
                elems.insert(ptr(rf.o[*d].as_ref().unwrap()), (fresh, by));
            }
            _ => {}
        }
        toks.push("!".into());
        expect.push((
            rf.i.iter().map(|s| s.as_ref().map(|l| l.borrow().clone())).collect(),
            rf.o.iter().map(|s| s.as_ref().map(|l| l.borrow().iter().map(|e| e.borrow().clone()).collect())).collect(),
            // element handles that exist: those of the live outer lists
            elems.values().map(|e| e.0.len()).sum(),
        ));
    }
    Compiled { toks, nslots: next, expect }
}

/// compare the model's dumps with the reference contents and the implementation's capacities
fn check_model(drv: &mut Driver, ops: &[(NOp, bool)], caps: &[Caps]) -> Option<String> {
    let c = compile_flat(ops);
    let ans = drv.ask(&format!("c15 runm 8 {} {}", c.nslots, c.toks.join(" ")));
    if ans == "bad-op" {
        return Some("the driver rejected the compiled history".into());
    }
    let mut step = 0usize;
    for rec in ans.split('|') {
        if let Some(f) = rec.strip_prefix("F:") {
            return Some(format!("the model faults with {f} before nested step {step}"));
        }
        let Some(dump) = rec.strip_prefix('!') else { continue };
        let slots_s = dump.split(';').next().unwrap_or("");
        // variable ↦ (len, cap, elems)
        let vars: Vec<Option<(u64, u64, Vec<u64>)>> = slots_s
            .split('/')
            .map(|sl| {
                if sl == "-" {
                    return None;
                }
                let p: Vec<&str> = sl.split(':').collect();
                let xs = if p.get(2).is_none_or(|x| x.is_empty()) {
                    vec![]
                } else {
                    p[2].split(',').filter_map(|x| x.parse().ok()).collect()
                };
                Some((p[0].parse().unwrap_or(u64::MAX), p.get(1).and_then(|x| x.parse().ok()).unwrap_or(u64::MAX), xs))
            })
            .collect();
        let (ei, eo, nelems) = &c.expect[step];
        let bound_elems = vars.iter().skip(7).filter(|v| v.is_some()).count();
        if bound_elems != *nelems {
            return Some(format!(
                "nested step {step}: {bound_elems} element handles are alive in the model, the live outer lists hold {nelems}"
            ));
        }
        for h in 0..N {
            let m = vars.get(h).cloned().flatten();
            match (&ei[h], &m) {
                (None, None) => {}
                (Some(w), Some((len, cap, xs))) => {
                    if xs != w {
                        return Some(format!("nested step {step}: inner variable {h}: model holds {xs:?}, shared vectors hold {w:?}"));
                    }
                    if caps[step][h] != Some((*len, *cap)) {
                        return Some(format!("nested step {step}: inner variable {h}: model len/capacity {len}/{cap}, implementation {:?}", caps[step][h]));
                    }
                }
                _ => return Some(format!("nested step {step}: inner variable {h} bound in one, unbound in the other")),
            }
            let m = vars.get(3 + h).cloned().flatten();
            match (&eo[h], &m) {
                (None, None) => {}
                (Some(w), Some((len, cap, ks))) => {
                    let got: Option<Vec<Vec<u64>>> = ks
                        .iter()
                        .map(|k| vars.get(*k as usize).cloned().flatten().map(|v| v.2))
                        .collect();
                    if got.as_ref() != Some(w) {
                        return Some(format!("nested step {step}: outer variable {h}: model holds {got:?}, shared vectors hold {w:?}"));
                    }
                    if caps[step][3 + h] != Some((*len, *cap)) {
                        return Some(format!("nested step {step}: outer variable {h}: model len/capacity {len}/{cap}, implementation {:?}", caps[step][3 + h]));
                    }
                }
                _ => return Some(format!("nested step {step}: outer variable {h} bound in one, unbound in the other")),
            }
        }
        if vars.get(6).is_some_and(|t| t.is_some()) {
            return Some(format!("nested step {step}: the temporary is still bound in the model"));
        }
        step += 1;
    }
    if step != c.expect.len() {
        return Some(format!("the driver answered {step} dumps for {} nested steps", c.expect.len()));
    }
    None
}

fn valid(ops: &[(NOp, bool)]) -> bool {
    let (mut bo, mut bi) = ([false; N], [false; N]);
    for (op, _) in ops {
        let ok = match op {
            NOp::NewO(d) => { bo[*d] = true; true }
            NOp::NewI(d, _) => { bi[*d] = true; true }
            NOp::CloneO(d, s) => { let k = bo[*s]; bo[*d] = true; k }
            NOp::CloneI(d, s) => { let k = bi[*s]; bi[*d] = true; k }
            NOp::DropO(h) => { let k = bo[*h]; bo[*h] = false; k }
            NOp::DropI(h) => { let k = bi[*h]; bi[*h] = false; k }
            NOp::PushI(h, _) => bi[*h],
            NOp::PushO(o, i) | NOp::ContainsO(o, i) | NOp::IndexO(o, i) => bo[*o] && bi[*i],
            // whether the destination becomes bound depends on the run: later uses are checked at run time
            NOp::GetO(_, o, _) => bo[*o],
            NOp::EqO(a, b) => bo[*a] && bo[*b],
            NOp::EqI(a, b) => bi[*a] && bi[*b],
            NOp::ConcatO(d, a, b) => { let k = bo[*a] && bo[*b]; bo[*d] = true; k }
            NOp::SwapO(o, _, _) => bo[*o],
        };
        if !ok {
            return false;
        }
    }
    true
}

/// make the history executable: drop operations that would touch an unbound variable
fn executable(ops: Vec<(NOp, bool)>) -> Vec<(NOp, bool)> {
    // run it on the reference only, skipping what cannot run
    let mut rf = Reference { o: vec![None; N], i: vec![None; N] };
    let mut out = vec![];
    for (op, s) in ops {
        let ok = match &op {
            NOp::NewO(_) | NOp::NewI(..) => true,
            NOp::CloneO(_, s) | NOp::DropO(s) | NOp::SwapO(s, _, _) => rf.o[*s].is_some(),
            NOp::CloneI(_, s) | NOp::DropI(s) | NOp::PushI(s, _) => rf.i[*s].is_some(),
            NOp::PushO(o, i) | NOp::ContainsO(o, i) | NOp::IndexO(o, i) => rf.o[*o].is_some() && rf.i[*i].is_some(),
            NOp::GetO(_, o, _) => rf.o[*o].is_some(),
            NOp::EqO(a, b) | NOp::ConcatO(_, a, b) => rf.o[*a].is_some() && rf.o[*b].is_some(),
            NOp::EqI(a, b) => rf.i[*a].is_some() && rf.i[*b].is_some(),
        };
        if ok {
            rf.step(&op);
            out.push((op, s));
        }
    }
    out
}

/// `worker nestedrand <seed> <from> <n>` / `worker nestedone <ops>`
pub fn worker(seed: u64, from: u64, n: u64, one: Option<&str>) {
    start_watchdog();
    let mut rep = Report::default();
    let f = compile();
    let mut drv: Option<Driver> = None;
    let cases: Vec<(u64, Vec<(NOp, bool)>)> = match one {
        Some(t) => match parse_case(t) {
            Some(c) => vec![(0, executable(c))],
            None => {
                println!("BAD-CASE");
                std::process::exit(2);
            }
        },
        None => (from..from + n).map(|i| (i, executable(random_case(seed, i)))).collect(),
    };
    for (idx, ops) in cases {
        println!("START {idx}");
        let _ = std::io::stdout().flush();
        CASE_INDEX.store(idx, Ordering::SeqCst);
        rep.evaluations += 1;
        let _ = valid(&ops);
        for (op, s) in &ops {
            rep.class(format!("nestedrand/{}/{}", op.kind(), if *s { "s" } else { "r" }));
        }
        rep.hist("nested-length", match ops.len() { 0..=20 => "1-20", 21..=60 => "21-60", _ => "61-120" });
        match run_case_caps(&f, &ops) {
            Ok(caps) => {
                if drv.is_none() {
                    drv = Driver::spawn().ok();
                }
                if let Some(d) = drv.as_mut() {
                    if let Some(what) = check_model(d, &ops, &caps) {
                        rep.mismatch(
                            &format!("nested history as handle variables of the flat model: {what}"),
                            json!({"nested_ops": case_text(&ops)}),
                        );
                    }
                }
            }
            Err(_) => {}
        }
        if let Some((k, what)) = run_case(&f, &ops) {
            // cut after the failing step, then delete single operations greedily
            let mut cur: Vec<(NOp, bool)> = ops[..=k].to_vec();
            let key = cur[k].0.kind();
            let mut i = 0;
            let mut budget = 300;
            while i + 1 < cur.len() && budget > 0 {
                let mut cand = cur.clone();
                cand.remove(i);
                let cand = executable(cand);
                budget -= 1;
                match run_case(&f, &cand) {
                    Some((kk, _)) if cand[kk].0.kind() == key => cur = cand[..=kk].to_vec(),
                    _ => i += 1,
                }
            }
            let (kk, what2) = run_case(&f, &cur).unwrap_or((k, what.clone()));
            let (op, s) = &cur[kk.min(cur.len() - 1)];
            rep.violation(
                &format!("nested lists, step {kk} `{}`: {what2}", op.text(*s)),
                &format!("nestedrand:{}:{}", op.kind(), if *s { "script" } else { "rust" }),
                json!({"nested_ops": case_text(&cur), "step": kk, "shrunk_from_ops": ops.len()}),
            );
        }
    }
    rep.emit();
}
