//! Boundary stream of the C06 oracle: class representatives that run before
//! the random stream on EVERY run (they do not depend on the seed).
//!
//! Two families, each a full cross product over its parameters rather than a
//! sample:
//!
//!  * `cyclic_types` — attempts to build an infinite type. A list / option /
//!    open record variable is bound to a value that contains it, through every
//!    type constructor the language has (the variable itself, list, option,
//!    anonymous record field, named generic record, closed record type reached
//!    through a generic record, generic enum payload, method result types) and
//!    their pairwise nestings, at every kind of site that unifies two types
//!    (method argument, argument via a `let`, assignment, `if`/`match` arms,
//!    `==`, list literal, `+`/concat, return, two mutually pushed lists).
//!    The property demands a report (`mismatched types`) for each; a missing
//!    arm of the occurs check shows up as a stack overflow or a timeout.
//!
//!  * `long_tokens` — tokens and names longer than any plausible message
//!    budget (49 … 200 bytes) built from 1-, 2-, 3- and 4-byte characters at
//!    every byte alignment (`a` ASCII bytes in front of a run of w-byte
//!    characters, a = 0..w, so that EVERY byte offset 1..len falls inside a
//!    character for at least one representative), as identifier, string,
//!    character, f-string, integer/float/hex/AS-number suffix, run of invalid
//!    characters, terminated or not — placed wherever a parse error or a type
//!    error cites or quotes them.
use super::{Case, CaseFile};

// ------------------------------------------------------------ cyclic types

const DECL_LIST: &[(&str, &str)] = &[
    ("W {", "record W[T] { inner: T }\n"),
    ("W2 {", "record W2[T] { f: { inner: T }, n: i32 }\n"),
    ("E.", "enum E[T] { X(T), Y }\n"),
    ("E2.", "enum E2[T] { P(i32, T), Q }\n"),
];

/// the declarations `body` refers to
pub fn decls_for(body: &str) -> String {
    DECL_LIST.iter().filter(|(k, _)| body.contains(k)).map(|(_, d)| *d).collect()
}

/// ways to wrap a value expression in a bigger type: (tag, prefix, suffix,
/// statements needed in front — `@` stands for the wrapped expression)
const WRAPS: &[(&str, &str, &str)] = &[
    ("self", "", ""),
    ("list", "[", "]"),
    ("option", "Option.Some(", ")"),
    ("anon-record", "{ inner: ", " }"),
    ("anon-record2", "{ depth: 1, inner: ", ", s: \"s\" }"),
    ("named-record", "W { inner: ", " }"),
    ("closed-record", "W2 { f: { inner: ", " }, n: 1 }.f"),
    ("enum-payload", "E.X(", ")"),
    ("enum-payload2", "E2.P(1, ", ")"),
    ("method-result", "[", "].get(0)"),
    ("concat", "[", "].concat([])"),
];

fn wrap(i: usize, e: &str) -> String {
    let (_, a, b) = WRAPS[i];
    format!("{a}{e}{b}")
}

/// sites that unify the type of `x`'s element (or `x` itself) with `@`
/// (`@` = the wrapped expression built from `x`)
const SITES: &[(&str, &str)] = &[
    ("push", "let x = []; x.push(@);"),
    ("push-let", "let x = []; let r = @; x.push(r);"),
    ("push-let-twice", "let x = []; let r = @; let q = r; x.push(q); x.push(r);"),
    ("contains", "let x = []; x.contains(@);"),
    ("index", "let x = []; x.index(@);"),
    ("concat", "let x = []; x.concat([@]);"),
    ("plus", "let x = []; x + [@];"),
    ("assign", "let x = []; x = [@];"),
    ("assign-let", "let x = []; let y = [@]; x = y;"),
    ("eq", "let x = []; x == [@];"),
    ("if-arms", "let x = []; let z = if true { x } else { [@] };"),
    ("match-arms", "let x = []; let z = match Option.Some(1) { Some(v) => x, None => [@] };"),
    ("list-literal", "let x = []; let z = [x, [@]];"),
    ("option-assign", "let x = Option.None; x = Option.Some(@);"),
    ("option-eq", "let x = Option.None; x == Option.Some(@);"),
    ("record-field-push", "let q = { items: [] }; let x = q.items; x.push(@);"),
    ("record-itself", "let x = { inner: [] }; x.inner.push(@);"),
    ("enum-itself", "let x = E.Y; x = E.X(@);"),
    ("named-itself", "let x = W { inner: [] }; x.inner.push(@);"),
    ("for-elem", "let x = []; for e in x { e.push(@); x.push(e); }"),
    ("while", "let x = []; while x.len() < 1 { x.push(@); }"),
];

pub fn cyclic_types() -> Vec<Case> {
    let mut out = vec![];
    let mut add = |tag: String, body: String| {
        out.push(Case::single(
            "boundary cyclic-type",
            format!("{}fn main() {{ {body} }}\n", decls_for(&body)),
        ));
        let _ = tag;
    };
    // every site × every single wrap
    for (site, tmpl) in SITES {
        for (i, w) in WRAPS.iter().enumerate() {
            add(format!("{site}/{}", w.0), tmpl.replace('@', &wrap(i, "x")));
        }
    }
    // every ordered pair of wraps at the two plainest sites
    for i in 1..WRAPS.len() {
        for j in 1..WRAPS.len() {
            let e = wrap(i, &wrap(j, "x"));
            add(format!("push/{}/{}", WRAPS[i].0, WRAPS[j].0), format!("let x = []; x.push({e});"));
            add(
                format!("assign/{}/{}", WRAPS[i].0, WRAPS[j].0),
                format!("let x = []; let r = {e}; x = [r];"),
            );
        }
    }
    // two (three) variables bound into each other
    for i in 0..WRAPS.len() {
        for j in 0..WRAPS.len() {
            add(
                format!("mutual/{}/{}", WRAPS[i].0, WRAPS[j].0),
                format!("let x = []; let y = []; x.push({}); y.push({});", wrap(i, "y"), wrap(j, "x")),
            );
        }
        add(
            format!("mutual3/{}", WRAPS[i].0),
            format!(
                "let x = []; let y = []; let z = []; x.push({}); y.push({}); z.push({});",
                wrap(i, "y"),
                wrap(i, "z"),
                wrap(i, "x")
            ),
        );
    }
    // across a function boundary: parameter and return types
    for i in 0..WRAPS.len() {
        let e = wrap(i, "x");
        let d = decls_for(&e);
        out.push(Case::single(
            "boundary cyclic-type",
            format!("{d}fn g(a: List[i32]) -> List[i32] {{ a }}\nfn main() {{ let x = []; x.push({e}); g(x); }}\n"),
        ));
        out.push(Case::single(
            "boundary cyclic-type",
            format!("{d}fn main() -> List[i32] {{ let x = []; x.push({e}); x }}\n"),
        ));
    }
    out.extend(never_holes());
    out.extend(uninferred());
    out
}

/// Values whose type argument is never inferred (`Option.None`, `[]`, a
/// generic enum's unit variant, nested): the checker leaves a type variable,
/// `TypeInfo::convert` turns it into the never type, and every consumer of
/// the value (==, clone, drop, match, f-string, method, list literal, return)
/// has to cope with an uninhabited component.
fn uninferred() -> Vec<Case> {
    const VALUES: &[&str] = &[
        "Option.None", "[]", "E.Y", "E2.Q", "[[]]", "[Option.None]", "Option.Some([])", "Option.Some(Option.None)",
        "{ inner: Option.None }", "{ inner: [] }", "W { inner: Option.None }", "W { inner: [] }", "E.X(Option.None)",
        "E2.P(1, [])", "[].get(0)", "[].concat([])", "Result.Ok(Option.None)",
    ];
    const USES: &[&str] = &[
        "@ == @;",
        "@ != @;",
        "let x = @; x == x;",
        "let x = @; let y = x; x == y;",
        "let x = @; let y = [x, x]; y == y;",
        "let x = @; let r = { a: x, b: x }; r == r;",
        "let x = @; let o = Option.Some(x); o == o;",
        "let x = @; x = x;",
        "let x = @; let s = f\"{x}\";",
        "let x = @; match Option.Some(x) { Some(v) => v == v, None => false };",
        "let x = @; for e in [x] { e == e; }",
        "let x = @; [x].contains(x);",
        "let x = @; while false { x == x; }",
        "let x = @; if true { x } else { x };",
    ];
    let mut out = vec![];
    for v in VALUES {
        for u in USES {
            let body = u.replace('@', v);
            out.push(Case::single("boundary uninferred", format!("{}fn main() {{ {body} }}\n", decls_for(&body))));
        }
        let d = decls_for(v);
        out.push(Case::single("boundary uninferred", format!("{d}fn main() -> bool {{ {v} == {v} }}\n")));
        out.push(Case::single("boundary uninferred", format!("{d}fn f() -> bool {{ let x = {v}; x == x }}\nfn main() -> bool {{ f() && f() }}\n")));
    }
    out
}

/// The never type unifies with anything WITHOUT binding a variable, so two
/// open records whose fields unify may still contain each other: a value with
/// a `!` somewhere inside a field (`l: List[!]`, `o: !?`, `w: W[!]`, a record
/// of them) is unified with a value of the same shape that has ITSELF where
/// the `!` is — through every constructor, at every kind of unification site,
/// against an open record, a closed record type and a named record.
fn never_holes() -> Vec<Case> {
    // (parameter type with the hole, expression of the same shape around `@`)
    const SHAPES: &[(&str, &str)] = &[
        ("List[!]", "[@]"),
        ("!?", "Option.Some(@)"),
        ("List[List[!]]", "[[@]]"),
        ("List[!?]", "[Option.Some(@)]"),
        ("W[!]", "W { inner: @ }"),
        ("E[!]", "E.X(@)"),
        ("{ inner: !, z: i32 }", "{ inner: @, z: 1 }"),
        ("{ inner: List[!] }", "{ inner: [@] }"),
        ("Result[!, i32]", "Result.Ok(@)"),
    ];
    const UNIFY: &[&str] = &[
        "a == b;",
        "b == a;",
        "let c = [a, b];",
        "let c = [b, a];",
        "let c = if true { a } else { b };",
        "let c = if true { b } else { a };",
        "let c = a; c = b;",
        "let c = match Option.Some(1) { Some(v) => a, None => b };",
        "let xs = []; xs.push(a); xs.push(b);",
        "let xs = []; xs.push(b); xs.push(a);",
    ];
    let mut out = vec![];
    for (ty, shape) in SHAPES {
        for u in UNIFY {
            for (mk_a, mk_b) in [
                ("let a = { f: l };", "let b = { f: @ };"),
                ("let a = { f: l, g: 1 };", "let b = { g: 2, f: @ };"),
                ("let a = { f: l };", "let b = W2f { f: @ };"),
                ("let a = W2f { f: l };", "let b = { f: @ };"),
                ("let a = { f: { f: l } };", "let b = { f: @ };"),
            ] {
                let body = format!("{mk_a} {} {u}", mk_b.replace('@', &shape.replace('@', "a")));
                let mut d = decls_for(&format!("{body} {ty}"));
                if body.contains("W2f {") {
                    d.push_str("record W2f[T] { f: T }\n");
                }
                if ty.contains("W[") && !d.contains("record W[") {
                    d.push_str("record W[T] { inner: T }\n");
                }
                if ty.contains("E[") && !d.contains("enum E[") {
                    d.push_str("enum E[T] { X(T), Y }\n");
                }
                out.push(Case::single("boundary cyclic-type", format!("{d}fn main(l: {ty}) {{ {body} }}\n")));
            }
        }
    }
    out
}

// -------------------------------------------------------------- long tokens

/// one character of each UTF-8 width; `ident`: usable in an identifier
/// (XID_Start and XID_Continue), otherwise an arbitrary one
pub fn fill_char(w: usize, ident: bool) -> char {
    match (w, ident) {
        (1, _) => 'a',
        (2, true) => 'é',
        (2, false) => '§',
        (3, true) => '名',
        (3, false) => '€',
        (4, true) => '\u{20000}',
        (_, _) => '😀',
    }
}

/// `a` ASCII bytes followed by w-byte characters up to at least `len` bytes
pub fn run(w: usize, a: usize, len: usize, ident: bool) -> String {
    let mut s = "b".repeat(a);
    let c = fill_char(w, ident);
    while s.len() < len {
        s.push(c);
    }
    s
}

/// (width, ASCII bytes in front): every alignment of every width
pub fn alignments() -> Vec<(usize, usize)> {
    let mut v = vec![];
    for w in 1..=4 {
        for a in 0..w {
            v.push((w, a));
        }
    }
    v
}

pub const TOKEN_KINDS: &[&str] = &[
    "ident", "string", "char", "fstring", "fstring-parts", "int-suffix", "float-suffix", "hex", "asn", "ipv4-ish",
    "invalid-run", "unterminated-string", "unterminated-char", "unterminated-fstring", "string-escapes", "comment",
];

/// the text of a token of `kind` whose body is `run(w, a, len, …)`
pub fn token(kind: &str, w: usize, a: usize, len: usize) -> String {
    let id = run(w, a, len, true);
    let any = run(w, a, len, false);
    match kind {
        "ident" => {
            // an identifier cannot start with `b…`-less continue-only text: fine, all fillers are XID_Start
            id
        }
        "string" => format!("\"{any}\""),
        "char" => format!("'{any}'"),
        "fstring" => format!("f\"{any}\""),
        "fstring-parts" => format!("f\"{any}{{1}}{any}{{ {id} }}{any}\""),
        "int-suffix" => format!("12_{id}"),
        "float-suffix" => format!("1.5{id}"),
        "hex" => format!("0x1F{id}"),
        "asn" => format!("AS1{id}"),
        "ipv4-ish" => format!("1.2.3.4{id}"),
        "invalid-run" => {
            // characters no recogniser accepts; with ASCII ones in front
            let mut s = "$".repeat(a);
            let c = match w {
                1 => '$',
                2 => '§',
                3 => '€',
                _ => '😀',
            };
            while s.len() < len {
                s.push(c);
            }
            s
        }
        "unterminated-string" => format!("\"{any}"),
        "unterminated-char" => format!("'{any}"),
        "unterminated-fstring" => format!("f\"{any}{{"),
        "string-escapes" => format!("\"{any}\\q{any}\\u{{110000}}\""),
        "comment" => format!("// {any}\n#"),
        _ => id,
    }
}

/// contexts in which a parse error or a type error cites the token `@`
pub const PLACES: &[(&str, &str)] = &[
    ("after-expr", "fn main() { let x = 1 @; }"),
    ("item", "@"),
    ("item-after-fn", "fn main() {}\n@"),
    ("expr", "fn main() { @ }"),
    ("expr-stmt", "fn main() { @; 1 }"),
    ("let-typed", "fn main() { let x: i32 = @; }"),
    ("let-name", "fn main() { let @ = 1; }"),
    ("fn-name", "fn @() {}"),
    ("param-name", "fn main(@: i32) {}"),
    ("param-type", "fn main(a: @) {}"),
    ("return-type", "fn main() -> @ { }"),
    ("type-arg", "fn main(a: List[@]) {}"),
    ("field", "fn main() { let r = { a: 1 }; r.@; }"),
    ("method", "fn main() { 1.@(); }"),
    ("call", "fn main() { @(1, 2); }"),
    ("record-name", "record @ { a: i32 }\nfn main() -> @ { 1 }"),
    ("record-field", "record R { @: i32 }\nfn main() { R { }; }"),
    ("record-expr-field", "record R { a: i32 }\nfn main() { R { @: 1 }; }"),
    ("anon-field", "fn main() -> { a: i32 } { { @: 1 } }"),
    ("enum-variant", "enum E { @ }\nfn main() { E.@x; }"),
    ("pattern", "fn main(o: i32?) -> i32 { match o { @(v) => v, None => 0 } }"),
    ("import", "import @;"),
    ("import-path", "import foo.@;\nfn main() {}"),
    ("import-list", "import foo.{a, @};\nfn main() {}"),
    ("const", "const @: i32 = 1;\nconst @: i32 = 2;"),
    ("duplicate-fn", "fn @() {}\nfn @() {}"),
    ("test-name", "test @ { accept }"),
    ("filtermap", "filtermap @(x: @) { accept @ }"),
    ("binop", "fn main() { 1 + @ }"),
    ("index-arg", "fn main() { [1].get(@); }"),
    ("fstring-inner", "fn main() -> String { f\"a{ @ }b\" }"),
    ("after-dot", "fn main() { Option.@ }"),
    ("assign", "fn main() { let x = 1; x = @; }"),
    ("if-cond", "fn main() { if @ { } }"),
    ("eof-after", "fn main() { let x = @"),
    ("second-line", "fn main() {\n    let é = \"ü\";\n    é @\n}"),
];

pub fn place(i: usize, tok: &str) -> String {
    PLACES[i].1.replace('@', tok)
}

pub fn long_tokens() -> Vec<Case> {
    let mut out = vec![];
    for kind in TOKEN_KINDS {
        for (w, a) in alignments() {
            for len in [49usize, 200] {
                let tok = token(kind, w, a, len);
                for (pi, _) in PLACES.iter().enumerate() {
                    // the long representative goes everywhere; the short one
                    // (just over 48 bytes) only where a parse error quotes it
                    if len == 49 && pi > 3 {
                        continue;
                    }
                    // identifiers are what type errors quote: every place.
                    // other kinds: the places where any token may stand.
                    let everywhere = *kind == "ident" || *kind == "string" || *kind == "int-suffix";
                    if !everywhere && pi > 12 && pi % 4 != 0 {
                        continue;
                    }
                    out.push(Case::single("boundary long-token", place(pi, &tok)));
                }
            }
        }
    }
    // a stray quote that is only closed much later, with non-ASCII text in between
    for (w, a) in alignments() {
        let any = run(w, a, 120, false);
        out.push(Case::single(
            "boundary long-token",
            format!("fn main() {{\n    let c = ';\n    // {any}\n    let s = \"{any}\";\n    let d = 'x';\n}}\n"),
        ));
        out.push(Case::single(
            "boundary long-token",
            format!("fn main() {{\n    let s = \"{any};\n    // {any}\n    let t = \"{any}\";\n}}\n"),
        ));
    }
    // long names in a module tree: module names and file names are quoted too
    for (w, a) in alignments() {
        let m = run(w, a, 120, true);
        out.push(Case {
            kind: "boundary long-token".into(),
            files: vec![
                CaseFile {
                    name: "pkg.roto".into(),
                    module: "pkg".into(),
                    parent: None,
                    src: format!("import {m}.nope;\nimport {m}x.f;\nfn main() {{ {m}.g(); }}\n"),
                },
                CaseFile {
                    name: format!("{m}.roto"),
                    module: m.clone(),
                    parent: Some(0),
                    src: format!("fn f() {{}}\nfn {m}() {{ {m} }}\n"),
                },
                CaseFile {
                    name: format!("{m}2.roto"),
                    module: format!("{m}2"),
                    parent: Some(0),
                    src: format!("fn f() {{ \"{m}\" {m} }}\n"),
                },
            ],
            expect_cycle: None,
        });
    }
    out
}

pub fn all() -> Vec<Case> {
    let mut v = cyclic_types();
    v.extend(long_tokens());
    // literal decoding errors whose location is `base + range` over decoded pieces: brace escapes x character
    // widths x every fatal escape error x what follows / precedes the f-string part
    v.extend(super::escapes::representatives());
    // every stage's report for a text embedded in a host file at line N (`SourceFile::location_offset`)
    v.extend(super::escapes::line_offsets());
    // the type checker's error paths: declarations of every arity (none included) × every use,
    // and every REGISTERED function (hook `runtime_functions`) with receiver syntax on every kind of receiver
    v.extend(super::typeerrors::degenerate());
    v.extend(super::typeerrors::method_receivers(super::typeerrors::registry()));
    v
}
