//! C06 — class "error spans computed by offset arithmetic over decoded pieces".
//!
//! A string literal, a character literal and every text part of an f-string is
//! decoded by `rustc_literal_escaper`; the location of a decoding error is NOT
//! the token's span but `base + range`, where `range` is what the escaper
//! reports relative to the text it was given and `base` is computed by the
//! parser: `token.start + 1` (string), `part.start + piece_start` (f-string
//! part; the part is cut into PIECES at every brace escape `{{` / `}}`, each
//! piece is decoded on its own). A wrong `base` gives a location that does not
//! mark the escape; next to a multi-byte character it is off a character
//! boundary and the report cannot be rendered (`Span::character_range`).
//!
//! The class is the product of
//!   * what precedes the failing piece inside the SAME part: 0..3 brace escapes
//!     of either kind, with or without text between them;
//!   * the character right in front of the bad escape: none / 1 / 2 / 3 / 4 bytes wide;
//!   * the fatal escape error (every `EscapeError` the escaper has for strings
//!     that the lexer lets through), with 1..4-byte characters inside it;
//!   * what follows (end of the f-string, more text, another brace escape, an
//!     interpolation, a second error);
//!   * what precedes the part (start of the f-string, an interpolation, a part
//!     with brace escapes of its own, non-ASCII text) and where the literal
//!     stands in the file (non-ASCII text in front, nested in another f-string).
//! Controls: the same with string and character literals, and VALID escapes
//! after brace escapes (they compile).
//!
//! Nothing here depends on the PRNG: these are class representatives and run
//! before the random stream. `random_case` draws members of the same class.

use super::Case;
use rotov_harness::Prng;

/// what stands before the failing piece in the same f-string part: (text, number of brace escapes)
pub const BRACES: &[(&str, usize)] = &[
    ("", 0),
    ("{{", 1),
    ("}}", 1),
    ("{{}}", 2),
    ("}}a{{", 2),
    ("{{{{", 2),
    ("{{€}}", 2),
    ("{{}}{{", 3),
    ("}}é}}b}}", 3),
    ("{{{{{{{{", 4),
];

/// the character in front of the bad escape
pub const FILL: &[&str] = &["", "a", "é", "€", "😀", "aé", "€a", "😀😀"];

/// fatal escape errors (text as it stands in the source)
pub const BAD: &[&str] = &[
    "\\q",           // InvalidEscape
    "\\€",           // InvalidEscape, multi-byte
    "\\é",
    "\\😀",
    "\\x9",          // TooShortHexEscape (followed by whatever comes next)
    "\\xZZ",         // InvalidCharInHexEscape
    "\\x€",
    "\\x80",         // OutOfRangeHexEscape
    "\\u{110000}",   // OutOfRangeUnicodeEscape
    "\\u{D800}",     // LoneSurrogateUnicodeEscape
    "\\u{}",         // EmptyUnicodeEscape
    "\\u{€}",        // InvalidCharInUnicodeEscape
    "\\u{1234567}",  // OverlongUnicodeEscape
    "\\u{_1}",       // LeadingUnderscoreUnicodeEscape
    "\\u",           // NoBraceInUnicodeEscape (whatever follows)
    "\\u{12",        // UnclosedUnicodeEscape (runs to the next `}` or the end)
    "\\0é\\'\\q",    // valid escapes first, then an error
    "\r",            // BareCarriageReturn
];

/// what follows the bad escape up to and including the closing quote
pub const TAILS: &[&str] = &["\"", "€\"", " and {1}\"", "{{\"", "é{x}\\q\"", "}}€\\€{{\""];

/// what stands between `f"` and the part under test
pub const LEADS: &[&str] = &["", "{x}", "é{x}: ", "{{a}}{x}", "{x}{x}"];

/// where the literal `@` stands
pub const CONTEXTS: &[&str] = &[
    "fn main(x: i32) -> String { @ }",
    "# €ü\nfn g(é: i32, s: String) -> String { let ü = \"€\"; g(é, @) }",
    "fn main(x: i32) -> String { f\"é{ @ }€\" }",
    "fn main(x: i32) { let s = @; }\n// €",
];

fn fstring(lead: &str, braces: &str, fill: &str, bad: &str, tail: &str) -> String {
    format!("f\"{lead}{braces}{fill}{bad}{tail}")
}

pub fn place(ctx: usize, lit: &str) -> String {
    CONTEXTS[ctx % CONTEXTS.len()].replace('@', lit)
}

const KIND: &str = "boundary escape-span";

/// The seed-independent representatives of the class.
pub fn representatives() -> Vec<Case> {
    let mut out = vec![];
    // (1) every (preceding brace escapes × character in front × escape error); the other
    //     dimensions rotate so that every value of each occurs with every value of `bad`
    let mut n = 0usize;
    for (bi, (b, _)) in BRACES.iter().enumerate() {
        for (fi, f) in FILL.iter().enumerate() {
            for (ei, e) in BAD.iter().enumerate() {
                let tail = TAILS[(n + ei) % TAILS.len()];
                let lead = LEADS[(bi + fi + ei) % LEADS.len()];
                let lit = fstring(lead, b, f, e, tail);
                out.push(Case::single(KIND, place(bi + ei, &lit)));
                n += 1;
            }
        }
    }
    // (2) every (tail × lead × context) with a few members of (1)
    for (b, f, e) in [("{{", "€", "\\q"), ("}}", "a", "\\€"), ("{{}}", "€", "\\q"), ("", "é", "\\x9"), ("{{{{", "😀", "\\u{110000}"), ("}}é}}b}}", "", "\\u{€}")] {
        for tail in TAILS {
            for lead in LEADS {
                for ctx in 0..CONTEXTS.len() {
                    out.push(Case::single(KIND, place(ctx, &fstring(lead, b, f, e, tail))));
                }
            }
        }
    }
    // (3) controls: string and character literals (base = token.start + 1 / the whole token)
    for f in FILL {
        for e in BAD {
            for ctx in 0..CONTEXTS.len() {
                if ctx == 2 && (f.len() + e.len()) % 2 == 0 {
                    continue;
                }
                out.push(Case::single(KIND, place(ctx, &format!("\"{f}{{{{{e}{f}\""))));
            }
            out.push(Case::single(KIND, place(0, &format!("'{e}'"))));
            out.push(Case::single(KIND, place(1, &format!("'{f}{e}'"))));
        }
    }
    // (4) controls: VALID escapes behind brace escapes decode (and compile)
    for (b, _) in BRACES {
        for good in ["\\n", "\\u{41}", "\\x41€", "\\u{20AC}\\\\", "\\\"é", "\\'", "\\0"] {
            out.push(Case::single(KIND, place(0, &fstring("", b, "€", good, "\""))));
            out.push(Case::single(KIND, place(0, &fstring("é{x}", b, "", good, "{{{x}}}\""))));
            // the closing brace of `\u{…}` / an escaped quote right in front of a brace escape
            out.push(Case::single(KIND, place(3, &fstring("", b, "", good, "}}\""))));
        }
    }
    // (5) the documented examples of the class
    for lit in ["f\"{{€\\q\"", "f\"}}a\\€ and {1}\"", "f\"{x}: {{}}€\\q\"", "f\"{{\\q\"", "f\"€{{€\\q€\""] {
        for ctx in 0..CONTEXTS.len() {
            out.push(Case::single(KIND, place(ctx, lit)));
        }
    }
    // (6) the same in a file that is not the root of its tree (the report cites file #1)
    for lit in ["f\"{{€\\q\"", "f\"}}a\\€ and {1}\"", "f\"{x}: {{}}€\\q\"", "\"😀\\u{110000}\"", "'\\€'"] {
        out.push(Case {
            kind: KIND.into(),
            files: vec![
                super::CaseFile { name: "pkg.roto".into(), module: "pkg".into(), parent: None, src: "fn main() -> String { é.f(1) }\n".into() },
                super::CaseFile { name: "é.roto".into(), module: "é".into(), parent: Some(0), src: place(0, lit).replace("fn main", "fn f") },
            ],
            expect_cycle: None,
        });
    }
    out
}

/// `SourceFile::location_offset` (a script embedded in a host file at line N: reports display shifted line numbers and
/// name the file `name@N`): every stage's report — lexer, parser, escape error, type error with several labels, a
/// module tree — with the text starting at line N + 1 of its host. The kind carries the offset (`[line+N]`).
pub fn line_offsets() -> Vec<Case> {
    use super::CaseFile;
    const SOURCES: &[&str] = &[
        "fn main() {\n    let x = $;\n}\n",
        "fn main() {\n\n\n    let x = ;\n}",
        "fn main() -> String {\n    f\"{{€\\q\"\n}\n",
        "fn main(x: i32) -> String {\n    // é\n    x\n}\n",
        "fn f(a: i32) {}\nfn main() {\n    f(1, 2);\n    let é = g();\n}\n",
        "type A { x: A }\n\n\nfn main(a: A) {}\n",
        "fn main() {\n    match 1 {\n    }\n}",
        "",
        "\n\n\n€",
    ];
    let mut out = vec![];
    for n in [1usize, 9, 99, 999, 65_535, 1_000_000] {
        let kind = format!("boundary line-offset [line+{n}]");
        for src in SOURCES {
            out.push(Case::single(&kind, src.to_string()));
        }
        out.push(Case {
            kind: kind.clone(),
            files: vec![
                CaseFile { name: "pkg.roto".into(), module: "pkg".into(), parent: None, src: "import m.nope;\nfn main() {\n    m.f(1);\n}\n".into() },
                CaseFile { name: "m.roto".into(), module: "m".into(), parent: Some(0), src: "\n\nfn f() -> é {\n    \"€\\q\"\n}\n".into() },
            ],
            expect_cycle: None,
        });
    }
    out
}

/// A random member of the class: an f-string (sometimes a string / character literal) assembled from brace
/// escapes, fillers of every width, valid and fatal escapes and interpolations, at a random place.
pub fn random_case(p: &mut Prng) -> Case {
    const GOOD: &[&str] = &["\\n", "\\t", "\\\\", "\\\"", "\\'", "\\0", "\\x41", "\\u{41}", "\\u{20AC}", "\\u{1F600}", "\\u{7b}", "\\x7d"];
    const INTERP: &[&str] = &["{x}", "{ x }", "{1 + 2}", "{f\"{{{x}}}\"}", "{\"}}\"}", "{f\"é\\q\"}"];
    const ODD: &[&str] = &["{", "}", "\\{", "\\}", "\\u{", "\\", "\"", "'", "\n", "\\\n  "];
    let quote = match p.below(10) {
        0 => "\"",
        1 => "'",
        _ => "f\"",
    };
    let mut lit = String::from(quote);
    let n = 1 + p.below(9);
    // most members end in an error: the last piece is a fatal escape with probability 3/4
    for i in 0..n {
        let last = i + 1 == n;
        let r = if last && p.chance(3, 4) { 60 } else { p.below(100) };
        match r {
            0..=27 => lit.push_str(if p.chance(1, 2) { "{{" } else { "}}" }),
            28..=49 => lit.push_str(*p.pick::<&str>(FILL)),
            50..=57 => lit.push_str(*p.pick::<&str>(GOOD)),
            58..=77 => lit.push_str(*p.pick::<&str>(BAD)),
            78..=93 => lit.push_str(if quote == "f\"" { *p.pick::<&str>(INTERP) } else { "{x}" }),
            _ => lit.push_str(*p.pick::<&str>(ODD)),
        }
    }
    lit.push_str(if quote == "'" { "'" } else { "\"" });
    let ctx = p.below(CONTEXTS.len() as u64) as usize;
    // one in eight is embedded in a host file at a random line
    if p.chance(1, 8) {
        let n = if p.chance(1, 2) { 1 + p.below(100) } else { 1 + p.below(1_000_000) };
        return Case::single(&format!("escape-span [line+{n}]"), place(ctx, &lit));
    }
    Case::single("escape-span", place(ctx, &lit))
}
