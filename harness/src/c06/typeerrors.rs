//! Boundary stream of the C06 oracle, part 2: the TYPE CHECKER's error paths.
//!
//! The first boundary families vary the *text* of a program (long tokens) and
//! the *shape of inferred types* (cycles, holes). What they keep fixed is the
//! ARITY of everything declared: enums always have variants, records fields,
//! functions parameters, and the method names come from a hand-picked list.
//! Helpers of the checker that are only total on non-empty lists
//! (`join_quoted`: `pop().unwrap()`, `parameter_types[0]`, `locations[0]`,
//! `split_first`, `first()/last().unwrap()`) are exactly the ones such inputs
//! never stress. Two families, each a full cross product:
//!
//!  * `degenerate` — every declaration shape by arity (enum with 0 / 1 / 2 / 3
//!    variants, with 0 / 1 / 2 payload fields, generic or not; record with
//!    0 / 1 / 2 fields, generic, anonymous; the built-in enums; plain types)
//!    × every kind of use that can end in a type error (match arms naming an
//!    unknown / known / duplicate / guarded variant, with too few / too many
//!    sub-patterns, no arms, `_`; constructors and record literals with
//!    unknown / missing / duplicate / surplus members; field, method, call,
//!    operator, assignment, loop and f-string uses). The value of the type
//!    is a parameter of `main`, so it exists for uninhabited types too.
//!
//!  * `method_receivers` — every function REGISTERED in the default runtime
//!    (hook `runtime_functions`: qualified name and number of parameters;
//!    nothing is hand-picked), called with receiver syntax `recv.name(args)`
//!    on every kind of receiver (a parameter of each type of the table, the
//!    function's own type, literals, the result of calling the function
//!    itself, the type path), with every argument count 0 ‥ 3 — plus the
//!    same for script-level functions and enum constructors. A static or
//!    parameterless function has no receiver parameter: the checker must
//!    answer with a report, not index an empty parameter list.
use super::{Case, CaseFile};

/// (declarations, annotation of a value of the type, bare name for paths)
const SHAPES: &[(&str, &str, &str)] = &[
    ("enum Void {}\n", "Void", "Void"),
    ("enum Never[T] {}\n", "Never[i32]", "Never"),
    ("enum One { A }\n", "One", "One"),
    ("enum OneP { A(i32) }\n", "OneP", "OneP"),
    ("enum Two { A, B(i32) }\n", "Two", "Two"),
    ("enum Gen[T] { A(T), B }\n", "Gen[i32]", "Gen"),
    ("enum Three { A, B, C(i32, i32) }\n", "Three", "Three"),
    ("enum Dup { A, A }\n", "Dup", "Dup"),
    ("", "Option[i32]", "Option"),
    ("", "i32?", "Option"),
    ("", "Result[i32, String]", "Result"),
    ("", "Verdict[i32, i32]", "Verdict"),
    ("enum Void {}\n", "Void?", "Option"),
    ("enum Void {}\n", "List[Void]", "List"),
    ("record Z {}\n", "Z", "Z"),
    ("record ZG[T] {}\n", "ZG[i32]", "ZG"),
    ("record R1 { a: i32 }\n", "R1", "R1"),
    ("record R2 { a: i32, b: String }\n", "R2", "R2"),
    ("record RG[T] { a: T }\n", "RG[i32]", "RG"),
    ("record RD { a: i32, a: i32 }\n", "RD", "RD"),
    ("", "{}", "Z"),
    ("", "{ a: i32 }", "Z"),
    ("", "{ a: i32, a: i32 }", "Z"),
    ("", "i32", "i32"),
    ("", "String", "String"),
    ("", "bool", "bool"),
    ("", "()", "Unit"),
    ("", "List[i32]", "List"),
    ("", "!", "Never"),
];

/// uses of a value `v: $T` / of the type path `$N`; one function body each
const USES: &[&str] = &[
    // ---- match: arms × patterns
    "-> i32 { match v { Nothing => 0 } }",
    "-> i32 { match v { Nothing(x) => 0 } }",
    "-> i32 { match v { Nothing => 0, _ => 1 } }",
    "-> i32 { match v { Nothing if true => 0 } }",
    "-> i32 { match v { Nothing | Nada => 0 } }",
    "-> i32 { match v { A => 0 } }",
    "-> i32 { match v { A(x) => 0 } }",
    "-> i32 { match v { A(x, y) => 0 } }",
    "-> i32 { match v { A => 0, A => 1 } }",
    "-> i32 { match v { A(x) => 0, A(y) => 1 } }",
    "-> i32 { match v { A if true => 0 } }",
    "-> i32 { match v { A(x) if x == 1 => 0 } }",
    "-> i32 { match v { A => 0, B => 1 } }",
    "-> i32 { match v { A => 0, B(x) => 1 } }",
    "-> i32 { match v { A(x) => 0, B => 1 } }",
    "-> i32 { match v { A => 0, B => 1, C(x, y) => 2 } }",
    "-> i32 { match v { A => 0, B => 1, C(x) => 2 } }",
    "-> i32 { match v { B => 1 } }",
    "-> i32 { match v { C(x, y) => x } }",
    "-> i32 { match v { Some(x) => 0 } }",
    "-> i32 { match v { None => 0 } }",
    "-> i32 { match v { Some(x) => 0, None => 1, Nothing => 2 } }",
    "-> i32 { match v { Ok(x) => 0 } }",
    "-> i32 { match v { Accept(x) => 0 } }",
    "-> i32 { match v { } }",
    "{ match v { } }",
    "-> i32 { match v { _ => 0 } }",
    "-> i32 { match v { _ => 0, Nothing => 1 } }",
    "-> i32 { match v { A | B => 0 } }",
    "-> i32 { match [v] { Nothing => 0 } }",
    "-> i32 { match Option.Some(v) { Some(w) => match w { Nothing => 0 }, None => 1 } }",
    // ---- constructors, record literals
    "{ let w = $N.A; }",
    "{ let w = $N.A(1); }",
    "{ let w = $N.A(1, 2); }",
    "{ let w = $N.A(); }",
    "{ let w = $N.Nothing; }",
    "{ let w = $N.Nothing(1); }",
    "{ let w = $N.Nothing(); }",
    "{ let w = $N.C(1); }",
    "{ let w = $N {}; }",
    "{ let w = $N { a: 1 }; }",
    "{ let w = $N { a: 1, a: 2 }; }",
    "{ let w = $N { a: 1, b: \"s\" }; }",
    "{ let w = $N { b: \"s\" }; }",
    "{ let w = $N { nope: 1 }; }",
    "{ let w = $N { a: 1, nope: 2 }; }",
    "{ let w = $N { a: 1, b: \"s\", nope: 2, nope: 3, a: 4 }; }",
    "{ let w: $T = {}; }",
    "{ let w: $T = { a: 1 }; }",
    "{ let w: $T = { a: 1, a: 2 }; }",
    "{ let w: $T = { nope: 1 }; }",
    "{ let w = $N; }",
    "{ let w = $N(); }",
    "{ let w = $N(1); }",
    "{ let w = $N.a; }",
    "{ let w = $N.A.A; }",
    "{ let w = $N.A.a; }",
    "{ let w = $N.A.a(); }",
    "{ let w = $N.A(1).a(); }",
    "{ v = $N.A; }",
    "{ v == $N.A; }",
    "{ v == $N {}; }",
    // ---- uses of the value
    "-> $T { v }",
    "{ v.a; }",
    "{ v.nope; }",
    "{ v.a(); }",
    "{ v.nope(); }",
    "{ v.nope(1, 2); }",
    "{ v.a = 1; }",
    "{ v.nope = 1; }",
    "{ v.a.a; }",
    "{ v.A; }",
    "{ v.0; }",
    "{ v = v; }",
    "-> bool { v == v }",
    "-> bool { v != v }",
    "-> bool { v < v }",
    "-> String { f\"{v}\" }",
    "-> String { f\"{v.a}\" }",
    "{ let w = [v, v]; w.contains(v); }",
    "{ let w = [v]; w == w; }",
    "{ let w = { x: v }; w == w; }",
    "{ let w = Option.Some(v); w == w; }",
    "{ let w = v; w == v; }",
    "{ v(); }",
    "{ v(1); }",
    "{ v + v; }",
    "{ -v; }",
    "{ !v; }",
    "{ v?; }",
    "{ for x in v { } }",
    "{ for x in [v] { x.nope; } }",
    "{ if v { } }",
    "{ while v { } }",
    "{ v += 1; }",
    "{ let w: i32 = v; }",
    "{ let w: String = v; }",
    "{ g(v); }",
    "{ g(v, v); }",
    "{ g(); }",
    "-> $T { return v; }",
    "-> $T { g(v) }",
];

pub fn degenerate() -> Vec<Case> {
    let mut out = vec![];
    for (decl, ty, name) in SHAPES {
        for u in USES {
            let body = u.replace("$T", ty).replace("$N", name);
            let helper = if body.contains("g(") { format!("fn g(a: {ty}) -> {ty} {{ a }}\n") } else { String::new() };
            out.push(Case::single("boundary degenerate", format!("{decl}{helper}fn main(v: {ty}) {body}\n")));
        }
    }
    // every other list of the language with nothing in it, wherever a message may list or index it
    for src in MISC {
        out.push(Case::single("boundary degenerate", src.to_string()));
    }
    // a runtime WITH a context type (variables `cx: u64`, `flag: bool`): the paths only such a runtime has
    for src in WITH_CONTEXT {
        out.push(Case::single("boundary degenerate [ctx]", src.to_string()));
    }
    // the same declarations in a module of their own (the message prints a path)
    for (decl, ty, name) in SHAPES.iter().filter(|s| !s.0.is_empty()) {
        for u in ["-> i32 { match v { Nothing => 0 } }", "{ let w = m.$N.Nothing; }", "{ let w = m.$N { nope: 1 }; }", "{ v.nope(); }"] {
            let body = u.replace("$T", ty).replace("$N", name);
            out.push(Case {
                kind: "boundary degenerate".into(),
                files: vec![
                    CaseFile { name: "pkg.roto".into(), module: "pkg".into(), parent: None, src: format!("fn main(v: m.{ty}) {body}\n") },
                    CaseFile { name: "m.roto".into(), module: "m".into(), parent: Some(0), src: decl.to_string() },
                ],
                expect_cycle: None,
            });
        }
    }
    out
}

const MISC: &[&str] = &[
    "fn f() {}\nfn main() { f(1); }",
    "fn f() {}\nfn main() { f(1, 2, 3); }",
    "fn f() {}\nfn main() { f.x; }",
    "fn f() {}\nfn main() { f().x; }",
    "fn f() {}\nfn main() { f().x(); }",
    "fn f() {}\nfn main() { f.f(); }",
    "fn f() {}\nfn main() { 1.f(); }",
    "fn f() {}\nfn main() { ().f(); }",
    "fn f() {}\nfn main() { f().f(); }",
    "fn f(a: i32) {}\nfn main() { f(); }",
    "fn f(a: i32) {}\nfn main() { 1.f(); }",
    "fn main() { main.main(); }",
    "fn main() { let x = []; x.nope(); }",
    "fn main() { let x = []; x.nope; }",
    "fn main() { [] == []; }",
    "fn main() { [].len(); }",
    "fn main() { let x = f\"\"; }",
    "fn main() { let x = f\"{}\"; }",
    "fn main() { let x = {}; x.a; }",
    "fn main() { let x = {}; x == x; }",
    "fn main() { let x = {}; x == {}; }",
    "fn main() { let x = {}; let y: { a: i32 } = x; }",
    "fn main() { let x: {} = { a: 1 }; }",
    "fn main() { let x: { a: i32 } = {}; }",
    "fn main() -> {} { {} }",
    "fn main(x: {}) -> { a: i32 } { x }",
    "fn main() { match 1 { } }",
    "fn main() { match () { } }",
    "fn main() { match {} { } }",
    "fn main() { match [] { } }",
    "fn main() { match main { } }",
    "fn main() { match Option { } }",
    "fn main() { match Option.None { } }",
    "fn main() -> i32 { match Option.None { Nothing => 0 } }",
    "fn main() -> i32 { match [] { Nothing => 0 } }",
    "fn main() -> i32 { match [].get(0) { Nothing => 0 } }",
    "import m.{};\nfn main() {}",
    "import Option.{};\nfn main() {}",
    "import Option.{Nothing};\nfn main() {}",
    "enum Void {}\nimport Void.{};\nfn main() {}",
    "enum Void {}\nimport Void.{Nothing};\nfn main() {}",
    "enum Void {}\nimport Void.Nothing;\nfn main() {}",
    "record Z {}\nimport Z.a;\nfn main() {}",
    "enum Void {}\nenum Void {}\nfn main() {}",
    "enum Void {}\nrecord Void {}\nfn main() {}",
    "enum E[] {}\nfn main(v: E[]) {}",
    "enum E[T] {}\nfn main(v: E) {}",
    "enum E[T] {}\nfn main(v: E[]) {}",
    "enum E[T] {}\nfn main(v: E[i32, i32]) {}",
    "enum E {}\nfn main(v: E[i32]) {}",
    "record Z[] {}\nfn main(v: Z[]) {}",
    "record Z[T] {}\nfn main(v: Z) {}",
    "record Z {}\nfn main(v: Z[i32]) {}",
    "fn main(v: List) {}",
    "fn main(v: List[]) {}",
    "fn main(v: List[i32, i32]) {}",
    "fn main(v: Option) {}",
    "fn main(v: i32[i32]) {}",
    "fn main(v: Nope) {}",
    "fn main(v: Nope[]) {}",
    "fn main() -> Nope {}",
    "test t {}\n",
    "test t { }\nfn main() {}",
    "filtermap main() { }",
    "filter main() { }",
    "filtermap main() { accept }",
    "const K: {} = {};\nfn main() {}",
    "const K: Void = 1;\nenum Void {}\nfn main() {}",
    "enum Void {}\nfn f() -> Void { f() }\nfn main() -> i32 { match f() { Nothing => 0 } }",
    "enum Void {}\nfn main(l: List[Void]) -> i32 { match l.get(0) { Some(x) => match x { Nothing => 0 }, None => 1 } }",
    "enum Void {}\nfn main(l: List[Void]) { for x in l { match x { Nothing => 0 }; } }",
    "enum Void {}\nrecord H { v: Void }\nfn main(h: H) -> i32 { match h.v { Nothing => 0 } }",
    // the error constructors no family above reaches
    "fn f() {}\nfn main(v: f) {}",
    "fn main(v: main) {}",
    "fn main(v: Option.None) {}",
    "const K: i32 = 1;\nfn main(v: K) {}",
    "import main.x;\nfn main() {}",
    "import Option.None.x;\nfn main() {}",
    "enum Void {}\nimport Void.x.y;\nfn main() {}",
    "const A: i32 = A;\nfn main() {}",
    "const A: i32 = B;\nconst B: i32 = A;\nfn main() {}",
    "const A: i32 = B + 1;\nconst B: i32 = C;\nconst C: i32 = A;\nfn main() {}",
    "const A: i32 = return 1;\nfn main() {}",
    "const A: i32 = { return 1 };\nfn main() {}",
    "const A: Verdict[i32, i32] = accept 1;\nfn main() {}",
    "fn main() { 1.5 % 2.0; }",
    "fn main() { \"s\" % 1; }",
    "fn main(v: {}) { v % v; }",
    "enum Void {}\nfn main(v: Void) { v % v; }",
    "fn main() { 1 = 2; }",
    "fn main() { main = 1; }",
    "fn main() { Option = 1; }",
    "fn main() { Option.None = 1; }",
    "fn main() { String.new = 1; }",
    "const K: i32 = 1;\nfn main() { K = 2; }",
    "fn f() {}\nfn main() { f() = 1; }",
    "fn f() {}\nfn main() { f().x = 1; }",
    "fn main() { [].x = 1; }",
    "fn main() { {}.x = 1; }",
    "enum Void {}\nfn main() { Void = 1; }",
    "fn main[T](v: T) { T = 1; }",
];

/// Every `error_…` constructor of src/typechecker/error.rs (the generated list
/// `errorFns` is pinned to these names in Props/C06TcLists) with the kind of
/// report (`error_kind`: first line, quoted parts blanked) the boundary stream
/// must produce at least once. `error_simple` takes its text from the caller;
/// `error_constant_uses_context` needs a runtime with a context type: the cases
/// of kind `… [ctx]` are compiled with the oracle's second runtime.
pub const ERROR_KINDS: &[(&str, &str)] = &[
    ("error_simple", "expected # type parameters, got #"),
    ("error_duplicate_fields", "field _ appears multiple times in the same record"),
    ("error_field_mismatch", "field mismatch: missing fields _ and _ in record literal"),
    ("error_field_mismatch", "field: mismatch: missing field _ in record literal"),
    ("error_field_mismatch", "field mismatch"),
    ("error_expected_type", "expected type, but found "),
    ("error_expected_module", "expected a module, but found "),
    ("error_recursive_constant", "constant _ is recursively defined."),
    ("error_constant_uses_context", "constant _ depends on a context variable."),
    ("error_declared_twice", "item _ is declared multiple times"),
    ("error_not_defined", "cannot find value _ in this scope"),
    ("error_number_of_arguments_dont_match", "function _ takes # arguments but # arguments were given"),
    ("error_number_of_arguments_dont_match", "method _ takes # arguments but # arguments were given"),
    ("error_number_of_arguments_dont_match", "enum constructor _ takes # arguments but # arguments were given"),
    ("error_number_of_arguments_dont_match", "pattern _ takes # arguments but # arguments were given"),
    ("error_can_only_match_on_enum", "cannot match on the type _"),
    ("error_variant_does_not_have_fields", "pattern has fields, but the variant _ of _ doesn't have one"),
    ("error_need_arguments_on_pattern", "pattern has no arguments, but variant _ of _ does have arguments"),
    ("error_variant_does_not_exist", "the variant _ does not exist on _"),
    ("error_mismatched_types", "mismatched types"),
    ("error_nonexhaustive_match", "match expression is not exhaustive, missing variants _"),
    ("error_nonexhaustive_match", "match expression is not exhaustive, missing variants _ and _"),
    ("error_nonexhaustive_match", "match expression is not exhaustive, missing variants _, _ and _"),
    ("error_unreachable_expression", "expression is unreachable"),
    ("error_cannot_diverge_here", "cannot _ here"),
    ("error_expected_value", "expected a value, but found "),
    ("error_expected_numeric_value", "expected a numeric value, found type _"),
    ("error_expected_int_value", "expected an integer value, found type _"),
    ("error_expected_value_path", "expected a value, but found "),
    ("error_expected_function", "expected a function, but found "),
    ("error_no_field_on_type", "no field _ on type _"),
    ("error_no_method_on_type", "no method _ on type _"),
    ("error_no_field_or_method_on_type", "no field or method _ on type _"),
    ("error_cannot_assign_to_this_expression", "cannot assign to this expression"),
];

/// compiled with the second runtime of the oracle (context variables `cx: u64`, `flag: bool`)
const WITH_CONTEXT: &[&str] = &[
    "const K: u64 = cx;\nfn main() {}",
    "const K: u64 = cx + 1;\nconst L: u64 = K;\nfn main() -> u64 { L }",
    "fn f() -> u64 { cx }\nconst K: u64 = f();\nfn main() {}",
    "fn f() -> u64 { g() }\nfn g() -> u64 { cx }\nconst K: u64 = f();\nfn main() {}",
    "const K: bool = flag;\nfn main() {}",
    "const K: bool = !flag && cx == 0;\nfn main() {}",
    "const K: String = f\"{cx}\";\nfn main() {}",
    "const K: List[u64] = [cx];\nfn main() {}",
    "const K: u64 = match Option.Some(cx) { Some(x) => x, None => 0 };\nfn main() {}",
    "fn main() -> u64 { cx }",
    "fn main() { cx = 1; }",
    "fn main() { cx += 1; }",
    "fn main() { cx(); }",
    "fn main() { cx.cx; }",
    "fn main() { cx.new(); }",
    "fn main() { cx.to_string().new(); }",
    "fn main() -> i32 { match cx { A => 1 } }",
    "fn main() { match cx { } }",
    "fn main() { match flag { } }",
    "fn main(cx: u64) -> u64 { cx }",
    "fn main() { let cx = 1; cx; }",
    "fn main() { for cx in [1] { cx; } }",
    "fn cx() {}\nfn main() { cx(); }",
    "const cx: u64 = 1;\nfn main() {}",
    "record cx {}\nfn main() {}",
    "enum cx {}\nfn main() {}",
    "import cx;\nfn main() {}",
    "import cx.x;\nfn main() {}",
    "fn main(v: cx) {}",
    "fn main() -> String { f\"{cx}{flag}\" }",
    "fn main() { flag && cx; }",
    "fn main() { [cx, flag]; }",
    "fn main() { cx == flag; }",
    "fn main() { Option.Some(cx) == Option.None; }",
    "test t { if cx == 0 { accept } else { reject } }",
    "filtermap main() { if flag { accept cx } else { reject } }",
    "filtermap main(cx: u64) { accept cx }",
    "enum Void {}\nfn main(v: Void) -> u64 { match v { Nothing => cx } }",
];

// ------------------------------------------------------- method receivers

/// (annotation, declaration it needs)
const RECV_TYPES: &[(&str, &str)] = &[
    ("i32", ""),
    ("u8", ""),
    ("f64", ""),
    ("bool", ""),
    ("char", ""),
    ("String", ""),
    ("()", ""),
    ("Asn", ""),
    ("IpAddr", ""),
    ("Prefix", ""),
    ("List[i32]", ""),
    ("i32?", ""),
    ("Result[i32, String]", ""),
    ("Verdict[i32, i32]", ""),
    ("{ a: i32 }", ""),
    ("{}", ""),
    ("R", "record R { a: i32 }\n"),
    ("E", "enum E { A, B(i32) }\n"),
    ("Void", "enum Void {}\n"),
];

/// receiver EXPRESSIONS (no parameter needed)
const RECV_EXPRS: &[&str] = &[
    "1", "1.5", "true", "'c'", "\"s\"", "()", "[]", "[1]", "Option.None", "Option.Some(1)", "{ a: 1 }", "{}", "AS1",
    "1.1.1.1", "1.0.0.0/8", "f\"a{1}\"", "main", "Option", "String", "List", "(return)", "[].get(0)",
];

fn args(n: usize, a: &str) -> String {
    vec![a; n].join(", ")
}

/// `funcs`: (qualified name `Type.method` or `function`, number of parameters) of every registered function
pub fn method_receivers(funcs: &[(String, usize)]) -> Vec<Case> {
    let mut out = vec![];
    let mut push = |src: String| out.push(Case::single("boundary method-receiver", src));
    let mut seen = std::collections::BTreeSet::new();
    for (qual, n) in funcs {
        let (owner, name) = match qual.rsplit_once('.') {
            Some((o, m)) => (Some(o), m),
            None => (None, qual.as_str()),
        };
        // the argument counts that matter: none, the count as a method (one parameter is the receiver),
        // the count as a static function, and one too many
        let mut counts = vec![0usize, n.saturating_sub(1), *n, n + 1];
        counts.sort();
        counts.dedup();
        // (a) the function's own path, called / used in every way
        for &k in &counts {
            push(format!("fn main() {{ {qual}({}); }}\n", args(k, "1")));
            // … the result as the receiver of the same name (`StringBuf.new().new()`)
            push(format!("fn main() {{ {qual}({}).{name}({}); }}\n", args(*n, "1"), args(k, "1")));
            push(format!("fn main() {{ {qual}({}).{name}({}); }}\n", args(k, "1"), args(k, "1")));
            // … the path itself as a receiver
            push(format!("fn main() {{ {qual}.{name}({}); }}\n", args(k, "1")));
        }
        push(format!("fn main() {{ let f = {qual}; }}\n"));
        push(format!("fn main() {{ {qual}; }}\n"));
        push(format!("fn main() {{ {qual}.{name}; }}\n"));
        if let Some(o) = owner {
            // a value of the owner type as a parameter
            for &k in &counts {
                push(format!("fn main(v: {o}) {{ v.{name}({}); }}\n", args(k, "v")));
                push(format!("fn main(v: {o}) {{ v.{name}({}); }}\n", args(k, "1")));
                push(format!("fn main(v: {o}) {{ {qual}({}); }}\n", args(k, "v")));
                push(format!("fn main(v: {o}) {{ v.{name}({}).{name}({}); }}\n", args(k, "v"), args(k, "v")));
            }
            push(format!("fn main(v: {o}) {{ v.{name}; }}\n"));
            push(format!("fn main(v: {o}) {{ let f = v.{name}; f(); }}\n"));
        }
        // (b) the bare name as a method of every kind of receiver (once per name and arity)
        if !seen.insert((name.to_string(), *n)) {
            continue;
        }
        let mut as_method = vec![0usize, n.saturating_sub(1)];
        as_method.dedup();
        for &k in &as_method {
            for (ty, decl) in RECV_TYPES {
                push(format!("{decl}fn main(v: {ty}) {{ v.{name}({}); }}\n", args(k, "v")));
            }
            for e in RECV_EXPRS {
                push(format!("fn main() {{ {e}.{name}({}); }}\n", args(k, "1")));
            }
        }
    }
    // script-level functions, enum constructors and record names with receiver syntax
    const DECLS: &str = "fn none() {}\nfn one(a: i32) -> i32 { a }\nfn two(a: i32, b: i32) -> i32 { a }\nenum E { A, B(i32) }\nrecord R { a: i32 }\n";
    for name in ["none", "one", "two", "A", "B", "E", "R", "main", "a"] {
        for k in 0..3 {
            for (ty, decl) in RECV_TYPES {
                let decl = if DECLS.contains(decl) { "" } else { decl };
                push(format!("{DECLS}{decl}fn main(v: {ty}) {{ v.{name}({}); }}\n", args(k, "1")));
            }
            for e in RECV_EXPRS.iter().chain(&["none", "one", "none()", "one(1)", "E", "E.A", "E.B", "E.B(1)", "R", "R { a: 1 }"]) {
                push(format!("{DECLS}fn main() {{ {e}.{name}({}); }}\n", args(k, "1")));
            }
        }
    }
    out
}

// ---------------------------------------------------- random members (PRNG)

/// the registry of the default runtime, read once per process
pub fn registry() -> &'static Vec<(String, usize)> {
    static R: std::sync::OnceLock<Vec<(String, usize)>> = std::sync::OnceLock::new();
    R.get_or_init(|| roto::verif_hooks::c06::runtime_functions(&roto::Runtime::new()))
}

/// a random declaration shape (arity 0..3 chosen by the PRNG, not from the
/// table) with one to three random uses — class of `degenerate`
pub fn random_degenerate(p: &mut rotov_harness::Prng) -> Case {
    let generic = p.chance(1, 3);
    let n = p.below(4) as usize;
    let names = ["A", "B", "C"];
    let (decl, ty) = if p.chance(2, 3) {
        let vs: Vec<String> = (0..n)
            .map(|i| match p.below(4) {
                0 => format!("{}(i32)", names[i]),
                1 => format!("{}(i32, {})", names[i], if generic { "T" } else { "String" }),
                2 if generic => format!("{}(T)", names[i]),
                _ => names[i].to_string(),
            })
            .collect();
        if generic {
            (format!("enum D[T] {{ {} }}\n", vs.join(", ")), "D[i32]".to_string())
        } else {
            (format!("enum D {{ {} }}\n", vs.join(", ")), "D".to_string())
        }
    } else {
        let fs: Vec<String> = (0..n).map(|i| format!("{}: {}", ["a", "b", "c"][i], p.pick(&["i32", "String", "T", "D"]))).collect();
        let fs: Vec<String> = fs.into_iter().map(|f| if generic { f } else { f.replace(": T", ": bool") }).collect();
        if generic {
            (format!("record D[T] {{ {} }}\n", fs.join(", ")), "D[i32]".to_string())
        } else {
            (format!("record D {{ {} }}\n", fs.join(", ")), "D".to_string())
        }
    };
    let mut fns = String::new();
    for k in 0..1 + p.below(3) {
        let u = p.pick(USES).replace("$T", &ty).replace("$N", "D");
        let name = if k == 0 { "main".to_string() } else { format!("f{k}") };
        fns.push_str(&format!("fn {name}(v: {ty}) {u}\n"));
    }
    let helper = if fns.contains("g(") { format!("fn g(a: {ty}) -> {ty} {{ a }}\n") } else { String::new() };
    Case::single("degenerate", format!("{decl}{helper}{fns}"))
}

/// a random registered function called with receiver syntax on a random
/// receiver with random arguments — class of `method_receivers`
pub fn random_method_receiver(p: &mut rotov_harness::Prng) -> Case {
    let funcs = registry();
    let (qual, n) = p.pick(&funcs[..]).clone();
    let name = qual.rsplit('.').next().unwrap_or(&qual).to_string();
    const ARGS: &[&str] = &["1", "\"s\"", "v", "true", "[]", "()", "'c'", "1.5", "Option.None", "{ a: 1 }", "v.a", "main"];
    let k = match p.below(4) {
        0 => 0,
        1 => n.saturating_sub(1),
        2 => n,
        _ => p.below(4) as usize,
    };
    let args: Vec<&str> = (0..k).map(|_| *p.pick(ARGS)).collect();
    let (ty, decl) = *p.pick(RECV_TYPES);
    let recv = match p.below(5) {
        0 => "v".to_string(),
        1 => p.pick(RECV_EXPRS).to_string(),
        2 => format!("{qual}({})", vec!["1"; n].join(", ")),
        3 => format!("v.{name}({})", args.join(", ")),
        _ => qual.clone(),
    };
    let tail = match p.below(4) {
        0 => format!(".{name}()"),
        1 => ".a".to_string(),
        _ => String::new(),
    };
    Case::single("method-receiver", format!("{decl}fn main(v: {ty}) {{ {recv}.{name}({}){tail}; }}\n", args.join(", ")))
}
