//! Input generators of the C06 oracle. Everything derives from one PRNG.

use roto::verif_hooks::c06::lex_all;
use rotov_harness::Prng;
use rotov_harness::driver::hex;
use serde_json::{Value, json};

#[path = "boundary.rs"]
pub mod boundary;
#[path = "typeerrors.rs"]
pub mod typeerrors;
#[path = "escapes.rs"]
pub mod escapes;

#[derive(Clone, Debug)]
pub struct CaseFile {
    pub name: String,
    pub module: String,
    pub parent: Option<usize>,
    pub src: String,
}

#[derive(Clone, Debug)]
pub struct Case {
    /// generator class (histogram bucket)
    pub kind: String,
    /// file 0 is the root (`pkg`)
    pub files: Vec<CaseFile>,
    pub expect_cycle: Option<String>,
}

impl Case {
    pub fn single(kind: &str, src: String) -> Case {
        Case {
            kind: kind.into(),
            files: vec![CaseFile { name: "c06.roto".into(), module: "pkg".into(), parent: None, src }],
            expect_cycle: None,
        }
    }
    pub fn to_json(&self) -> Value {
        json!({
            "kind": self.kind,
            "files": self.files.iter().map(|f| json!({
                "name": f.name, "module": f.module, "parent": f.parent,
                "hex": hex(&f.src), "src": f.src,
            })).collect::<Vec<_>>(),
        })
    }
    pub fn from_json(v: &Value) -> Option<Case> {
        let mut files = vec![];
        for f in v["files"].as_array()? {
            let h = f["hex"].as_str()?;
            let bytes: Option<Vec<u8>> = (0..h.len() / 2)
                .map(|i| u8::from_str_radix(h.get(2 * i..2 * i + 2)?, 16).ok())
                .collect();
            files.push(CaseFile {
                name: f["name"].as_str().unwrap_or("c06.roto").to_string(),
                module: f["module"].as_str().unwrap_or("pkg").to_string(),
                parent: f["parent"].as_u64().map(|x| x as usize),
                src: String::from_utf8(bytes?).ok()?,
            });
        }
        if files.is_empty() {
            return None;
        }
        Some(Case { kind: v["kind"].as_str().unwrap_or("replay").to_string(), files, expect_cycle: None })
    }
    pub fn preview(&self) -> String {
        self.files[0].src.chars().take(120).collect()
    }
}

// ------------------------------------------------------------------- seeds

/// Valid (or deliberately invalid) programs harvested from the repository
/// under test: every `*.roto` file and every `src!(…)` / `source_file!(…)`
/// string in the crate's tests.
pub struct Seeds {
    pub programs: Vec<String>,
}

fn unescape_rust(s: &str) -> String {
    let mut out = String::new();
    let mut it = s.chars().peekable();
    while let Some(c) = it.next() {
        if c != '\\' {
            out.push(c);
            continue;
        }
        match it.next() {
            Some('n') => out.push('\n'),
            Some('t') => out.push('\t'),
            Some('r') => out.push('\r'),
            Some('0') => out.push('\0'),
            Some('\\') => out.push('\\'),
            Some('"') => out.push('"'),
            Some('\'') => out.push('\''),
            Some('\n') => {
                while it.peek().is_some_and(|c| c.is_whitespace()) {
                    it.next();
                }
            }
            Some(o) => {
                out.push('\\');
                out.push(o);
            }
            None => out.push('\\'),
        }
    }
    out
}

/// string literals that directly follow `marker` (`src!(` …) in Rust source
fn harvest(text: &str, marker: &str, skip_first_arg: bool, out: &mut Vec<String>) {
    let mut at = 0;
    while let Some(i) = text[at..].find(marker) {
        let mut j = at + i + marker.len();
        at = j;
        let b = text.as_bytes();
        let skip_ws = |j: &mut usize| {
            while *j < b.len() && (b[*j] as char).is_whitespace() {
                *j += 1;
            }
        };
        skip_ws(&mut j);
        let read_lit = |j: &mut usize| -> Option<String> {
            if *j >= b.len() {
                return None;
            }
            if b[*j] == b'"' {
                let start = *j + 1;
                let mut k = start;
                while k < b.len() && b[k] != b'"' {
                    if b[k] == b'\\' {
                        k += 1;
                    }
                    k += 1;
                }
                if k >= b.len() {
                    return None;
                }
                *j = k + 1;
                Some(unescape_rust(&text[start..k]))
            } else if text[*j..].starts_with("r#\"") {
                let start = *j + 3;
                let k = text[start..].find("\"#")? + start;
                *j = k + 2;
                Some(text[start..k].to_string())
            } else {
                None
            }
        };
        if skip_first_arg {
            if read_lit(&mut j).is_none() {
                continue;
            }
            skip_ws(&mut j);
            if j < b.len() && b[j] == b',' {
                j += 1;
            }
            skip_ws(&mut j);
        }
        if let Some(s) = read_lit(&mut j) {
            if !s.trim().is_empty() {
                out.push(s);
            }
        }
    }
}

fn walk(dir: &std::path::Path, f: &mut dyn FnMut(&std::path::Path)) {
    let Ok(rd) = std::fs::read_dir(dir) else { return };
    let mut es: Vec<_> = rd.flatten().map(|e| e.path()).collect();
    es.sort();
    for p in es {
        if p.is_dir() {
            if p.file_name().is_some_and(|n| n == "target" || n == ".git") {
                continue;
            }
            walk(&p, f);
        } else {
            f(&p);
        }
    }
}

impl Seeds {
    pub fn load() -> Seeds {
        let repo = std::env::var("ROTO_REPO").unwrap_or_else(|_| "/repo".into());
        let mut programs = vec![];
        walk(std::path::Path::new(&repo), &mut |p| {
            let ext = p.extension().and_then(|e| e.to_str()).unwrap_or("");
            if ext == "roto" {
                if let Ok(s) = std::fs::read_to_string(p) {
                    programs.push(s);
                }
            } else if ext == "rs" && p.to_string_lossy().contains("/src/") {
                if let Ok(s) = std::fs::read_to_string(p) {
                    harvest(&s, "src!(", false, &mut programs);
                    harvest(&s, "source_file!(", true, &mut programs);
                }
            }
        });
        programs.extend(BUILTIN_SEEDS.iter().map(|s| s.to_string()));
        programs.retain(|s| s.len() < 6000);
        Seeds { programs }
    }
}

/// programs that exercise constructs the property's statement names
const BUILTIN_SEEDS: &[&str] = &[
    "fn main() { let x = []; x.push(x); }",
    "fn main() -> i32 { match (return 1) { _ => 2 } }",
    "fn main() { Option.None.x; }",
    "record A { x: A? }\nfn main(a: A) {}",
    "record A { xs: List[A] }\nfn main(a: A) {}",
    "fn main(a: Result[i32, !], b: Result[i32, !]) -> bool { a == b }",
    "fn main() -> String { let é = \"ü€😀\"; f\"é={é} {{}} {1 + 2}\" }",
    "enum E[T] { X(T), Y }\nrecord R[T] { a: T, b: E[T] }\nfn main(r: R[i32]) -> i32 { match r.b { X(v) => v, Y => r.a } }",
    "fn f(x: i32) -> i32? { if x > 0 { Option.Some(x) } else { Option.None } }\nfn main() -> i32 { let y = f(1)?; y }",
    "filtermap main(x: u32) { if x == 1 { accept x } else { reject } }",
    "const K: i32 = 4;\nfn main() -> i32 { let s = 0; for i in [1, 2, K] { s = s + i; } while s > 100 { s -= 1; } s }",
    "test t { if 1 + 1 != 2 { reject; } accept }",
    "fn main() -> bool { 1.1.1.1 == 1.1.1.1 && ::1 != 2001:db8::1 && AS1 == AS1 && 10.0.0.0/8.contains(10.1.1.1) }",
];

// ---------------------------------------------------------------- alphabet

pub const KEYWORDS: &[&str] = &[
    "accept", "const", "dep", "else", "enum", "filter", "filtermap", "for", "fn", "if", "import", "in", "let",
    "match", "pkg", "record", "reject", "return", "std", "super", "test", "while", "true", "false",
    "loop", "struct", "class", "use", "switch", "var", "function", "def",
];
pub const PUNCT: &[&str] = &[
    "==", "!=", "&&", "||", ">=", "<=", "->", "=>", "+=", "-=", "*=", "/=", "%=", "/*", "--", "=", "|", "-", ":", ";",
    ",", ".", "+", "*", "/", "!", "{", "}", "?", "[", "]", "(", ")", "<", ">", "%", "#", "&", "@", "$", "~", "^", "`", "\\",
];
pub const LITERALS: &[&str] = &[
    "0", "1", "42", "10u8", "255u8", "256u8", "1_000", "99999999999999999999999", "0x1F", "0x", "0xg", "1.5", "1e10", "10.", "10..",
    "1.f", "1._x", "1e", "1e+", "1.5f32", "3i64", "2.5e-3f64", "1.2.3.4", "1.2.3.4/24", "1.2.3.", "999.999.999.999", "::1", "::",
    "2001:db8::/32", "a:b:", "ff::ff:", "AS65000", "AS", "AS99999999999", "'a'", "'\\n'", "'é'", "'\\u{1F600}'", "''", "'ab'", "'",
    "\"str\"", "\"\"", "\"é\\u{1F600}\\n\"", "\"\\q\"", "\"unterminated", "\"a\\\"b\"", "f\"a{x}b\"", "f\"{", "f\"}\"", "f\"{{}}\"", "f\"\\u{41}{1}\"",
    "f\"é{f\"ü{1}\"}€\"", "f\"\\u\"", "f\"\\", "f\"{x", "f\"{ {a: 1}.a }\"", "f\"",
];
pub const IDENTS: &[&str] = &[
    "x", "y", "main", "foo", "é", "名前", "_", "_a", "a1", "ª", "i32", "u8", "u64", "f32", "bool", "String", "Option",
    "Result", "List", "Verdict", "IpAddr", "Prefix", "Asn", "Some", "None", "Ok", "Err", "push", "len", "new", "T", "Self",
];
pub const SPACE: &[&str] = &[" ", "  ", "\n", "\t", "\r\n", "\u{a0}", "\u{2028}", "\u{3000}", "// c\n", "// é", "/* c */", "#!x\n", "\u{feff}"];
/// characters for character-level insertion: 1–4 byte encodings; XID start /
/// continue-only / neither; Unicode white space; quotes, braces, backslash
pub const CHARS: &[char] = &[
    'é', 'ü', 'ß', 'ª', 'λ', 'Ж', '名', '前', '€', '→', '😀', '🦀', '\u{301}', '\u{200d}', '\u{a0}', '\u{2028}', '\u{85}',
    '\u{feff}', '\u{0}', '\u{7f}', '"', '\'', '{', '}', '\\', '\n', '/', '.', ':', 'f', 'u', '0', 'A', 'S', 'x', '_', '(', ')', '[', ']',
];

fn any_token(p: &mut Prng) -> String {
    match p.below(10) {
        0 | 1 => p.pick(KEYWORDS).to_string(),
        2 | 3 | 4 => p.pick(PUNCT).to_string(),
        5 | 6 => p.pick(LITERALS).to_string(),
        7 | 8 => p.pick(IDENTS).to_string(),
        _ => p.pick(CHARS).to_string(),
    }
}

fn random_tokens(p: &mut Prng) -> String {
    let n = 1 + p.below(60);
    let mut s = String::new();
    for _ in 0..n {
        s.push_str(&any_token(p));
        if p.chance(4, 5) {
            s.push_str(*p.pick(SPACE));
        }
    }
    s
}

// --------------------------------------------------------------- mutations

/// (text, gap-after) pieces of a source according to the real lexer's spans
fn pieces(src: &str) -> Vec<String> {
    let toks = std::panic::catch_unwind(|| lex_all(src)).unwrap_or_default();
    let mut out = vec![];
    let mut at = 0usize;
    for (k, s, e) in toks {
        if k == "FStringNone" || s < at || e > src.len() || !src.is_char_boundary(s) || !src.is_char_boundary(e) {
            continue;
        }
        if s > at {
            out.push(src[at..s].to_string());
        }
        if e > s {
            out.push(src[s..e].to_string());
        }
        at = e.max(at);
    }
    if at < src.len() && src.is_char_boundary(at) {
        out.push(src[at..].to_string());
    }
    out
}

fn mutate_tokens(p: &mut Prng, src: &str) -> String {
    let mut ps = pieces(src);
    if ps.is_empty() {
        return any_token(p);
    }
    let n = 1 + p.below(3);
    for _ in 0..n {
        if ps.is_empty() {
            break;
        }
        let i = p.below(ps.len() as u64) as usize;
        match p.below(6) {
            0 => {
                ps.remove(i);
            }
            1 => {
                let t = ps[i].clone();
                ps.insert(i, t);
            }
            2 => {
                let j = p.below(ps.len() as u64) as usize;
                ps.swap(i, j);
            }
            3 => ps[i] = any_token(p),
            4 => ps.insert(i, any_token(p)),
            _ => {
                // move a piece from elsewhere
                let j = p.below(ps.len() as u64) as usize;
                let t = ps[j].clone();
                ps.insert(i, t);
            }
        }
    }
    ps.concat()
}

fn mutate_chars(p: &mut Prng, src: &str) -> String {
    let mut cs: Vec<char> = src.chars().collect();
    let n = 1 + p.below(3);
    for _ in 0..n {
        let len = cs.len() as u64;
        match p.below(6) {
            0 => {
                let i = p.below(len + 1) as usize;
                cs.insert(i, *p.pick(CHARS));
            }
            1 if len > 0 => {
                cs.remove(p.below(len) as usize);
            }
            2 if len > 0 => {
                let i = p.below(len) as usize;
                cs[i] = *p.pick(CHARS);
            }
            3 if len > 0 => {
                cs.truncate(p.below(len) as usize);
            }
            4 if len > 1 => {
                let a = p.below(len) as usize;
                let b = (a + 1 + p.below(12) as usize).min(cs.len());
                let sl: Vec<char> = cs[a..b].to_vec();
                let i = p.below(len) as usize;
                for (k, c) in sl.into_iter().enumerate() {
                    cs.insert(i + k, c);
                }
            }
            _ => {
                let i = p.below(len + 1) as usize;
                cs.insert(i, *p.pick(CHARS));
            }
        }
    }
    cs.into_iter().collect()
}

/// replace ASCII identifiers / string contents by Unicode ones
fn unicodify(p: &mut Prng, src: &str) -> String {
    let ps = pieces(src);
    let names = ["é", "名前", "λx", "ªb", "ü_1", "Ж", "x\u{301}"];
    let mut map: Vec<(String, String)> = vec![];
    let mut out = String::new();
    for t in ps {
        let is_ident = t.chars().next().is_some_and(|c| c.is_ascii_lowercase())
            && t.chars().all(|c| c.is_ascii_alphanumeric() || c == '_')
            && !KEYWORDS.contains(&t.as_str())
            && !IDENTS.contains(&t.as_str());
        if is_ident && t.len() <= 8 {
            let r = match map.iter().find(|(a, _)| *a == t) {
                Some((_, b)) => b.clone(),
                None => {
                    let b = if p.chance(1, 2) { format!("{}{}", p.pick(&names), map.len()) } else { t.clone() };
                    map.push((t.clone(), b.clone()));
                    b
                }
            };
            out.push_str(&r);
        } else if t.starts_with('"') && t.len() >= 2 && p.chance(1, 2) {
            out.push_str(&format!("\"{}é€😀{}", &t[1..t.len() - 1], "\""));
        } else {
            out.push_str(&t);
        }
    }
    out
}

// --------------------------------------------------- grammar-based programs

struct G<'a> {
    p: &'a mut Prng,
    /// maximal nesting depth of this program
    max: u32,
}

const TYPES: &[&str] = &[
    "i32", "u8", "u64", "i64", "f64", "bool", "String", "char", "Asn", "IpAddr", "Prefix", "()", "!", "i32?", "String?",
    "List[i32]", "List[String]", "Option[bool]", "Result[i32, String]", "Verdict[i32, String]", "R", "E", "G[i32]", "{a: i32, b: String}",
];

impl G<'_> {
    fn ty(&mut self) -> String {
        self.p.pick(TYPES).to_string()
    }
    fn var(&mut self) -> String {
        self.p.pick(&["a", "b", "x", "y", "r", "e", "s", "xs", "é"]).to_string()
    }
    fn lit(&mut self) -> String {
        self.p
            .pick(&[
                "0", "1", "255", "1000u8", "1.5", "true", "false", "\"s\"", "'c'", "AS1", "1.1.1.1", "::1", "10.0.0.0/8", "()",
                "[]", "[1, 2]", "\"é\"", "f\"a{1}\"", "Option.None", "0xff", "2.0f32",
            ])
            .to_string()
    }
    fn expr(&mut self, d: u32) -> String {
        if d == 0 || self.p.chance(1, 4) {
            return if self.p.chance(1, 2) { self.var() } else { self.lit() };
        }
        let d = d - 1;
        match self.p.below(22) {
            0 | 1 => format!("({} {} {})", self.expr(d), self.p.pick(&["+", "-", "*", "/", "%", "==", "!=", "<", "<=", ">", ">=", "&&", "||"]), self.expr(d)),
            2 => format!("(!{})", self.expr(d)),
            3 => format!("(-{})", self.expr(d)),
            4 => format!("if {} {{ {} }} else {{ {} }}", self.expr(d), self.expr(d), self.expr(d)),
            5 => format!("if {} {{ {} }}", self.expr(d), self.stmts(d)),
            6 => format!(
                "match {} {{ Some(v) => {}, None => {}, }}",
                self.expr(d),
                self.expr(d),
                self.expr(d)
            ),
            7 => format!(
                "match {} {{ X(v) | Z(v) if {} => {}, Y => {}, _ => {} }}",
                self.expr(d),
                self.expr(0),
                self.expr(d),
                self.expr(d),
                self.expr(0)
            ),
            8 => format!("{}.{}", self.expr(d), self.p.pick(&["a", "b", "x", "len", "0"])),
            9 => format!("{}.{}({})", self.expr(d), self.p.pick(&["push", "len", "get", "contains", "to_string", "eq", "a"]), self.expr(d)),
            10 => format!("f({}, {})", self.expr(d), self.expr(d)),
            11 => format!("{{ {} {} }}", self.stmts(d), self.expr(d)),
            12 => format!("R {{ a: {}, b: {} }}", self.expr(d), self.expr(d)),
            13 => format!("{{ a: {}, b: {} }}", self.expr(d), self.expr(d)),
            14 => format!("[{}, {}]", self.expr(d), self.expr(d)),
            15 => format!("{}?", self.expr(d)),
            16 => format!("f\"a{{{}}}b{{{}}}\"", self.expr(d), self.expr(0)),
            17 => format!("{} {}", self.p.pick(&["return", "accept", "reject"]), self.expr(d)),
            18 => format!("E.X({})", self.expr(d)),
            19 => format!("Option.Some({})", self.expr(d)),
            20 => format!("while {} {{ {} }}", self.expr(d), self.stmts(d)),
            _ => format!("for {} in {} {{ {} }}", self.var(), self.expr(d), self.stmts(d)),
        }
    }
    fn stmts(&mut self, d: u32) -> String {
        let n = self.p.below(3);
        let mut s = String::new();
        for _ in 0..n {
            match self.p.below(6) {
                0 => s.push_str(&format!("let {} = {}; ", self.var(), self.expr(d))),
                1 => s.push_str(&format!("let {}: {} = {}; ", self.var(), self.ty(), self.expr(d))),
                2 => s.push_str(&format!("{} = {}; ", self.var(), self.expr(d))),
                3 => s.push_str(&format!("{} {} {}; ", self.var(), self.p.pick(&["+=", "-=", "*=", "/=", "%="]), self.expr(d))),
                4 => s.push_str(&format!("{}.{} = {}; ", self.var(), self.p.pick(&["a", "b"]), self.expr(d))),
                _ => s.push_str(&format!("{}; ", self.expr(d))),
            }
        }
        s
    }
    fn program(&mut self) -> String {
        let mut s = String::new();
        if self.p.chance(1, 2) {
            s.push_str(&format!("record R {{ a: {}, b: {} }}\n", self.ty(), self.ty()));
        }
        if self.p.chance(1, 2) {
            s.push_str(&format!("enum E {{ X({}), Y, Z({}, {}) }}\n", self.ty(), self.ty(), self.ty()));
        }
        if self.p.chance(1, 3) {
            s.push_str("enum G[T] { P(T), Q }\n");
        }
        if self.p.chance(1, 4) {
            s.push_str(&format!("const K: {} = {};\n", self.ty(), self.expr(2)));
        }
        if self.p.chance(1, 4) {
            s.push_str("import E.{X, Y};\n");
        }
        let d = self.max;
        let n = 1 + self.p.below(3);
        for i in 0..n {
            let name = if i == 0 { "main".to_string() } else { format!("f{}", if i == 1 { "".to_string() } else { i.to_string() }) };
            let head = match self.p.below(8) {
                0 => format!("filtermap {name}"),
                1 => format!("filter {name}"),
                _ => format!("fn {name}"),
            };
            let ret = if self.p.chance(2, 3) { format!(" -> {}", self.ty()) } else { String::new() };
            let ret = if head.starts_with("fn") { ret } else { String::new() };
            s.push_str(&format!(
                "{head}({}: {}, {}: {}){ret} {{ {} {} }}\n",
                self.var(),
                self.ty(),
                "b",
                self.ty(),
                self.stmts(d.min(3)),
                self.expr(d)
            ));
        }
        if self.p.chance(1, 6) {
            s.push_str(&format!("test t {{ {} accept }}\n", self.stmts(2)));
        }
        s
    }
}

/// deeply (≤ 64) nested expression of one shape
fn nested(p: &mut Prng) -> String {
    let depth = 1 + p.below(64) as usize;
    let (open, close, core): (&str, &str, &str) = *p.pick(&[
        ("(", ")", "1"),
        ("[", "]", "1"),
        ("{ ", " }", "1"),
        ("-", "", "1"),
        ("!", "", "true"),
        ("if true { ", " } else { 0 }", "1"),
        ("f(", ")", "1"),
        ("Option.Some(", ")", "1"),
        ("f\"{", "}\"", "1"),
        ("match x { _ => ", " }", "1"),
        ("(1 + ", ")", "1"),
        ("{ let x = ", "; x }", "1"),
        ("x.f(", ")", "1"),
        ("{a: ", "}", "1"),
        ("while false { ", " }", "1;"),
        ("List[", "]", "i32"),
    ]);
    let e = format!("{}{}{}", open.repeat(depth), core, close.repeat(depth));
    if open == "List[" {
        format!("fn f(a: {e}) {{}}\nfn main() {{}}")
    } else if p.chance(1, 6) {
        // chains rather than nests
        let op = *p.pick(&[" + 1", ".a", "?", " && true", ".f()", " == 1"]);
        format!("fn f(x: i32) -> i32 {{ x }}\nfn main() {{ let x = 1; x{}; }}", op.repeat(depth))
    } else {
        format!("fn f(x: i32) -> i32 {{ x }}\nfn main() {{ let x = 1; {e}; }}")
    }
}

// ------------------------------------------------------------ module trees

fn module_tree(p: &mut Prng, seeds: &Seeds) -> Case {
    let names = ["foo", "bar", "é", "pkg", "super", "a1", "mod"];
    let mut files = vec![CaseFile { name: "pkg.roto".into(), module: "pkg".into(), parent: None, src: String::new() }];
    let n = 1 + p.below(4) as usize;
    for i in 0..n {
        let parent = if i > 0 && p.chance(1, 3) { 1 + p.below(i as u64) as usize } else { 0 };
        let m = if p.chance(1, 8) { p.pick(&names).to_string() } else { names[i % 3].to_string() + &"x".repeat(i / 3) };
        let body = match p.below(4) {
            0 => format!("fn {}(x: i32) -> i32 {{ 2 * x }}\n", p.pick(&["bar", "double", "f"])),
            1 => "import super.double;\nfn quadruple(x: i32) -> i32 { double(double(x)) }\n".to_string(),
            2 => { let sd = p.pick(&seeds.programs[..]).clone(); mutate_tokens(p, &sd) }
            _ => format!("record T{i} {{ a: i32 }}\nfn mk() -> T{i} {{ T{i} {{ a: 1 }} }}\nfn é() {{ € }}\n"),
        };
        // file names are paths on disk, hence unique; module names may collide
        files.push(CaseFile { name: format!("d{i}/{m}.roto"), module: m, parent: Some(parent), src: body });
    }
    let mut root = String::new();
    for f in files.iter().skip(1) {
        if p.chance(2, 3) {
            root.push_str(&format!(
                "import {}.{};\n",
                f.module,
                p.pick(&["bar", "double", "quadruple", "mk", "f", "T1", "{bar, f}", "nope", "super"])
            ));
        }
    }
    root.push_str(match p.below(4) {
        0 => "fn main(x: i32) -> i32 { bar(x) }\nfn double(x: i32) -> i32 { 2 * x }\n",
        1 => "fn main(x: i32) -> i32 { foo.bar(x) + pkg.double(x) }\nfn double(x: i32) -> i32 { 2 * x }\n",
        2 => "fn main(x: i32) -> i32 { import foo.bar; bar(x) }\n",
        _ => "fn main() { let t = mk(); t.a; }\n",
    });
    if p.chance(1, 5) {
        root = mutate_chars(p, &root);
    }
    files[0].src = root;
    Case { kind: "module-tree".into(), files, expect_cycle: None }
}

// ------------------------------------------------------------ type decls

/// A set of type declarations (generic records / enums referring to each
/// other, to `Option`, `List` and `i32`), as source and in the encoding of the
/// Lean driver's `c06 cycle` request. Definitions 0..2 of the model are
/// `Option`, `List`, `i32`; user types follow in declaration order. The order
/// in which the checker iterates its hash map is unknown: the model is asked
/// with declaration order (the verdict does not depend on it — theorem
/// `cycle_verdict_order_free` would be needed to rely on that; the diff
/// checks it empirically).
pub fn type_decls(p: &mut Prng) -> (String, String, String) {
    let n = 1 + p.below(4) as usize;
    let arity: Vec<usize> = (0..n).map(|_| if p.chance(1, 3) { 1 } else { 0 }).collect();
    fn ty(p: &mut Prng, n: usize, arity: &[usize], has_param: bool, d: u32) -> (String, String) {
        let k = p.below(if d == 0 { 3 } else { 8 });
        match k {
            0 => ("i32".into(), "n2()".into()),
            1 if has_param => ("T".into(), "v0".into()),
            1 | 2 => {
                let i = p.below(n as u64) as usize;
                if arity[i] == 0 {
                    (format!("U{i}"), format!("n{}()", i + 3))
                } else {
                    let (a, b) = if d == 0 { ("i32".to_string(), "n2()".to_string()) } else { ty(p, n, arity, has_param, d - 1) };
                    (format!("U{i}[{a}]"), format!("n{}({b})", i + 3))
                }
            }
            3 | 4 => {
                let (a, b) = ty(p, n, arity, has_param, d - 1);
                (format!("Option[{a}]"), format!("n0({b})"))
            }
            5 => {
                let (a, b) = ty(p, n, arity, has_param, d - 1);
                (format!("List[{a}]"), format!("n1({b})"))
            }
            6 => {
                let (a, b) = ty(p, n, arity, has_param, d - 1);
                (format!("{{f: {a}}}"), format!("r({b})"))
            }
            _ => {
                let (a, b) = ty(p, n, arity, has_param, d - 1);
                (format!("{a}?"), format!("n0({b})"))
            }
        }
    }
    let mut src = String::new();
    let mut defs = vec!["Fv0".to_string(), "L".to_string(), "O".to_string()];
    for i in 0..n {
        let params = if arity[i] == 1 { "[T]" } else { "" };
        let nf = 1 + p.below(2);
        let mut fs = vec![];
        let mut enc = String::from("F");
        for _ in 0..nf {
            let (a, b) = ty(p, n, &arity, arity[i] == 1, 2);
            fs.push(a);
            enc.push_str(&b);
        }
        if arity[i] == 1 && !enc.contains("v0") {
            // an unused type parameter: still declared, to see what the checker says
        }
        if p.chance(1, 2) {
            let body: Vec<String> = fs.iter().enumerate().map(|(j, t)| format!("f{j}: {t}")).collect();
            src.push_str(&format!("record U{i}{params} {{ {} }}\n", body.join(", ")));
        } else {
            let body: Vec<String> = fs.iter().enumerate().map(|(j, t)| format!("V{j}({t})")).collect();
            src.push_str(&format!("enum U{i}{params} {{ {}, W }}\n", body.join(", ")));
        }
        defs.push(enc);
    }
    src.push_str("fn main() {}\n");
    let order: Vec<String> = (0..n + 3).map(|i| i.to_string()).collect();
    (src, defs.join(";"), order.join(","))
}

// ------------------------------------- random members of the boundary classes

/// a random member of the class `boundary::long_tokens` draws its
/// representatives from: any token kind, character width, alignment, length
/// 49..=200 (sometimes much longer), any place; sometimes two long tokens
fn long_token_case(p: &mut Prng) -> Case {
    let kind = *p.pick(boundary::TOKEN_KINDS);
    let w = 1 + p.below(4) as usize;
    let a = p.below(w as u64 + 2) as usize;
    let len = if p.chance(1, 10) { 200 + p.below(2000) as usize } else { 49 + p.below(152) as usize };
    let tok = boundary::token(kind, w, a, len);
    let pi = p.below(boundary::PLACES.len() as u64) as usize;
    let mut src = boundary::place(pi, &tok);
    if p.chance(1, 4) {
        src = mutate_chars(p, &src);
    }
    Case::single("long-token", src)
}

/// a random nest of type constructors around a variable that is then bound
/// into itself (class of `boundary::cyclic_types`)
fn cyclic_type_case(p: &mut Prng) -> Case {
    const W: &[(&str, &str)] = &[
        ("[", "]"), ("Option.Some(", ")"), ("{ inner: ", " }"), ("{ d: 1, inner: ", " }"), ("W { inner: ", " }"),
        ("W2 { f: { inner: ", " }, n: 1 }.f"), ("E.X(", ")"), ("E2.P(1, ", ")"), ("[", "].get(0)"), ("(", ")"),
        ("{ ", " }"), ("if true { ", " } else { [] }"),
    ];
    let vars = ["x", "y", "z"];
    let n = 1 + p.below(3) as usize;
    let mut body = String::new();
    for v in &vars[..n] {
        body.push_str(&match p.below(4) {
            0 => format!("let {v} = Option.None; "),
            1 => format!("let {v} = {{ inner: [] }}; "),
            _ => format!("let {v} = []; "),
        });
    }
    let steps = 1 + p.below(4);
    for _ in 0..steps {
        let tgt = vars[p.below(n as u64) as usize];
        let mut e = vars[p.below(n as u64) as usize].to_string();
        for _ in 0..p.below(4) {
            let (a, b) = *p.pick(W);
            e = format!("{a}{e}{b}");
        }
        body.push_str(&match p.below(7) {
            0 => format!("{tgt} = {e}; "),
            1 => format!("{tgt} == {e}; "),
            2 => format!("{tgt}.inner.push({e}); "),
            3 => format!("let r = {e}; {tgt}.push(r); "),
            4 => format!("{tgt} = Option.Some({e}); "),
            _ => format!("{tgt}.push({e}); "),
        });
    }
    let decls = boundary::decls_for(&body);
    Case::single("cyclic-type attempt", format!("{decls}fn main() {{ {body}}}\n"))
}

// ----------------------------------------------------------------- dispatch

pub fn generate(p: &mut Prng, seeds: &Seeds) -> Case {
    // search mode after a broken obligation about the type checker's error paths: only the classes that reach them
    if std::env::var("C06_FOCUS").as_deref() == Ok("typeerrors") {
        return match p.below(8) {
            0 | 1 | 2 => typeerrors::random_degenerate(p),
            3 | 4 | 5 => typeerrors::random_method_receiver(p),
            6 => {
                let max = 1 + p.below(5) as u32;
                let mut g = G { p, max };
                Case::single("grammar (untyped)", g.program())
            }
            _ => cyclic_type_case(p),
        };
    }
    // search mode after a broken obligation about literal decoding / error-span arithmetic: only that class
    if std::env::var("C06_FOCUS").as_deref() == Ok("escapes") {
        return escapes::random_case(p);
    }
    match p.below(24) {
        20 => long_token_case(p),
        21 => cyclic_type_case(p),
        22 => typeerrors::random_degenerate(p),
        23 => typeerrors::random_method_receiver(p),
        0 | 1 | 2 => Case::single("random-tokens", random_tokens(p)),
        3 | 4 | 5 | 6 => {
            let s = p.pick(&seeds.programs[..]).clone();
            Case::single("seed+token-mutation", mutate_tokens(p, &s))
        }
        7 | 8 | 9 => {
            let s = p.pick(&seeds.programs[..]).clone();
            Case::single("seed+char-mutation", mutate_chars(p, &s))
        }
        10 => {
            let s = p.pick(&seeds.programs[..]).clone();
            Case::single("seed+unicode-identifiers", unicodify(p, &s))
        }
        11 => {
            // splice two seeds at piece granularity
            let a = pieces(p.pick::<String>(&seeds.programs[..]).as_str());
            let b = pieces(p.pick::<String>(&seeds.programs[..]).as_str());
            let i = p.below(a.len() as u64 + 1) as usize;
            let j = p.below(b.len() as u64 + 1) as usize;
            Case::single("seed-splice", format!("{}{}", a[..i].concat(), b[j..].concat()))
        }
        12 | 13 | 14 => {
            let max = 1 + p.below(5) as u32;
            let mut g = G { p, max };
            Case::single("grammar (untyped)", g.program())
        }
        15 => {
            let max = 1 + p.below(4) as u32;
            let s = G { p: &mut *p, max }.program();
            Case::single("grammar+mutation", if p.chance(1, 2) { mutate_tokens(p, &s) } else { mutate_chars(p, &s) })
        }
        16 => Case::single("nested<=64", nested(p)),
        17 => Case::single("seed (unchanged)", p.pick(&seeds.programs[..]).clone()),
        // error spans computed by offset arithmetic over decoded pieces (brace escapes x escape errors x non-ASCII)
        19 => escapes::random_case(p),
        _ => module_tree(p, seeds),
    }
}
