//! C06 — parser differential: the real recursive-descent parser
//! (`Parser::parse(0, &mut spans, src)`, hook `parse_probe`) against the Lean
//! model of the parser (driver request `c06 parse`).
//!
//! Both sides print ONE line per source text (SPEC §1):
//!
//!     ok <sexp> | <spans>
//!     err <Kind> <start> <end> <hint> | <spans>
//!     panic <text>                      (real side only)
//!
//! Request (SPEC §2): `c06 parse <hex source | -> <char flag table | -> <lits | ->`.
//! The source and the flag table are those of `c06 lex`. `<lits>` carries the
//! verdict of the REAL literal decoders for every literal token / non-empty
//! f-string text part (`L:<start>:<stop>:-`, `L:<start>:<stop>:<Kind>:<a>:<b>`,
//! `F:…`), pre-filled from the real token stream; when the model reaches a
//! literal the table has no verdict for it answers `need L|F <start> <stop>`,
//! the verdict is computed (hook `literal_verdict`), appended, and the request
//! is sent again (at most `MAX_ROUNDS` times).
//!
//! `bad-op` = the driver has no parser model (yet): counted, not a mismatch,
//! unless `C06_PARSE_STRICT=1`.

use crate::generate::Case;
use roto::verif_hooks::c06::{char_flags, escape_range, escaper_decoded, f_string_part_decoded, lex_all, literal_verdict_rel as literal_verdict, parse_probe, parse_signature_probe};
use rotov_harness::Report;
use rotov_harness::driver::{Driver, hex};
use serde_json::json;
use std::cell::RefCell;
use std::collections::BTreeMap;
use std::panic::{AssertUnwindSafe, catch_unwind};

pub const MAX_ROUNDS: usize = 200;

pub type Tok = (String, usize, usize);

pub fn strict() -> bool {
    std::env::var("C06_PARSE_STRICT").map(|v| v == "1").unwrap_or(false)
}

/// The character flag table of `c06 lex`: every distinct character of the
/// source with a non-zero flag set, `<hex code point>:<flags>`, sorted.
pub fn flag_table(src: &str) -> String {
    let mut cps: Vec<char> = src.chars().collect();
    cps.sort();
    cps.dedup();
    let table = cps
        .iter()
        .filter(|c| char_flags(**c) != 0)
        .map(|c| format!("{:x}:{}", *c as u32, char_flags(*c)))
        .collect::<Vec<_>>()
        .join(",");
    if table.is_empty() { "-".to_string() } else { table }
}

fn in_source(src: &str, s: usize, e: usize) -> bool {
    s <= e && e <= src.len() && src.is_char_boundary(s) && src.is_char_boundary(e)
}

/// One table entry: `<L|F>:<start>:<stop>:<verdict>`; `Err` when the real
/// decoder panicked.
fn lit_entry(src: &str, kind: char, s: usize, e: usize) -> Result<String, String> {
    let v = literal_verdict(kind, &src[s..e], s);
    if v.starts_with("panic") {
        return Err(v);
    }
    Ok(format!("{kind}:{s}:{e}:{v}"))
}

/// Which decoder (if any) the parser runs on a token of this kind.
fn lit_kind(kind: &str, s: usize, e: usize) -> Option<char> {
    match kind {
        "String" | "Char" | "Hex" | "Asn" | "IpV4" | "IpV6" => Some('L'),
        k if k.starts_with("Integer:") || k.starts_with("Float:") => Some('L'),
        "FStringEnd" | "FStringMid" if s < e => Some('F'),
        _ => None,
    }
}

/// The pre-filled literal table of a source, from its real token stream.
pub fn literal_table(src: &str, toks: &[Tok]) -> Result<Vec<String>, String> {
    let mut out = Vec::new();
    for (k, s, e) in toks {
        if let Some(kind) = lit_kind(k, *s, *e) {
            if in_source(src, *s, *e) {
                out.push(lit_entry(src, kind, *s, *e)?);
            }
        }
    }
    Ok(out)
}

#[derive(Clone, Debug, PartialEq)]
pub enum Verdict {
    /// both lines are the same
    Equal,
    /// the model answered with a line (or `panic` / `fuel` / …) that differs
    Different,
    /// the driver answered `bad-op`: it has no parser model
    Unavailable,
    /// no Lean driver in this process
    NoDriver,
    /// the exchange itself failed (driver died, too many `need` rounds, a
    /// `need` outside the source): a model-side failure
    ModelFailed(String),
    /// the real parser (or a real literal decoder) panicked
    RealPanic,
}

pub struct Diff {
    pub real: String,
    pub model: String,
    pub rounds: usize,
    pub lits: Vec<String>,
    pub verdict: Verdict,
}

fn ask_guarded(drv: &mut Driver, req: &str) -> Result<String, String> {
    match catch_unwind(AssertUnwindSafe(|| drv.ask(req))) {
        Ok(a) => Ok(a),
        Err(_) => {
            let (_, msg) = crate::take_panic();
            // a dead driver would fail every later request of this worker
            if let Ok(d) = Driver::spawn() {
                *drv = d;
            }
            Err(format!("driver died: {}", msg.chars().take(80).collect::<String>()))
        }
    }
}

/// An escape error in an f-string text part: instead of the absolute location
/// the real parser reports, hand the model the escaper's OWN range, relative to
/// the piece it was run on. The pieces are the MODEL's (`c06 fpieces`): the real
/// escaper is run on each of them in order (hook `escape_range`), the first
/// fatal error gives `F:<s>:<e>:<Kind>:rel:<j>:<a>:<b>`. If the model cut the
/// text differently from `unescape_f_string_part`, the location it computes
/// from this differs from the real one and the comparison fails. Anything
/// unexpected leaves the entry as it is (absolute).
fn refine_f_entry(src: &str, entry: String, drv: &mut Driver) -> String {
    let w: Vec<&str> = entry.split(':').collect();
    let ("F", Ok(s), Ok(e)) = (w[0], w.get(1).map_or(Err(()), |x| x.parse::<usize>().map_err(|_| ())),
        w.get(2).map_or(Err(()), |x| x.parse::<usize>().map_err(|_| ()))) else { return entry };
    if w.len() != 6 || !in_source(src, s, e) {
        return entry;
    }
    let kind = w[3];
    let text = &src[s..e];
    let Ok(ans) = ask_guarded(drv, &format!("c06 fpieces {}", hex(text))) else { return entry };
    let Some(list) = ans.trim_end().strip_prefix("pieces ") else { return entry };
    for (j, pq) in list.split(',').enumerate() {
        let Some((p, q)) = pq.split_once(':') else { return entry };
        let (Ok(p), Ok(q)) = (p.parse::<usize>(), q.parse::<usize>()) else { return entry };
        if !in_source(text, p, q) {
            return entry;
        }
        if let Some((a, b)) = escape_range(&text[p..q]) {
            return format!("F:{s}:{e}:{kind}:rel:{j}:{a}:{b}");
        }
    }
    entry
}

/// Run the differential on one single-file source text.
pub fn diff_source(src: &str, toks: Option<&[Tok]>, drv: Option<&mut Driver>) -> Diff {
    crate::stage("parse-real");
    let real = parse_probe(src);
    let mut d = Diff { real, model: String::new(), rounds: 0, lits: Vec::new(), verdict: Verdict::NoDriver };
    if d.real.starts_with("panic") {
        d.verdict = Verdict::RealPanic;
        return d;
    }
    let Some(drv) = drv else { return d };
    let own;
    let toks = match toks {
        Some(t) => t,
        None => {
            own = catch_unwind(AssertUnwindSafe(|| lex_all(src))).unwrap_or_else(|_| {
                let _ = crate::take_panic();
                Vec::new()
            });
            &own[..]
        }
    };
    // `C06_PARSE_NO_PREFILL=1` (debugging): start from an empty table, so that
    // every verdict is fetched through a `need` round
    let no_prefill = std::env::var("C06_PARSE_NO_PREFILL").is_ok_and(|v| v == "1");
    match if no_prefill { Ok(Vec::new()) } else { literal_table(src, toks) } {
        Ok(l) => d.lits = l,
        Err(p) => {
            d.real = p;
            d.verdict = Verdict::RealPanic;
            return d;
        }
    }
    crate::stage("parse-model");
    d.lits = std::mem::take(&mut d.lits).into_iter().map(|l| refine_f_entry(src, l, drv)).collect();
    let h = if src.is_empty() { "-".to_string() } else { hex(src) };
    let flags = flag_table(src);
    loop {
        d.rounds += 1;
        let lits = if d.lits.is_empty() { "-".to_string() } else { d.lits.join(",") };
        let ans = match ask_guarded(drv, &format!("c06 parse {h} {flags} {lits}")) {
            Ok(a) => a,
            Err(why) => {
                d.model = why.clone();
                d.verdict = Verdict::ModelFailed("driver-died".into());
                return d;
            }
        };
        let ans = ans.trim_end().to_string();
        if let Some(rest) = ans.strip_prefix("need ") {
            let w: Vec<&str> = rest.split_whitespace().collect();
            let parsed = match w.as_slice() {
                [k @ ("L" | "F"), s, e] => match (s.parse::<usize>(), e.parse::<usize>()) {
                    (Ok(s), Ok(e)) if in_source(src, s, e) => Some((k.chars().next().unwrap(), s, e)),
                    _ => None,
                },
                _ => None,
            };
            let Some((k, s, e)) = parsed else {
                d.model = ans;
                d.verdict = Verdict::ModelFailed("bad-need".into());
                return d;
            };
            let prefix = format!("{k}:{s}:{e}:");
            if d.lits.iter().any(|l| l.starts_with(&prefix)) {
                // asked for a verdict it was already given
                d.model = ans;
                d.verdict = Verdict::ModelFailed("need-repeated".into());
                return d;
            }
            if d.rounds >= MAX_ROUNDS {
                d.model = ans;
                d.verdict = Verdict::ModelFailed("need-rounds".into());
                return d;
            }
            match lit_entry(src, k, s, e) {
                Ok(l) => {
                    let l = refine_f_entry(src, l, drv);
                    d.lits.push(l)
                }
                Err(p) => {
                    d.real = p;
                    d.model = ans;
                    d.verdict = Verdict::RealPanic;
                    return d;
                }
            }
            continue;
        }
        d.verdict = if ans == "bad-op" {
            Verdict::Unavailable
        } else if ans == d.real.trim_end() {
            Verdict::Equal
        } else {
            Verdict::Different
        };
        d.model = ans;
        return d;
    }
}

/// `ok` / the error Kind / `panic` of a §1 line (anything else: first word).
pub fn outcome_of(line: &str) -> String {
    let mut w = line.split_whitespace();
    match (w.next(), w.next()) {
        (Some("err"), Some(k)) => k.to_string(),
        (Some(a), _) => a.to_string(),
        _ => "empty".to_string(),
    }
}

fn word_of(line: &str) -> String {
    let mut w = line.split_whitespace();
    match (w.next(), w.next()) {
        (Some("err"), Some(k)) => format!("err:{k}"),
        (Some(a), _) => a.chars().take(24).collect(),
        _ => "empty".to_string(),
    }
}

/// A short stable key for a pair of different lines:
/// `parse-diff <real>/<model>[ tree|location|spans]`.
pub fn diff_key(real: &str, model: &str) -> String {
    let (rw, mw) = (word_of(real), word_of(model));
    let mut key = format!("parse-diff {rw}/{mw}");
    if rw == mw {
        let head = |l: &str| l.split(" | ").next().unwrap_or("").to_string();
        key.push_str(if head(real) != head(model) {
            if rw == "ok" { " tree" } else { " location" }
        } else {
            " spans"
        });
    }
    key
}

fn clip(s: &str) -> String {
    if s.len() <= 1200 {
        return s.to_string();
    }
    let mut e = 1200;
    while !s.is_char_boundary(e) {
        e -= 1;
    }
    format!("{}… ({} bytes)", &s[..e], s.len())
}

thread_local! {
    /// mismatches already reported by this worker, per key
    static REPORTED: RefCell<BTreeMap<String, u32>> = const { RefCell::new(BTreeMap::new()) };
}

fn push_mismatch(rep: &mut Report, key: &str, src: &str, d: &Diff, idx: u64) {
    rep.hist("parse_mismatch", key.to_string());
    let n = REPORTED.with(|r| {
        let mut r = r.borrow_mut();
        let n = r.entry(key.to_string()).or_insert(0);
        *n += 1;
        *n
    });
    if n > 3 || rep.model_mismatches.len() >= 200 {
        return;
    }
    let first_diff = d.real.bytes().zip(d.model.bytes()).take_while(|(a, b)| a == b).count();
    rep.model_mismatches.push(json!({
        "what": "parser: Lean model vs real parser",
        "key": key,
        "input": src,
        "hex": hex(src),
        "real": clip(&d.real),
        "model": clip(&d.model),
        "first_difference_at": first_diff,
        "rounds": d.rounds,
        "index": idx,
    }));
}

/// `Parser::parse_signature` (src/parser/signature.rs: `fn[T, …](type, …) -> type`) against the
/// model's `c06 parsesig`, on a text that starts with `fn` (every such input of the differential,
/// and the signature representatives). No literal is ever decoded by `signature`.
fn run_signature(src: &str, drv: &mut Driver, rep: &mut Report, input: &serde_json::Value, idx: u64) {
    crate::stage("parsesig-real");
    let real = parse_signature_probe(src);
    if real.starts_with("panic") {
        crate::viol(
            rep,
            &format!("parse_signature panicked: {}", real.chars().take(160).collect::<String>()),
            "panic in parse_signature",
            input.clone(),
        );
        return;
    }
    crate::stage("parse-model");
    let h = if src.is_empty() { "-".to_string() } else { hex(src) };
    let mut d = Diff { real, model: String::new(), rounds: 1, lits: Vec::new(), verdict: Verdict::Equal };
    match ask_guarded(drv, &format!("c06 parsesig {h} {}", flag_table(src))) {
        Ok(a) => d.model = a.trim_end().to_string(),
        Err(why) => {
            d.model = why;
            rep.hist("parsesig_model", "failed: driver-died");
            push_mismatch(rep, "parsesig-diff driver-died", src, &d, idx);
            return;
        }
    }
    if d.model == "bad-op" {
        rep.hist("parsesig_model", "bad-op (no signature model in the driver)");
        if strict() {
            push_mismatch(rep, "parsesig-diff model-unavailable (bad-op)", src, &d, idx);
        }
        return;
    }
    rep.evaluations += 1;
    rep.hist("parsesig_outcome", outcome_of(&d.real));
    if d.model == d.real.trim_end() {
        rep.hist("parsesig_model", "equal");
    } else {
        rep.hist("parsesig_model", "different");
        let key = diff_key(&d.real, &d.model).replace("parse-diff", "parsesig-diff");
        push_mismatch(rep, &key, src, &d, idx);
    }
}

/// Every non-empty f-string text part of the source: the text the REAL `unescape_f_string_part` decodes it to (hook
/// `f_string_part_decoded`) against the text rebuilt from the MODEL's pieces (`c06 fpieces`) — each piece decoded by
/// the escaper alone (hook `escaper_decoded`), joined by the brace that stands at the end of the piece. This ties the
/// model's scan (`uScan`: what is a brace escape, what is skipped as an escape) to the real one on texts that DECODE;
/// the location comparison of `diff_source` ties it on texts that do not.
fn check_f_decoded(src: &str, toks: &[Tok], drv: &mut Driver, rep: &mut Report, idx: u64) {
    for (k, s, e) in toks {
        if lit_kind(k, *s, *e) != Some('F') || !in_source(src, *s, *e) {
            continue;
        }
        let text = &src[*s..*e];
        let Ok(real) = f_string_part_decoded(text) else {
            rep.hist("fpieces_model", "real side panicked");
            continue;
        };
        let Ok(ans) = ask_guarded(drv, &format!("c06 fpieces {}", hex(text))) else {
            rep.hist("fpieces_model", "failed: driver-died");
            continue;
        };
        let Some(list) = ans.trim_end().strip_prefix("pieces ") else {
            rep.hist("fpieces_model", format!("no answer: {}", ans.trim_end().chars().take(20).collect::<String>()));
            continue;
        };
        let ranges: Vec<(usize, usize)> = list
            .split(',')
            .filter_map(|pq| pq.split_once(':'))
            .filter_map(|(p, q)| Some((p.parse().ok()?, q.parse().ok()?)))
            .collect();
        let mut shape_ok = ranges.len() == list.split(',').count() && !ranges.is_empty();
        let mut model = Some(String::new());
        for (j, (p, q)) in ranges.iter().enumerate() {
            if !in_source(text, *p, *q) {
                shape_ok = false;
                break;
            }
            match (escaper_decoded(&text[*p..*q]), model.as_mut()) {
                (Some(d), Some(m)) => m.push_str(&d),
                _ => model = None,
            }
            if j + 1 < ranges.len() {
                // a brace escape stands between this piece and the next one
                let mut it = text[*q..].chars();
                match (it.next(), it.next()) {
                    (Some(a), Some(b)) if a == b && (a == '{' || a == '}') => {
                        if let Some(m) = model.as_mut() {
                            m.push(a);
                        }
                    }
                    _ => {
                        shape_ok = false;
                        break;
                    }
                }
            }
        }
        if shape_ok && real == model {
            rep.hist("fpieces_model", if real.is_some() { "equal (decodes)" } else { "equal (escape error)" });
            rep.evaluations += 1;
        } else {
            rep.hist("fpieces_model", "different");
            if rep.model_mismatches.len() < 200 {
                rep.mismatch(
                    "f-string text part: the text unescape_f_string_part decodes vs the text rebuilt from the Lean model's pieces",
                    json!({"key": "fpieces-diff", "input": src, "hex": hex(src), "text": text, "pieces": list,
                           "real": format!("{real:?}"), "model": format!("{model:?}"), "index": idx}),
                );
            }
        }
    }
}

/// Run the differential on one source and fold the result into the report.
pub fn run_one(src: &str, toks: Option<&[Tok]>, mut drv: Option<&mut Driver>, rep: &mut Report, input: &serde_json::Value, idx: u64) -> Diff {
    if src.trim_start().starts_with("fn") {
        if let Some(drv) = drv.as_deref_mut() {
            run_signature(src, drv, rep, input, idx);
        }
    }
    if let (Some(t), Some(drv)) = (toks, drv.as_deref_mut()) {
        check_f_decoded(src, t, drv, rep, idx);
    }
    let d = diff_source(src, toks, drv);
    let outcome = outcome_of(&d.real);
    rep.hist("parse_outcome", outcome.clone());
    let compared = match &d.verdict {
        Verdict::Equal => {
            rep.hist("parse_model", "equal");
            true
        }
        Verdict::Different => {
            rep.hist("parse_model", "different");
            push_mismatch(rep, &diff_key(&d.real, &d.model), src, &d, idx);
            true
        }
        Verdict::Unavailable => {
            rep.hist("parse_model", "bad-op (no parser model in the driver)");
            if strict() {
                push_mismatch(rep, "parse-diff model-unavailable (bad-op)", src, &d, idx);
            }
            false
        }
        Verdict::NoDriver => {
            rep.hist("parse_model", "no-driver");
            false
        }
        Verdict::ModelFailed(why) => {
            rep.hist("parse_model", format!("failed: {why}"));
            push_mismatch(rep, &format!("parse-diff {why}"), src, &d, idx);
            true
        }
        Verdict::RealPanic => {
            rep.hist("parse_model", "real side panicked");
            crate::viol(
                rep,
                &format!("the parser panicked: {}", d.real.chars().take(160).collect::<String>()),
                "panic in parser",
                input.clone(),
            );
            false
        }
    };
    if compared {
        // one more oracle evaluation on this input, and its class: the kinds
        // of the first 12 tokens + the parse outcome
        rep.evaluations += 1;
        rep.hist("parse_rounds", format!("{:>3}", d.rounds.min(99)));
        let sig: String = match toks {
            Some(t) => t.iter().take(12).map(|t| crate::short_kind(&t.0)).collect(),
            None => String::new(),
        };
        rep.class(format!("parse:{sig}|{outcome}"));
    }
    d
}

// ------------------------------------------------------- representatives

const FULL: &str = "fn main(x: i32) -> i32 { if x == 1 { [1, 2] } else { {a: 1} } }";

/// Seed-independent class representatives of the parser differential: one
/// minimal accepted program per construct of the grammar and one minimal
/// rejected program per error site of src/parser/{mod,expr,filter_map}.rs.
pub fn representative_sources() -> Vec<String> {
    let mut v: Vec<String> = Vec::new();
    let mut top = |s: &str| v.push(s.to_string());

    // ---- accepted: declarations
    for s in [
        "",
        " \n\t",
        "fn f() {}",
        "fn f(x: i32) {}",
        "fn f(x: i32, y: u8,) {}",
        "fn f() -> i32 { 1 }",
        "filtermap m() { accept }",
        "filter m(x: u32) { reject }",
        "const A: i32 = 1;",
        "record R {}",
        "record R { a: i32 }",
        "record R { a: i32, b: u8, }",
        "record R[T] { a: T }",
        "record R[T, U,] { a: T }",
        "record R[] {}",
        "enum E {}",
        "enum E { A }",
        "enum E { A, B(i32), C(i32, u8,), }",
        "enum E[T] { A(T) }",
        "enum E { A() }",
        "test t {}",
        "import a;",
        "import a.b.c;",
        "import pkg.a;",
        "import super.super.a;",
        "import dep.a.b;",
        "import a.{b, c};",
        "import a.{b.{c, d}, e};",
        "import {a, b};",
        "import a; fn f() {} const A: u8 = 2; record R {} enum E {} test t {} filter g() {}",
        // shebang, comments
        "#!/usr/bin/env roto\nfn f() {}",
        "#!shebang only",
        "// c\nfn f() {} // d",
        "fn f() { // c\n 1 // d\n }",
        "// only a comment",
        // types
        "fn f(x: i32?) {}",
        "fn f(x: i32??) {}",
        "fn f(x: List[i32]) {}",
        "fn f(x: Map[a.b, c?,]) {}",
        "fn f(x: List[]) {}",
        "fn f(x: !) -> ! {}",
        "fn f(x: ()) -> () {}",
        "fn f(x: {}) {}",
        "fn f(x: {a: i32}) {}",
        "fn f(x: {a: i32, b: {c: u8}?,}) {}",
        "fn f(x: a.b.c) {}",
        "fn f(x: pkg.T, y: super.T, z: dep.d.T) {}",
        "fn f() -> {} {}",
    ] {
        top(s);
    }
    // ---- accepted: statements and expressions, inside `fn f() { … }`
    for b in [
        "let x = 1;",
        "let x: i32 = 1;",
        "let x: List[i32?] = [];",
        "1;",
        "1",
        "1; 2; 3",
        "import a;",
        "import a.{b, c}; b",
        "if a {}",
        "if a {} 1",
        "if a {}; 1",
        "if a {} else {}",
        "if a {} else if b {} else {}",
        "if a { 1 } else { 2 }",
        "if {} {}",
        "let x = if a { 1 } else { 2 };",
        "match a {}",
        "match a {} match b {}",
        "match a {}; 1",
        "match a { _ => 1 }",
        "match a { A => 1, B(x) => 2, C(x, y,) => { 3 } D() => 4, _ if x => 5, }",
        "match a { A => { 1 }, B => { 2 } }",
        "match a { A if x == 1 => 1, _ => 2 }",
        "while a {}",
        "while a {} 1",
        "while a { x = x + 1; };",
        "for x in a {}",
        "for x in [1, 2] { y += x; } y",
        "return",
        "return;",
        "return 1",
        "return -1;",
        "return if a { 1 } else { 2 }",
        "accept",
        "accept 1",
        "reject",
        "reject \"no\";",
        // literals
        "1u8",
        "1_000i64",
        "1.0",
        "1.5f32",
        "1f64",
        "1e5",
        "0x1f",
        "AS1",
        "AS4294967295",
        "1.2.3.4",
        "::1",
        "2001:db8::1",
        "\"s\"",
        "\"a\\n\\t\\\\\\\"\\u{1F600}\\x41\"",
        "\"\"",
        "'c'",
        "'\\n'",
        "true",
        "false",
        "()",
        "(1)",
        "((1))",
        // blocks, records, lists
        "{}",
        "{ 1 }",
        "{ a }",
        "{ a; }",
        "{a: 1}",
        "{a: 1, b: {c: 2},}",
        "R {a: 1}",
        "a.b {}",
        "R {a: 1, b: 2,}",
        "[]",
        "[1]",
        "[1, 2,]",
        "[[1], []]",
        // unary
        "!a",
        "-a",
        "- -a",
        "!-a",
        "-1",
        // assignment
        "a = 1",
        "a.b.c = 1;",
        "a += 1",
        "a -= 1;",
        "a *= 1;",
        "a /= 1;",
        "a %= 1;",
        "a.b += 1",
        "a = b == c",
        // binary operators and precedence
        "a && b",
        "a || b",
        "a == b",
        "a != b",
        "a < b",
        "a <= b",
        "a > b",
        "a >= b",
        "a + b",
        "a - b",
        "a * b",
        "a / b",
        "a % b",
        "1 + 2 * 3",
        "1 * 2 + 3",
        "1 - 2 - 3",
        "a == b && c != d",
        "a && b && c",
        "a || b || c",
        "a && (b || c)",
        "(a < b) < c",
        "a + b == c - d",
        "-a * !b",
        // postfix
        "a?",
        "a??",
        "f()",
        "f(1)",
        "f(1, 2,)",
        "a.b",
        "a.b()",
        "f().b",
        "(a).b",
        "f()?.b.c(1)?",
        "a.b.c().d",
        "std",
        // f-strings
        "f\"\"",
        "f\"a\"",
        "f\"{1}\"",
        "f\"a{1}b\"",
        "f\"{1}{2}\"",
        "f\"a{1}b{2}c\"",
        "f\"{f\"{1}\"}\"",
        "f\"x{f\"y{f\"z\"}\"}w\"",
        "f\"{{}}\"",
        "f\"{{{1}}}\"",
        "f\"{ {a: 1}.a }\"",
        "f\"{ R {a: 1} }\"",
        "f\"\\n{a}\\u{7b}\"",
        "f\"{a + b}\"; f\"{c}\"",
    ] {
        v.push(format!("fn f() {{ {b} }}"));
    }

    // ---- rejected: one per error site
    let mut top = |s: &str| v.push(s.to_string());
    for s in [
        // root fallback
        "1",
        "x",
        "let x = 1;",
        "}",
        "# c\nfn f() {}",
        "/* c */ fn f() {}",
        "-- c\nfn f() {}",
        "fn f() {} fn",
        "fn f() {} 1",
        // invalid tokens / the parser "got stuck"
        "€",
        "fn €",
        "fn f() {} €",
        "fn f() {} @",
        "fn f( €",
        "fn f() €",
        "fn f() -> € {}",
        "fn f() { € }",
        "fn f() { return € }",
        "fn f() { match a { € } }",
        "fn f() { \"abc }",
        "fn f() { 'a }",
        "fn f() { a & b }",
        "fn f() { a | b }",
        // const
        "const",
        "const 1",
        "const A",
        "const A 1",
        "const A:",
        "const A: i32",
        "const A: i32 1",
        "const A: i32 =",
        "const A: i32 = 1",
        "const A: i32 = 1 }",
        "const if: i32 = 1;",
        // function
        "fn",
        "fn 1",
        "fn if",
        "fn f",
        "fn f {",
        "fn f(",
        "fn f(x",
        "fn f(x:",
        "fn f(x: i32",
        "fn f(x: i32 y",
        "fn f(x: i32,, y: u8) {}",
        "fn f(,) {}",
        "fn f() ->",
        "fn f() -> {}",
        "fn f() -> i32",
        "fn f() -> i32 1",
        // test
        "test",
        "test t",
        "test 1 {}",
        "test t()",
        // import
        "import",
        "import a",
        "import a.",
        "import a.1;",
        "import a.{",
        "import a.{b",
        "import a.{b c};",
        "import a.{};",
        "import a.{b}.c;",
        "import std.x;",
        "import fn;",
        // filtermap / filter
        "filtermap",
        "filtermap 1",
        "filter f",
        "filter f()",
        "filter f() 1",
        "filter f() -> i32 {}",
        // record declaration
        "record",
        "record R",
        "record R [",
        "record R[1] {}",
        "record R[T",
        "record R {a}",
        "record R {a: }",
        "record R {a: i32 b: u8}",
        "record R {1: i32}",
        "record R {a: i32",
        // enum declaration
        "enum",
        "enum E",
        "enum E[",
        "enum E {A(}",
        "enum E {A(1)}",
        "enum E {A B}",
        "enum E {A(i32}",
        "enum E {1}",
        // type expressions
        "fn f(x: 1) {}",
        "fn f(x: (i32)) {}",
        "fn f(x: (",
        "fn f(x: List[",
        "fn f(x: List[i32",
        "fn f(x: List[i32 u8]) {}",
        "fn f(x: a.) {}",
        "fn f(x: a.1) {}",
        "fn f(x: if) {}",
        "fn f(x: std.T) {}",
        "fn f(x: {a}) {}",
        "fn f(x: ?) {}",
        // almost keywords (hint span)
        "function f() {}",
        "def f() {}",
        "struct R {}",
        "def function() {}",
        "fn f() { var x = 1; }",
        "fn f() { use a; }",
        "fn f() { loop {} }",
        "fn f() { loop { 1 } }",
        "fn f() { switch a {} }",
        "fn f() { let data = 1; 1 2 }",
    ] {
        top(s);
    }
    for b in [
        // block
        "1 2",
        "let",
        "let 1 = 2;",
        "let x 1;",
        "let x = ;",
        "let x = 1",
        "let x: = 1;",
        "let x: i32 1;",
        "let if = 1;",
        ";",
        "if a {} else {} + 1",
        "return while a {}",
        // if / while / for
        "if",
        "if a",
        "if a {} else",
        "if a {} else 1",
        "if a { 1 } else if",
        "if R {a: 1} {}",
        "while",
        "while a",
        "for",
        "for 1 in a {}",
        "for x",
        "for x of a {}",
        "for x in",
        "for x in a",
        // match
        "match",
        "match a",
        "match a {",
        "match a { 1 => 2 }",
        "match a { A }",
        "match a { A => }",
        "match a { A => 1 B => 2 }",
        "match a { A( => 1 }",
        "match a { A(1) => 1 }",
        "match a { A(x y) => 1 }",
        "match a { A if => 1 }",
        "match a { A => 1,",
        "match a { A => { 1 }",
        "match a { _(x) => 1 }",
        // atoms
        "(",
        "(1",
        "(1 2)",
        "[",
        "[1",
        "[1 2]",
        "[,]",
        "{a: }",
        "{a: 1 b: 2}",
        "{a: 1,, }",
        "R {a}",
        "R { a: 1",
        "R {1: 2}",
        "f(",
        "f(1",
        "f(1 2)",
        "f(,)",
        "a.",
        "a.1",
        "f().1",
        "f().if",
        "a?.",
        "std.x",
        "--a",
        "a ! b",
        "=> 1",
        "else {}",
        "in",
        // chained / mixed operators
        "a < b < c",
        "a == b != c",
        "a <= b >= c",
        "a && b || c",
        "a || b && c",
        "a < b && c > d || e",
        "a < b == c",
        "a +",
        "a + * b",
        // assignment to a non-path
        "1 = 2",
        "f() = 1",
        "a = b = c",
        "1 += 2",
        "f().x += 1",
        "(a) -= 1",
        "a += ",
        "a = ",
        // invalid literals
        "999999999999999999999",
        "9223372036854775808",
        "1u9",
        "1i128",
        "1.0f16",
        "1.0u8",
        "0x",
        "0xffffffffffffffffff",
        "0xg",
        "AS99999999999",
        "AS4294967296",
        "AS",
        "1.2.3.999",
        "1.2.3",
        "1.2.3.4.5",
        "1::2::3::4::5::6::7::8::9",
        ":::1",
        "1__u8",
        "1e",
        // bad escapes
        "\"\\q\"",
        "\"ok\" + \"\\q\"",
        "\"\\u{110000}\"",
        "\"\\x80\"",
        "\"\\u{}\"",
        "\"a\\\"",
        "'ab'",
        "''",
        "'\\q'",
        "'\\u{D800}'",
        "f\"\\q{1}\"",
        "f\"{1}\\q\"",
        "f\"{{\\q\"",
        "f\"a{1}b\\x80{2}\"",
        "f\"\\u{7b}{\"",
        // unterminated / malformed f-strings
        "f\"abc",
        "f\"{1",
        "f\"{1\"",
        "f\"{ {\"",
        "f\"{",
        "f\"{}\"",
        "f\"{1 2}\"",
        "f\"a{1}b",
        "f\"{1}}\"",
        "f\"{f\"{1}\"",
        "f\"}\"",
        "f\"{1}",
    ] {
        v.push(format!("fn f() {{ {b} }}"));
    }
    // the same failures with nothing behind them (input ends at the error)
    for b in ["f\"abc", "f\"{1", "f\"{1\"", "f\"{ {\"", "\"abc", "return", "if", "let", "accept", "match a { A =>", "a.", "a +", "a = ", "!", "-"] {
        v.push(format!("fn f() {{ {b}"));
    }
    // ---- truncations of one complete program: after every token, and in
    // the middle of every token of more than one byte
    let toks = lex_all(FULL);
    for (_, s, e) in &toks {
        v.push(FULL[..*e].to_string());
        if e - s > 1 {
            v.push(FULL[..*s + 1].to_string());
        }
    }
    // ---- signatures (`Parser::parse_signature`; as programs they are rejected inputs): every
    // type form, type parameters, trailing commas, and truncations after every byte of one of them
    const SIG: &str = "fn[T, U](i32, List[T]?, {a: U, b: ()}, !, a.b.C[T, U]?,) -> Option[T]??";
    for b in [
        "fn()", "fn() -> ()", "fn(i32)", "fn(i32,)", "fn(i32, u8) -> bool", "fn[T](T) -> T", "fn[T,](T)", "fn[](T)",
        "fn[T, U](T, U) -> {a: T, b: U}", "fn(List[i32]) -> i32?", "fn(a.b.C)", "fn(pkg.a.B, super.C, dep.x.Y)",
        "fn({}) -> {}", "fn({a: i32,}) -> !", "fn(()) -> ()", "fn(T??)", "fn(List[List[T]?]?)", "fn(A[]) -> B[T,]",
        "fn", "fn(", "fn)", "fn[", "fn[T", "fn[T](", "fn(i32", "fn(i32 u8)", "fn(i32) ->", "fn(i32) -> ->", "fn(i32) i32",
        "fn(1)", "fn(fn)", "fn(std.X)", "fn(if)", "fn[1](T)", "fn[T U](T)", "fn(i32) -> i32 x", "fn(i32) -> i32 \u{20ac}",
        "fn(\u{20ac})", "fn({a i32})", "fn({a:})", "fn(()", "fn(( ))", "fn(!?) -> !?", "fn (i32)", "fn// c\n(i32)",
        "function(i32)", "fn(struct)", "fn(var, def)",
    ] {
        v.push(b.to_string());
    }
    for i in 0..=SIG.len() {
        if SIG.is_char_boundary(i) {
            v.push(SIG[..i].to_string());
        }
    }
    let mut seen = std::collections::BTreeSet::new();
    v.retain(|s| seen.insert(s.clone()));
    v
}

pub fn representatives() -> Vec<Case> {
    representative_sources().into_iter().map(|s| Case::single("parse-rep", s)).collect()
}
