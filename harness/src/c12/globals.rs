//! C12 share classes about the PROCESS-GLOBAL tables of the compiler (the
//! identifier interner behind `ast::Identifier`, the `TypeId` registry, any
//! other `static` a compilation or a registration touches).
//!
//! * `compile-race`  N barrier-synchronised threads parse + compile + call, at
//!   the same moment, scripts whose identifier texts are NEW TO THE PROCESS
//!   (generated per case / attempt / round; one worker process per case) and
//!   shared between the threads — the same script on every thread, scripts with
//!   overlapping name windows, or (variant `own-runtime`) every thread first
//!   builds a runtime of its own that registers functions under the same fresh
//!   names. Many names per script widen the window of a lost update in a
//!   get-or-insert table. Oracle (property: "also while other threads compile
//!   scripts … every call returns what the same call returns
//!   single-threaded"): the outcome of every concurrent compilation (compiled
//!   or not, the value of `main(x)`) equals the outcome of the same source
//!   compiled ALONE on one thread, which equals the closed form of the script.
//! * `multi-runtime` several runtimes in one process register the same Rust
//!   types under DIFFERENT Roto names / in different module scopes (the name a
//!   type has in one runtime denotes another type in the next one), built one
//!   after the other or on threads of their own at the same moment. Every
//!   runtime has functions and a constant whose Rust signatures mention the
//!   types. Oracle: every runtime behaves as if it were alone in a fresh
//!   process — scripts that are well-typed under THAT runtime's names compile
//!   and return the closed form, handles have the Rust signature the runtime
//!   declares, scripts that return one registered type where that runtime
//!   declares another are rejected.

use super::share::{Bad, Case, announce};
use roto::{Constant, FileTree, Function, Item, Library, Module, NoCtx, Runtime, Type, Val, location};
use roto::verif_hooks::c12::{Interned, intern};
use rotov_harness::Report;
use rotov_harness::driver::Driver;
use serde_json::{Value, json};
use std::collections::HashMap;
use std::sync::{Arc, Barrier};

fn short(e: impl std::fmt::Display) -> String {
    // without the colour escapes and the box drawing of the report
    let mut s = String::new();
    let mut esc = false;
    for ch in e.to_string().chars() {
        if esc {
            esc = ch != 'm';
        } else if ch == '\u{1b}' {
            esc = true;
        } else if ch == '\n' || (ch as u32 >= 0x2500 && ch as u32 <= 0x257f) {
            s.push(' ');
        } else {
            s.push(ch);
        }
    }
    let s: String = s.split_whitespace().collect::<Vec<_>>().join(" ");
    s.chars().take(240).collect()
}

// ------------------------------------------------------------ compile-race

const RACE_VARIANTS: [&str; 3] = ["same-script", "overlapping-names", "own-runtime"];

/// names `lo..hi` of round `tag`: helper functions, their parameters, the locals of `main`
fn race_script(tag: &str, lo: u64, hi: u64, ext: u64) -> String {
    let mut s = String::new();
    for k in lo..hi {
        s += &format!("fn hp_{tag}_{k}(pv_{tag}_{k}: u64) -> u64 {{\n    pv_{tag}_{k} + {k}\n}}\n\n");
    }
    s += "fn main(x: u64) -> u64 {\n";
    s += &format!("    let ac_{tag}_{lo} = hp_{tag}_{lo}(x);\n");
    for k in lo + 1..hi {
        s += &format!("    let ac_{tag}_{k} = hp_{tag}_{k}(ac_{tag}_{});\n", k - 1);
    }
    let mut last = format!("ac_{tag}_{}", hi - 1);
    for j in 0..ext {
        s += &format!("    let ax_{tag}_{j} = ex_{tag}_{j}({last});\n");
        last = format!("ax_{tag}_{j}");
    }
    s += &format!("    {last}\n}}\n");
    s
}

fn race_expected(lo: u64, hi: u64, ext: u64, x: u64) -> u64 {
    x + (lo..hi).sum::<u64>() + (0..ext).map(|j| 3 * j + 1).sum::<u64>()
}

/// a runtime that registers `ext` functions under names of round `tag`
fn race_runtime(tag: &str, ext: u64) -> Result<Runtime<NoCtx>, String> {
    let mut lib = Library::new();
    for j in 0..ext {
        let f = Function::new(format!("ex_{tag}_{j}"), "adds 3j+1", vec!["x"], move |x: u64| -> u64 { x + 3 * j + 1 }, location!())
            .map_err(|e| format!("Function::new: {}", short(e)))?;
        lib.add(Item::Function(f));
    }
    Runtime::from_lib(lib).map_err(|e| format!("Runtime::from_lib: {}", short(e)))
}

/// parse + compile + get + call; everything a compilation can end in, as a comparable value
fn compile_call(rt: &Runtime<NoCtx>, src: &str, x: u64) -> Result<u64, String> {
    let r = std::panic::catch_unwind(std::panic::AssertUnwindSafe(|| {
        let mut pkg = FileTree::test_file("race.roto", src, 0).compile(rt).map_err(|e| format!("compilation failed: {}", short(e)))?;
        let f = pkg.get_function::<fn(u64) -> u64>("main").map_err(|e| format!("get_function failed: {}", short(format!("{e:?}"))))?;
        Ok(f.call(x))
    }));
    match r {
        Ok(r) => r,
        Err(p) => Err(format!(
            "the compiler panicked: {}",
            p.downcast_ref::<String>().cloned().or_else(|| p.downcast_ref::<&str>().map(|s| s.to_string())).unwrap_or_default()
        )),
    }
}


/// The interner itself, through the hook `verif_hooks::c12::intern` (= `Identifier::from(&str)`,
/// what the parser and every registration function call): `n_threads` threads intern the same
/// `texts` fresh texts at the same moment, round after round (even rounds in the same order, odd
/// rounds each thread rotated). The observations `(text, identifier)` go to the VERIFIED checker
/// `Intern.consistent` in the Lean driver (`interner_observations_consistent`: every schedule of
/// the double-checked get-or-insert passes it); the text must round-trip.
fn intern_race(c: &Case, variant: &str, n_threads: usize, rep: &mut Report) {
    let rounds = (if c.thorough() { 60 } else { 24 }) * c.mult();
    let texts = 160u64;
    println!("PHASE {n_threads} threads intern {texts} fresh texts at the same moment, {rounds} rounds; observations to the verified checker");
    let barrier = Barrier::new(n_threads);
    let text_of = |round: u64, k: u64| format!("it{:x}i{}a{}r{}k{}", c.seed & 0xffff_ffff, c.index, c.attempt, round, k);
    let got: Vec<Vec<(u64, u64, Interned)>> = std::thread::scope(|s| {
        let hs: Vec<_> = (0..n_threads)
            .map(|t| {
                let barrier = &barrier;
                let text_of = &text_of;
                s.spawn(move || {
                    let mut out = Vec::with_capacity((rounds * texts) as usize);
                    for round in 0..rounds {
                        let names: Vec<(u64, String)> = (0..texts)
                            .map(|j| if round % 2 == 0 { j } else { (j + t as u64 * 7) % texts })
                            .map(|k| (k, text_of(round, k)))
                            .collect();
                        barrier.wait();
                        for (k, name) in &names {
                            out.push((round, *k, intern(name)));
                        }
                    }
                    out
                })
            })
            .collect();
        hs.into_iter().map(|h| h.join().unwrap_or_default()).collect()
    });
    // identifiers numbered by first occurrence; texts numbered by (round, k)
    let mut ids: HashMap<Interned, u64> = HashMap::new();
    let mut obs: Vec<(u64, u64)> = vec![];
    let mut round_trip_bad = vec![];
    for (t, per) in got.iter().enumerate() {
        for (round, k, id) in per {
            let n = ids.len() as u64;
            let i = *ids.entry(*id).or_insert(n);
            obs.push((round * texts + k, i));
            if id.text() != text_of(*round, *k) && round_trip_bad.len() < 5 {
                round_trip_bad.push(json!({"thread": t, "interned": text_of(*round, *k), "text_of_identifier": id.text()}));
            }
        }
    }
    rep.evaluations += obs.len() as u64;
    *rep.histograms.entry("concurrent".into()).or_default().entry("internings".into()).or_insert(0) += obs.len() as u64;
    obs.sort();
    obs.dedup();
    let mut drv = match Driver::spawn() {
        Ok(d) => d,
        Err(e) => {
            rep.mismatch("share compile-race: the Lean driver did not start", json!({"case": c.json(), "error": format!("{e}")}));
            return;
        }
    };
    let words: Vec<String> = obs.iter().map(|(k, i)| format!("{k}:{i}")).collect();
    let verdict = drv.ask(&format!("c12 intern {}", words.join(" ")));
    rep.hist("interner-checker", verdict.split(' ').next().unwrap_or("?"));
    if verdict.starts_with("inconsistent") || !round_trip_bad.is_empty() {
        // the first text with two identifiers, for the report
        let mut first: Option<Value> = None;
        for w in obs.windows(2) {
            if w[0].0 == w[1].0 {
                let (round, k) = (w[0].0 / texts, w[0].0 % texts);
                let holders = |i: u64| -> Vec<usize> {
                    got.iter().enumerate().filter(|(_, per)| per.iter().any(|(r, kk, id)| *r == round && *kk == k && ids.get(id) == Some(&i))).map(|(t, _)| t).collect()
                };
                first = Some(json!({"text": text_of(round, k), "identifiers": [w[0].1, w[1].1], "threads_holding_the_first": holders(w[0].1), "threads_holding_the_second": holders(w[1].1)}));
                break;
            }
        }
        let two = obs.windows(2).filter(|w| w[0].0 == w[1].0).count();
        rep.violation(
            "threads that interned the same new identifier text at the same moment hold DIFFERENT identifiers for it (the verified checker Intern.consistent rejects the observations made on the real interner): name resolution compares identifiers, so a declaration and its use no longer match",
            &format!("share-compile-race:interner-two-identifiers:{variant}"),
            json!({"case": c.json(), "observed": {"variant": variant, "threads": n_threads, "rounds": rounds, "texts_per_round": texts, "checker": verdict,
                   "texts_with_two_identifiers": two, "first": first, "text_round_trip": round_trip_bad}}),
        );
    } else if !verdict.starts_with("consistent") {
        rep.mismatch("share compile-race: the driver did not understand the interner observations", json!({"case": c.json(), "answer": verdict}));
    }
}

pub fn compile_race(c: &Case, rep: &mut Report) {
    let variant = RACE_VARIANTS[(c.index % 3) as usize];
    let n_threads = [6usize, 8, 4, 3][((c.index / 3) % 4) as usize];
    let names = [24u64, 40, 12][((c.index / 2) % 3) as usize];
    let rounds = (if c.thorough() { 100 } else { 40 }) * c.mult();
    let ext = if variant == "own-runtime" { 8 } else { 0 };
    let case = c.json();
    announce(&json!({"variant": variant, "threads": n_threads, "names_per_script": names * 3 + ext * 2, "rounds": rounds}));
    rep.hist("share-class", "compile-race");
    rep.hist("compile-race-variant", variant);
    // identifier texts nobody in this process has interned: the worker runs this one case
    let tag_of = |round: u64| format!("q{:x}i{}a{}r{}", c.seed & 0xffff_ffff, c.index, c.attempt, round);
    // the name window of thread t in a round
    let window = |t: usize| -> (u64, u64) {
        if variant == "overlapping-names" { ((t as u64 % 3) * (names / 3), (t as u64 % 3) * (names / 3) + names) } else { (0, names) }
    };
    println!("PHASE {n_threads} threads compile scripts with fresh shared identifiers, {rounds} barrier-synchronised rounds");
    let barrier = Arc::new(Barrier::new(n_threads));
    let shared_rt = Runtime::new();
    let outcomes: Vec<Vec<Result<u64, String>>> = std::thread::scope(|s| {
        let hs: Vec<_> = (0..n_threads)
            .map(|t| {
                let barrier = barrier.clone();
                let shared_rt = &shared_rt;
                let tag_of = &tag_of;
                let window = &window;
                s.spawn(move || {
                    let mut out = vec![];
                    for round in 0..rounds {
                        let tag = tag_of(round);
                        let (lo, hi) = window(t);
                        let src = race_script(&tag, lo, hi, ext);
                        barrier.wait();
                        let r = if ext > 0 {
                            // concurrent runtime construction: registration interns the same fresh names
                            match std::panic::catch_unwind(|| race_runtime(&tag, ext)) {
                                Ok(Ok(rt)) => compile_call(&rt, &src, round + t as u64),
                                Ok(Err(e)) => Err(e),
                                Err(_) => Err("registration panicked".to_string()),
                            }
                        } else if t % 2 == 0 {
                            compile_call(shared_rt, &src, round + t as u64)
                        } else {
                            compile_call(&Runtime::new(), &src, round + t as u64)
                        };
                        out.push(r);
                    }
                    out
                })
            })
            .collect();
        hs.into_iter().map(|h| h.join().unwrap_or_default()).collect()
    });
    println!("PHASE the same sources compiled alone on one thread");
    let bad = Bad::new();
    let mut n_bad = 0u64;
    let mut alone_bad = 0u64;
    for round in 0..rounds {
        let tag = tag_of(round);
        for t in 0..n_threads {
            let (lo, hi) = window(t);
            let x = round + t as u64;
            let src = race_script(&tag, lo, hi, ext);
            let closed: Result<u64, String> = Ok(race_expected(lo, hi, ext, x));
            // the oracle of the property: the same compilation + call on one thread
            let alone = if ext > 0 {
                race_runtime(&tag, ext).and_then(|rt| compile_call(&rt, &src, x))
            } else {
                compile_call(&Runtime::new(), &src, x)
            };
            rep.evaluations += 1;
            let got = outcomes[t].get(round as usize).cloned().unwrap_or_else(|| Err("the compiling thread died".into()));
            if alone != closed {
                alone_bad += 1;
                bad.push(json!({"round": round, "thread": t, "compiled_alone_after_the_race": format!("{alone:?}"), "closed_form": format!("{closed:?}"), "source": src}));
            } else if got != alone {
                n_bad += 1;
                bad.push(json!({"round": round, "thread": t, "concurrent": format!("{got:?}"), "compiled_alone": format!("{alone:?}"), "names": [lo, hi], "source": src}));
            }
        }
    }
    *rep.histograms.entry("concurrent".into()).or_default().entry("compilations".into()).or_insert(0) += rounds * n_threads as u64;
    let observed = bad.take();
    if n_bad > 0 {
        rep.violation(
            "a compilation that ran while other threads compiled scripts containing the same not-yet-seen identifiers ended differently from the same script compiled alone (compiling is not deterministic under concurrent use)",
            &format!("share-compile-race:outcome-differs:{variant}"),
            json!({"case": case, "observed": {"variant": variant, "threads": n_threads, "rounds": rounds, "differing_compilations": n_bad,
                   "of": rounds * n_threads as u64, "first": observed}}),
        );
    } else if alone_bad > 0 {
        rep.violation(
            "after concurrent compilations of scripts with shared fresh identifiers, the same script compiled alone on one thread no longer gives the value its text denotes (a process-global table was left inconsistent)",
            &format!("share-compile-race:alone-after-race-wrong:{variant}"),
            json!({"case": case, "observed": {"variant": variant, "threads": n_threads, "rounds": rounds, "wrong": alone_bad, "first": observed}}),
        );
    }
    intern_race(c, variant, n_threads, rep);
    rep.class(format!("share compile-race {variant} t={n_threads} names={names}"));
    rep.sample(json!({"case": case, "family": "compile-race", "variant": variant, "threads": n_threads, "rounds": rounds,
                      "names_per_script": names * 3 + ext * 2, "example_source": race_script(&tag_of(0), 0, 3, ext.min(1))}));
}

// ------------------------------------------------------------ multi-runtime

trait Pay: Clone + PartialEq + Send + Sync + std::fmt::Debug + 'static {
    const X: u64;
    const LOW: &'static str;
    fn new(v: u64) -> Self;
    fn get(&self) -> u64;
}

macro_rules! pay {
    ($t:ident, $x:expr, $low:expr) => {
        #[derive(Clone, PartialEq, Debug)]
        struct $t(u64);
        impl Pay for $t {
            const X: u64 = $x;
            const LOW: &'static str = $low;
            fn new(v: u64) -> Self {
                $t(v)
            }
            fn get(&self) -> u64 {
                self.0
            }
        }
    };
}
pay!(Pa, 0, "a");
pay!(Pb, 1, "b");
pay!(Pc, 2, "c");
pay!(Pd, 3, "d");

const N_TYPES: u64 = 4;
const POOL: [&str; 4] = ["Alpha", "Beta", "Gamma", "Delta"];
const LOWS: [&str; 4] = ["a", "b", "c", "d"];

/// what runtime `r` of a case calls Rust type `x`, and in which module (None = top level)
#[derive(Clone, Debug)]
struct Plan {
    r: u64,
    shift: u64,
    /// which of the four Rust types this runtime registers
    has: [bool; 4],
    /// registered inside `mod m<r>` instead of at the top level
    in_mod: [bool; 4],
}

impl Plan {
    fn name(&self, x: u64) -> &'static str {
        POOL[((x + self.shift) % N_TYPES) as usize]
    }
    fn path(&self, x: u64) -> String {
        if self.in_mod[x as usize] { format!("m{}.{}", self.r, self.name(x)) } else { self.name(x).to_string() }
    }
    fn mk_off(&self) -> u64 {
        1000 * (self.r + 1)
    }
    fn konst(&self, x: u64) -> u64 {
        7 * (self.r + 1) + x
    }
    fn json(&self) -> Value {
        let names: Vec<Value> = (0..N_TYPES).filter(|x| self.has[*x as usize]).map(|x| json!({"rust": format!("Val<P{}>", LOWS[x as usize]), "roto": self.path(x)})).collect();
        json!({"runtime": self.r, "types": names})
    }
}

fn add_type<T: Pay>(p: &Plan, top: &mut Library, module: &mut Module) -> Result<(), String> {
    let x = T::X;
    if !p.has[x as usize] {
        return Ok(());
    }
    let ty = Type::clone::<Val<T>>(p.name(x), "a host value", location!()).map_err(|e| format!("Type::clone: {}", short(e)))?;
    if p.in_mod[x as usize] {
        module.add(Item::Type(ty));
    } else {
        top.add(Item::Type(ty));
    }
    let off = p.mk_off();
    let mk = Function::new(format!("mk_{}", T::LOW), "make", vec!["v"], move |v: u64| -> Val<T> { Val(T::new(v + off)) }, location!())
        .map_err(|e| format!("Function::new: {}", short(e)))?;
    let get = Function::new(format!("get_{}", T::LOW), "read", vec!["t"], move |t: Val<T>| -> u64 { t.0.get() }, location!())
        .map_err(|e| format!("Function::new: {}", short(e)))?;
    let k = Constant::new(format!("K{}", T::LOW.to_uppercase()), "a constant host value", Val(T::new(p.konst(x))), location!())
        .map_err(|e| format!("Constant::new: {}", short(e)))?;
    top.add(Item::Function(mk));
    top.add(Item::Function(get));
    top.add(Item::Constant(k));
    Ok(())
}

fn build(p: &Plan) -> Result<Runtime<NoCtx>, String> {
    let mut top = Library::new();
    let mut module = Module::new(format!("m{}", p.r), "types of this runtime", location!()).map_err(|e| format!("Module::new: {}", short(e)))?;
    add_type::<Pa>(p, &mut top, &mut module)?;
    add_type::<Pb>(p, &mut top, &mut module)?;
    add_type::<Pc>(p, &mut top, &mut module)?;
    add_type::<Pd>(p, &mut top, &mut module)?;
    top.add(Item::Module(module));
    Runtime::from_lib(top).map_err(|e| format!("Runtime::from_lib: {}", short(e)))
}

/// one observation about a runtime: what was asked, what it must give alone, what it gave
struct Obs {
    what: String,
    source: String,
    expected: String,
    got: String,
}

fn compile(rt: &Runtime<NoCtx>, src: &str) -> Result<roto::Package<NoCtx>, String> {
    match std::panic::catch_unwind(std::panic::AssertUnwindSafe(|| FileTree::test_file("tenant.roto", src, 0).compile(rt).map_err(|e| short(e)))) {
        Ok(r) => r,
        Err(_) => Err("the compiler panicked (internal compiler error)".into()),
    }
}

fn typed_checks<T: Pay>(p: &Plan, rt: &Runtime<NoCtx>, v: u64, out: &mut Vec<Obs>) {
    let x = T::X;
    if !p.has[x as usize] {
        return;
    }
    let (path, low, up) = (p.path(x), T::LOW, T::LOW.to_uppercase());
    // (1) well-typed under this runtime's names: the type in an annotation, a parameter, a return type; functions and a constant that mention it
    let src = format!("fn pass(t: {path}) -> {path} {{\n    t\n}}\n\nfn main(v: u64) -> u64 {{\n    let t: {path} = mk_{low}(v);\n    get_{low}(pass(t)) + get_{low}(K{up})\n}}\n\nfn make(v: u64) -> {path} {{\n    mk_{low}(v)\n}}\n");
    let expected = v + p.mk_off() + p.konst(x);
    let got = match compile(rt, &src) {
        Err(e) => format!("rejected: {e}"),
        Ok(mut pkg) => {
            let a = match pkg.get_function::<fn(u64) -> u64>("main") {
                Ok(f) => format!("main({v}) = {}", f.call(v)),
                Err(e) => format!("main not retrievable: {}", short(format!("{e:?}"))),
            };
            let b = match pkg.get_function::<fn(u64) -> Val<T>>("make") {
                Ok(f) => format!("make({v}) = {}", f.call(v).0.get()),
                Err(e) => format!("make not retrievable as fn(u64) -> Val<P{low}>: {}", short(format!("{e:?}"))),
            };
            format!("{a}; {b}")
        }
    };
    out.push(Obs {
        what: format!("well-typed script over {path} = Val<P{low}>"),
        source: src,
        expected: format!("main({v}) = {expected}; make({v}) = {}", v + p.mk_off()),
        got,
    });
    // (2) ill-typed under this runtime's names: returns Val<T> where another registered type is declared
    for y in 0..N_TYPES {
        if y == x || !p.has[y as usize] {
            continue;
        }
        let other = p.path(y);
        let src = format!("fn main(v: u64) -> {other} {{\n    mk_{low}(v)\n}}\n");
        let got = match compile(rt, &src) {
            Err(_) => "rejected".to_string(),
            Ok(_) => format!("accepted: a function declared to return {other} returns Val<P{low}>"),
        };
        out.push(Obs { what: format!("ill-typed script: mk_{low} returned as {other}"), source: src, expected: "rejected".into(), got });
    }
}

fn observe(p: &Plan, rt: &Runtime<NoCtx>, v: u64) -> Vec<Obs> {
    let mut out = vec![];
    typed_checks::<Pa>(p, rt, v, &mut out);
    typed_checks::<Pb>(p, rt, v, &mut out);
    typed_checks::<Pc>(p, rt, v, &mut out);
    typed_checks::<Pd>(p, rt, v, &mut out);
    out
}

const MULTI_VARIANTS: [&str; 4] = ["sequential", "threads", "sequential-scopes", "threads-scopes"];

pub fn multi_runtime(c: &Case, rep: &mut Report) {
    let variant = MULTI_VARIANTS[(c.index % 4) as usize];
    let threaded = variant.starts_with("threads");
    let scopes = variant.ends_with("scopes");
    let mut prng = c.prng(9);
    let n_rt = if c.index < 4 { 2 + (c.index / 2) % 2 } else { 2 + prng.below(3) };
    let case = c.json();
    // class representatives (index < 4): runtime r shifts the name pool by r, so the name a type
    // has in runtime r denotes its neighbour in runtime r+1; all four types everywhere
    let plans: Vec<Plan> = (0..n_rt)
        .map(|r| {
            let mut has = [true; 4];
            let mut in_mod = [false; 4];
            let shift = if c.index < 4 {
                if scopes { 0 } else { r }
            } else {
                prng.below(N_TYPES)
            };
            for x in 0..4 {
                if c.index >= 4 && prng.chance(1, 4) {
                    has[x] = false;
                }
                if scopes {
                    // the same name, another module scope
                    in_mod[x] = if c.index < 4 { (r + x as u64) % 2 == 1 } else { prng.chance(1, 2) };
                }
            }
            if !has.iter().any(|h| *h) {
                has[0] = true;
            }
            Plan { r, shift, has, in_mod }
        })
        .collect();
    announce(&json!({"variant": variant, "runtimes": plans.iter().map(|p| p.json()).collect::<Vec<_>>()}));
    rep.hist("share-class", "multi-runtime");
    rep.hist("multi-runtime-variant", variant);
    let v0 = 3 + c.index;
    let results: Vec<Result<Vec<Obs>, String>> = if threaded {
        println!("PHASE {n_rt} threads build a runtime of their own at the same moment, then compile and call under it");
        let barrier = Barrier::new(n_rt as usize);
        std::thread::scope(|s| {
            let hs: Vec<_> = plans
                .iter()
                .map(|p| {
                    let barrier = &barrier;
                    s.spawn(move || {
                        barrier.wait();
                        let rt = build(p)?;
                        barrier.wait();
                        Ok(observe(p, &rt, v0 + p.r))
                    })
                })
                .collect();
            hs.into_iter().map(|h| h.join().unwrap_or_else(|_| Err("the thread of this runtime panicked".into()))).collect()
        })
    } else {
        println!("PHASE {n_rt} runtimes built one after the other, then compile and call under each (last built first)");
        let rts: Vec<Result<Runtime<NoCtx>, String>> = plans.iter().map(build).collect();
        let mut res: Vec<Option<Result<Vec<Obs>, String>>> = (0..n_rt).map(|_| None).collect();
        for (p, rt) in plans.iter().zip(rts.iter()).rev() {
            res[p.r as usize] = Some(match rt {
                Ok(rt) => Ok(observe(p, rt, v0 + p.r)),
                Err(e) => Err(e.clone()),
            });
        }
        res.into_iter().map(|r| r.unwrap()).collect()
    };
    let bad = Bad::new();
    let mut n_bad = 0u64;
    let mut confusion = false;
    for (p, r) in plans.iter().zip(results) {
        match r {
            Err(e) => {
                rep.evaluations += 1;
                n_bad += 1;
                bad.push(json!({"runtime": p.json(), "building_the_runtime_failed": e, "alone": "builds"}));
            }
            Ok(obs) => {
                for o in obs {
                    rep.evaluations += 1;
                    if o.got != o.expected {
                        n_bad += 1;
                        confusion |= o.got.starts_with("accepted");
                        bad.push(json!({"runtime": p.json(), "what": o.what, "alone_in_a_fresh_process": o.expected, "got": o.got, "source": o.source}));
                    }
                }
            }
        }
    }
    if n_bad > 0 {
        rep.violation(
            "a runtime did not behave as it does alone in a fresh process because other runtimes in the process register the same Rust types under other Roto names / scopes (what a compilation gives depends on other runtimes and on who registered first)",
            &format!("share-multi-runtime:{}:{variant}", if confusion { "ill-typed-script-accepted" } else { "outcome-differs" }),
            json!({"case": case, "observed": {"variant": variant, "runtimes": plans.iter().map(|p| p.json()).collect::<Vec<_>>(), "differing_observations": n_bad, "first": bad.take()}}),
        );
    }
    rep.class(format!("share multi-runtime {variant} n={n_rt}"));
    rep.sample(json!({"case": case, "family": "multi-runtime", "variant": variant, "runtimes": plans.iter().map(|p| p.json()).collect::<Vec<_>>()}));
}
