//! C12 "share" cases: state that the API lets safe Rust share between threads.
//!
//! Every case runs in its own worker process (`c12 worker share <class>
//! <seed> <index> <tier> <attempt>`), is deterministic from `(seed, index)`
//! except for thread timing, and demands exactly what the property states:
//!
//! * `swap-rust`      one `List<Val<Wide>>` and one `List<u64>` shared by
//!                    several threads (clones of the list and `&List`) that
//!                    swap pseudo-random overlapping indices, with sibling
//!                    operations (`contains`, `index`, `concat`, `len`, `push`
//!                    on a second list) mixed in and reader threads taking
//!                    `to_vec()` snapshots: list operations are atomic, so
//!                    every snapshot is a permutation of the initial elements,
//!                    every element is internally consistent, and after all
//!                    owners are dropped the live count is back at its baseline.
//! * `swap-script`    the same through compiled script functions called via
//!                    one shared handle on clones of one list.
//! * `refcount-storm` a registered closure (a `Function` item / a `library!`
//!                    closure) or a registered constant owning a drop-counting
//!                    token, while threads clone+drop the item, the runtime,
//!                    compile against the one shared runtime, call and drop:
//!                    no drop while any owner is alive, exactly one afterwards.
//! * `into-func`      `TypedFunc::into_func()` closures (NoCtx arity 0/1/2 and
//!                    a `Ctx<C>` one) keep working after another thread dropped
//!                    the package, the runtime and every other handle, also
//!                    while other threads churn JIT memory.

use super::Cx;
use roto::{Constant, Ctx, FileTree, Function, Item, Library, List, NoCtx, Package, RotoString, Runtime, TypedFunc, Val, library, location};
use rotov_harness::worker::{self, Ended};
use rotov_harness::{Prng, Report};
use serde_json::{Value, json};
use std::io::Write as _;
use std::sync::atomic::{AtomicBool, AtomicI64, AtomicU64, AtomicUsize, Ordering};
use std::sync::{Arc, Barrier, Mutex, mpsc};
use std::time::{Duration, Instant};

pub const CLASSES: [&str; 8] = ["swap-rust", "swap-script", "refcount-storm", "into-func", "frame-slots", "compile-race", "multi-runtime", "cross-thread-build"];

#[derive(Clone, Debug)]
pub struct Case {
    pub class: String,
    pub seed: u64,
    pub index: u64,
    pub tier: String,
    pub attempt: u32,
}

impl Case {
    pub fn json(&self) -> Value {
        json!({"kind": "share", "class": self.class, "seed": self.seed, "index": self.index, "tier": self.tier})
    }
    /// attempt k multiplies the rounds by 4^k (capped at 16: beyond that more
    /// independent attempts are worth more than longer ones)
    pub fn mult(&self) -> u64 {
        4u64.pow(self.attempt.min(2))
    }
    pub fn thorough(&self) -> bool {
        self.tier == "thorough"
    }
    pub fn prng(&self, salt: u64) -> Prng {
        Prng::for_case(self.seed ^ (0xC12_5A4E_0000 + salt), self.index)
    }
    fn thread_prng(&self, tid: usize) -> Prng {
        Prng::for_case(self.seed ^ 0x7412_EAD5, self.index * 64 + tid as u64)
    }
}

/// Collects at most five concrete observations of one kind.
pub struct Bad(Mutex<Vec<Value>>);

impl Bad {
    pub fn new() -> Self {
        Bad(Mutex::new(vec![]))
    }
    pub fn push(&self, v: Value) {
        let mut b = self.0.lock().unwrap();
        if b.len() < 5 {
            b.push(v);
        }
    }
    pub fn take(self) -> Vec<Value> {
        self.0.into_inner().unwrap()
    }
}

// ------------------------------------------------------------ Wide elements

static WIDE_LIVE: AtomicI64 = AtomicI64::new(0);
const WIDE_WORDS: usize = 16;

/// 128 bytes, every word equal to the element's id: a copy taken while another
/// thread moves the element shows as words that differ.
#[derive(Debug)]
pub struct Wide {
    w: [u64; WIDE_WORDS],
}

impl Wide {
    fn new(id: u64) -> Self {
        WIDE_LIVE.fetch_add(1, Ordering::SeqCst);
        Wide { w: [id; WIDE_WORDS] }
    }
    fn consistent(&self) -> bool {
        self.w.iter().all(|&x| x == self.w[0])
    }
}

impl Clone for Wide {
    fn clone(&self) -> Self {
        WIDE_LIVE.fetch_add(1, Ordering::SeqCst);
        // word by word, as found: a torn source stays visible in the copy
        Wide { w: self.w }
    }
}

impl PartialEq for Wide {
    fn eq(&self, o: &Self) -> bool {
        self.w == o.w
    }
}

impl Drop for Wide {
    fn drop(&mut self) {
        WIDE_LIVE.fetch_sub(1, Ordering::SeqCst);
    }
}

fn wide_words(v: &[Val<Wide>]) -> Value {
    Value::Array(
        v.iter()
            .map(|e| if e.0.consistent() { json!(e.0.w[0]) } else { json!({"torn": e.0.w.to_vec()}) })
            .collect(),
    )
}

/// `None` when `v` is a permutation of `sorted_ids` with consistent elements.
fn wide_snapshot_defect(v: &[Val<Wide>], sorted_ids: &[u64]) -> Option<&'static str> {
    if v.len() != sorted_ids.len() {
        return Some("length differs");
    }
    if v.iter().any(|e| !e.0.consistent()) {
        return Some("an element is torn (its words differ)");
    }
    let mut got: Vec<u64> = v.iter().map(|e| e.0.w[0]).collect();
    got.sort_unstable();
    if got != sorted_ids {
        return Some("not a permutation of the initial elements (one lost, one duplicated)");
    }
    None
}

fn u64_snapshot_defect(v: &[u64], sorted_ids: &[u64]) -> Option<&'static str> {
    if v.len() != sorted_ids.len() {
        return Some("length differs");
    }
    let mut got = v.to_vec();
    got.sort_unstable();
    if got != sorted_ids {
        return Some("not a permutation of the initial elements (one lost, one duplicated)");
    }
    None
}

/// The concrete parameters go to stdout before anything runs: when the
/// process dies the parent still reports them.
pub fn announce(params: &Value) {
    println!("PARAMS {params}");
    let _ = std::io::stdout().flush();
}

fn gen_ids(p: &mut Prng, len: usize) -> Vec<u64> {
    let base = 1000 * (1 + p.below(900));
    let step = 1 + p.below(9);
    (0..len as u64).map(|i| base + i * step).collect()
}

// ------------------------------------------------------------ swap-rust

fn swap_rust(c: &Case, rep: &mut Report) {
    let mut p = c.prng(1);
    let len = 4 + p.below(13) as usize;
    let threads = 4 + p.below(5) as usize;
    let readers = 1 + p.below(2) as usize;
    let rounds = (if c.thorough() { 600_000 } else { 150_000 }) * c.mult();
    let ids = gen_ids(&mut p, len);
    let mut sorted = ids.clone();
    sorted.sort_unstable();
    let fixed_tail: Vec<u64> = vec![u64::MAX, 0, p.next()];
    let params = json!({"threads": threads, "reader_threads": readers, "list_length": len, "rounds_per_thread": rounds,
        "initial_list": ids, "element_types": ["Val<Wide> (16 x u64)", "u64"], "attempt": c.attempt});
    let case = c.json();
    announce(&params);
    rep.hist("share-class", "swap-rust");
    rep.hist("share-list-length", len.to_string());
    rep.class(format!("share swap-rust wide+u64 t={threads}"));

    let live0 = WIDE_LIVE.load(Ordering::SeqCst);
    let snapshots = AtomicU64::new(0);
    let sibling_ops = AtomicU64::new(0);
    let pushes = Mutex::new(Vec::<u64>::new());
    let bad = Bad::new();
    let mut violated = false;
    {
        let wide: List<Val<Wide>> = ids.iter().map(|&i| Val(Wide::new(i))).collect();
        let nums: List<u64> = ids.iter().copied().collect();
        let side: List<Val<Wide>> = List::new();
        let fixed: List<u64> = fixed_tail.clone().into();
        let done = AtomicBool::new(false);
        let barrier = Barrier::new(threads + readers);
        let running = AtomicUsize::new(threads);

        std::thread::scope(|s| {
            for tid in 0..threads {
                // odd threads own a clone of each list, even ones borrow the original
                let (wide_c, nums_c, side_c) = (wide.clone(), nums.clone(), side.clone());
                let (wide_r, nums_r, side_r) = (&wide, &nums, &side);
                let (ids, sorted, fixed, fixed_tail) = (&ids, &sorted, &fixed, &fixed_tail);
                let (barrier, bad, sibling_ops, pushes, running, done) = (&barrier, &bad, &sibling_ops, &pushes, &running, &done);
                let mut tp = c.thread_prng(tid);
                s.spawn(move || {
                    let (wide, nums, side) = if tid % 2 == 1 { (&wide_c, &nums_c, &side_c) } else { (wide_r, nums_r, side_r) };
                    let mut my_pushes = vec![];
                    let mut n_sib = 0u64;
                    barrier.wait();
                    for r in 0..rounds {
                        let x = tp.next();
                        let (a, b) = ((x % len as u64) as usize, ((x >> 16) % len as u64) as usize);
                        let (a2, b2) = (((x >> 32) % len as u64) as usize, ((x >> 48) % len as u64) as usize);
                        wide.swap(a, b);
                        nums.swap(a2, b2);
                        if r % 32 != (tid as u64) % 32 {
                            continue;
                        }
                        // sibling operations: each is one atomic list operation
                        n_sib += 1;
                        let k = ids[(x >> 8) as usize % len];
                        match (r / 32) % 6 {
                            0 => {
                                let probe = Val(Wide::new(k));
                                if !wide.contains(&probe) {
                                    bad.push(json!({"thread": tid, "round": r, "op": "List<Val<Wide>>::contains", "element": k, "got": false, "expected": true}));
                                }
                            }
                            1 => {
                                if !nums.contains(&k) {
                                    bad.push(json!({"thread": tid, "round": r, "op": "List<u64>::contains", "element": k, "got": false, "expected": true}));
                                }
                            }
                            2 => {
                                let probe = Val(Wide::new(k));
                                let i = wide.index(&probe);
                                let j = nums.index(&k);
                                if !matches!(i, Some(i) if i < len) || !matches!(j, Some(j) if j < len) {
                                    bad.push(json!({"thread": tid, "round": r, "op": "List::index", "element": k, "got": [i, j], "expected": "Some(i), i < len"}));
                                }
                            }
                            3 => {
                                let v = nums.concat(fixed).to_vec();
                                let ok = v.len() == len + fixed_tail.len() && u64_snapshot_defect(&v[..len], sorted).is_none() && v[len..] == fixed_tail[..];
                                if !ok {
                                    bad.push(json!({"thread": tid, "round": r, "op": "List<u64>::concat", "got": v, "expected": "a permutation of the initial list followed by the second list"}));
                                }
                                let both = wide.concat(wide).to_vec();
                                let ok = both.len() == 2 * len && wide_snapshot_defect(&both[..len], sorted).is_none() && wide_snapshot_defect(&both[len..], sorted).is_none();
                                if !ok {
                                    bad.push(json!({"thread": tid, "round": r, "op": "List<Val<Wide>>::concat(self, self)", "got": wide_words(&both), "expected": "two permutations of the initial list"}));
                                }
                            }
                            4 => {
                                let id = (tid as u64 + 1) * 1_000_000 + my_pushes.len() as u64;
                                side.push(Val(Wide::new(id)));
                                my_pushes.push(id);
                            }
                            _ => {
                                let (l1, l2, e) = (wide.len(), nums.len(), nums.is_empty());
                                if l1 != len || l2 != len || e {
                                    bad.push(json!({"thread": tid, "round": r, "op": "List::len/is_empty", "got": [l1, l2], "expected": len}));
                                }
                            }
                        }
                    }
                    sibling_ops.fetch_add(n_sib, Ordering::Relaxed);
                    pushes.lock().unwrap().extend(my_pushes);
                    if running.fetch_sub(1, Ordering::SeqCst) == 1 {
                        done.store(true, Ordering::SeqCst);
                    }
                });
            }
            for rid in 0..readers {
                let (wide, nums, side, sorted) = (&wide, &nums, &side, &sorted);
                let (barrier, bad, snapshots, done) = (&barrier, &bad, &snapshots, &done);
                s.spawn(move || {
                    let mut n = 0u64;
                    let mut side_len = 0usize;
                    barrier.wait();
                    loop {
                        let last = done.load(Ordering::SeqCst);
                        let v = wide.to_vec();
                        if let Some(d) = wide_snapshot_defect(&v, sorted) {
                            bad.push(json!({"reader": rid, "snapshot_number": n, "op": "List<Val<Wide>>::to_vec", "defect": d, "snapshot": wide_words(&v)}));
                        }
                        let u = nums.to_vec();
                        if let Some(d) = u64_snapshot_defect(&u, sorted) {
                            bad.push(json!({"reader": rid, "snapshot_number": n, "op": "List<u64>::to_vec", "defect": d, "snapshot": u}));
                        }
                        let sv = side.to_vec();
                        if sv.len() < side_len || sv.iter().any(|e| !e.0.consistent()) {
                            bad.push(json!({"reader": rid, "snapshot_number": n, "op": "to_vec of the list being pushed to", "defect": "shrank or holds a torn element",
                                "previous_length": side_len, "snapshot": wide_words(&sv)}));
                        }
                        side_len = sv.len();
                        n += 3;
                        if last {
                            break;
                        }
                        std::thread::yield_now();
                    }
                    snapshots.fetch_add(n, Ordering::Relaxed);
                });
            }
        });

        // quiescent: the final state
        let fin = wide.to_vec();
        let finu = nums.to_vec();
        let by_get: Vec<Option<u64>> = (0..len).map(|i| wide.get(i).map(|e| e.0.w[0])).collect();
        let wd = wide_snapshot_defect(&fin, &sorted);
        let ud = u64_snapshot_defect(&finu, &sorted);
        if wd.is_some() || ud.is_some() || wide.len() != len || nums.len() != len {
            violated = true;
            rep.violation(
                "threads swapping elements of one shared List lost, duplicated or tore an element (List operations are documented to lock the list at each operation)",
                "share-list-not-permutation:swap-rust",
                json!({"case": case, "observed": {"params": params, "final_wide_list": wide_words(&fin), "wide_defect": wd, "final_u64_list": finu, "u64_defect": ud}}),
            );
        } else if by_get != fin.iter().map(|e| Some(e.0.w[0])).collect::<Vec<_>>() {
            violated = true;
            rep.violation(
                "List::get after all threads finished disagrees with to_vec",
                "share-list-get-differs:swap-rust",
                json!({"case": case, "observed": {"params": params, "to_vec": wide_words(&fin), "get": by_get}}),
            );
        }
        let mut pushed = pushes.lock().unwrap().clone();
        pushed.sort_unstable();
        let sv = side.to_vec();
        let mut got: Vec<u64> = sv.iter().map(|e| e.0.w[0]).collect();
        got.sort_unstable();
        if got != pushed || sv.iter().any(|e| !e.0.consistent()) {
            violated = true;
            rep.violation(
                "concurrent List::push lost, duplicated or tore elements",
                "share-list-push-differs:swap-rust",
                json!({"case": case, "observed": {"params": params, "pushed_ids": pushed.len(), "list_length": sv.len(),
                    "missing": pushed.iter().filter(|x| got.binary_search(x).is_err()).take(8).collect::<Vec<_>>(),
                    "unexpected": got.iter().filter(|x| pushed.binary_search(x).is_err()).take(8).collect::<Vec<_>>()}}),
            );
        }
    }
    let bad = bad.take();
    if !bad.is_empty() {
        violated = true;
        rep.violation(
            "an operation on a List shared between threads observed a state that no interleaving of whole operations produces (torn snapshot / missing element)",
            "share-list-torn-observation:swap-rust",
            json!({"case": case, "observed": {"params": params, "observations": bad}}),
        );
    }
    let live1 = WIDE_LIVE.load(Ordering::SeqCst);
    if live1 != live0 && !violated {
        rep.violation(
            "drop-tracked list elements do not balance after the shared lists and all clones were dropped",
            "share-list-element-imbalance:swap-rust",
            json!({"case": case, "observed": {"params": params, "live_before": live0, "live_after": live1}}),
        );
    }
    let total_swaps = 2 * rounds * threads as u64;
    rep.evaluations += snapshots.load(Ordering::Relaxed) + sibling_ops.load(Ordering::Relaxed) + 4;
    *rep.histograms.entry("share-ops".into()).or_default().entry("swap-rust swaps".into()).or_insert(0) += total_swaps;
    *rep.histograms.entry("share-ops".into()).or_default().entry("swap-rust snapshots".into()).or_insert(0) += snapshots.load(Ordering::Relaxed);
    rep.sample(json!({"case": case, "class": "swap-rust", "params": params, "snapshots_checked": snapshots.load(Ordering::Relaxed),
        "sibling_operations_checked": sibling_ops.load(Ordering::Relaxed), "pushes": pushes.lock().unwrap().len()}));
}

// ------------------------------------------------------------ swap-script

const SHUFFLE_T: &str = "
fn shuffle(l: List[@T], seed: u64, rounds: u64) {
    let n = l.len();
    let x = seed;
    let i = 0;
    while i < rounds {
        x = (x * 1103515245 + 12345) % 2147483648;
        let a = (x / 8) % n;
        let b = (x / 1024) % n;
        l.swap(a, b);
        i = i + 1;
    }
}

fn has(l: List[@T], x: @T) -> bool {
    l.contains(x)
}

fn cat(l: List[@T], m: List[@T]) -> List[@T] {
    l + m
}

fn size(l: List[@T]) -> u64 {
    l.len()
}
";

fn wide_runtime() -> Runtime<NoCtx> {
    let lib = library! {
        /// a 128-byte element
        #[clone] type Wide = Val<Wide>;
    };
    Runtime::from_lib(lib).expect("runtime")
}

/// What the script-side cases need from an element type.
trait Elem: Sized + Clone + Send + Sync + 'static {
    const NAME: &'static str;
    fn make(id: u64) -> Self;
    fn defect(v: &[Self], sorted: &[u64]) -> Option<&'static str>;
    fn show(v: &[Self]) -> Value;
}

impl Elem for u64 {
    const NAME: &'static str = "u64";
    fn make(id: u64) -> Self {
        id
    }
    fn defect(v: &[Self], sorted: &[u64]) -> Option<&'static str> {
        u64_snapshot_defect(v, sorted)
    }
    fn show(v: &[Self]) -> Value {
        json!(v)
    }
}

impl Elem for Val<Wide> {
    const NAME: &'static str = "Wide";
    fn make(id: u64) -> Self {
        Val(Wide::new(id))
    }
    fn defect(v: &[Self], sorted: &[u64]) -> Option<&'static str> {
        wide_snapshot_defect(v, sorted)
    }
    fn show(v: &[Self]) -> Value {
        wide_words(v)
    }
}

macro_rules! swap_script_body {
    ($c:expr, $rep:expr, $E:ty) => {{
        let c: &Case = $c;
        let rep: &mut Report = $rep;
        let mut p = c.prng(2);
        let len = 4 + p.below(13) as usize;
        let threads = 4 + p.below(5) as usize;
        let readers = 1 + p.below(2) as usize;
        let rounds = (if c.thorough() { 480_000 } else { 120_000 }) * c.mult();
        let ids = gen_ids(&mut p, len);
        let mut sorted = ids.clone();
        sorted.sort_unstable();
        let tail_ids: Vec<u64> = vec![7, 5];
        let seeds: Vec<u64> = (0..threads).map(|_| 1 + p.below(1 << 30)).collect();
        let src = SHUFFLE_T.replace("@T", <$E as Elem>::NAME);
        let params = json!({"threads": threads, "reader_threads": readers, "list_length": len, "rounds_per_call": rounds, "lcg_seeds": seeds,
            "initial_list": ids, "element_type": <$E as Elem>::NAME, "attempt": c.attempt, "source": src});
        let case = c.json();
        announce(&params);
        rep.hist("share-class", "swap-script");
        rep.hist("share-list-length", len.to_string());
        rep.class(format!("share swap-script {} t={threads}", <$E as Elem>::NAME));

        let live0 = WIDE_LIVE.load(Ordering::SeqCst);
        let mut violated = false;
        let mut st_balanced = true;
        'case: {
            let rt = wide_runtime();
            let mut pkg = match FileTree::test_file("share.roto", &src, 0).compile(&rt) {
                Ok(p) => p,
                Err(e) => {
                    rep.mismatch("share swap-script: the script does not compile", json!({"case": case, "source": src, "error": format!("{e}")}));
                    break 'case;
                }
            };
            let shuffle = pkg.get_function::<fn(List<$E>, u64, u64) -> ()>("shuffle");
            let has = pkg.get_function::<fn(List<$E>, $E) -> bool>("has");
            let cat = pkg.get_function::<fn(List<$E>, List<$E>) -> List<$E>>("cat");
            let size = pkg.get_function::<fn(List<$E>) -> u64>("size");
            let (shuffle, has, cat, size) = match (shuffle, has, cat, size) {
                (Ok(a), Ok(b), Ok(c), Ok(d)) => (a, b, c, d),
                (a, b, c, d) => {
                    rep.mismatch("share swap-script: a function is not retrievable", json!({"case": case, "source": src,
                        "errors": [a.err().map(|e| format!("{e:?}")), b.err().map(|e| format!("{e:?}")), c.err().map(|e| format!("{e:?}")), d.err().map(|e| format!("{e:?}"))]}));
                    break 'case;
                }
            };
            let list: List<$E> = ids.iter().map(|&i| <$E as Elem>::make(i)).collect();
            let tail: List<$E> = tail_ids.iter().map(|&i| <$E as Elem>::make(i)).collect();

            // single-threaded reference: the same calls preserve the permutation
            shuffle.call(list.clone(), seeds[0], 1000);
            let st = list.to_vec();
            let st_has = has.call(list.clone(), <$E as Elem>::make(ids[0]));
            let st_cat = cat.call(list.clone(), tail.clone()).to_vec();
            let st_size = size.call(list.clone());
            let st_ok = <$E as Elem>::defect(&st, &sorted).is_none()
                && st_has
                && st_size == len as u64
                && st_cat.len() == len + 2
                && <$E as Elem>::defect(&st_cat[..len], &sorted).is_none();
            // host values handed to the single-threaded calls must be gone again; if they are
            // not, that is the accounting of single-threaded code (another property's domain)
            let st_live = (<$E as Elem>::NAME == "Wide").then(|| (WIDE_LIVE.load(Ordering::SeqCst) - live0, (len + 2 + st.len() + st_cat.len()) as i64));
            if let Some((got, want)) = st_live {
                if got != want {
                    st_balanced = false;
                    rep.notes.push(format!("share swap-script: element imbalance single-threaded ({got} live, {want} expected; C03's domain): balance check skipped for that case"));
                }
            }
            if !st_ok {
                rep.violation(
                    "single-threaded: a script shuffling a list with swap does not preserve its elements",
                    "share-single-threaded-reference-fails:swap-script",
                    json!({"case": case, "observed": {"params": params, "after_shuffle": <$E as Elem>::show(&st), "contains_first": st_has, "len": st_size, "concat": <$E as Elem>::show(&st_cat)}}),
                );
                break 'case;
            }

            let bad = Bad::new();
            let snapshots = AtomicU64::new(0);
            let done = AtomicBool::new(false);
            let running = AtomicUsize::new(threads);
            let barrier = Barrier::new(threads + readers);
            std::thread::scope(|s| {
                for tid in 0..threads {
                    let list = list.clone();
                    let own = shuffle.clone();
                    let (shuffle, seeds, barrier, running, done) = (&shuffle, &seeds, &barrier, &running, &done);
                    s.spawn(move || {
                        // odd threads call through their own clone of the handle
                        let f = if tid % 2 == 1 { &own } else { shuffle };
                        barrier.wait();
                        // several calls per thread: clones of the list are created and dropped meanwhile
                        for k in 0..4u64 {
                            f.call(list.clone(), seeds[tid] + k, rounds / 4);
                        }
                        if running.fetch_sub(1, Ordering::SeqCst) == 1 {
                            done.store(true, Ordering::SeqCst);
                        }
                    });
                }
                for rid in 0..readers {
                    let (list, tail, sorted, ids) = (&list, &tail, &sorted, &ids);
                    let (has, cat, size) = (&has, &cat, &size);
                    let (barrier, bad, snapshots, done) = (&barrier, &bad, &snapshots, &done);
                    s.spawn(move || {
                        let mut n = 0u64;
                        barrier.wait();
                        loop {
                            let last = done.load(Ordering::SeqCst);
                            let v = list.to_vec();
                            if let Some(d) = <$E as Elem>::defect(&v, sorted) {
                                bad.push(json!({"reader": rid, "observation": n, "op": "List::to_vec (Rust)", "defect": d, "snapshot": <$E as Elem>::show(&v)}));
                            }
                            let k = ids[(n as usize / 4) % ids.len()];
                            if !has.call(list.clone(), <$E as Elem>::make(k)) {
                                bad.push(json!({"reader": rid, "observation": n + 1, "op": "l.contains(x) (script)", "element": k, "got": false, "expected": true}));
                            }
                            let cv = cat.call(list.clone(), tail.clone()).to_vec();
                            if cv.len() != sorted.len() + 2 || <$E as Elem>::defect(&cv[..sorted.len()], sorted).is_some() {
                                bad.push(json!({"reader": rid, "observation": n + 2, "op": "l + m (script)", "got": <$E as Elem>::show(&cv), "expected": "a permutation of the initial list followed by [7, 5]"}));
                            }
                            let sz = size.call(list.clone());
                            if sz != sorted.len() as u64 {
                                bad.push(json!({"reader": rid, "observation": n + 3, "op": "l.len() (script)", "got": sz, "expected": sorted.len()}));
                            }
                            n += 4;
                            if last {
                                break;
                            }
                            std::thread::yield_now();
                        }
                        snapshots.fetch_add(n, Ordering::Relaxed);
                    });
                }
            });
            let fin = list.to_vec();
            let fd = <$E as Elem>::defect(&fin, &sorted);
            if fd.is_some() || list.len() != len {
                violated = true;
                rep.violation(
                    "one compiled function called through a shared handle from several threads on clones of one list lost, duplicated or tore an element (single-threaded the same calls only permute it)",
                    "share-list-not-permutation:swap-script",
                    json!({"case": case, "observed": {"params": params, "final_list": <$E as Elem>::show(&fin), "defect": fd, "len": list.len()}}),
                );
            }
            let bad = bad.take();
            if !bad.is_empty() {
                violated = true;
                rep.violation(
                    "an operation on a List shared between threads observed a state that no interleaving of whole operations produces (torn snapshot / missing element)",
                    "share-list-torn-observation:swap-script",
                    json!({"case": case, "observed": {"params": params, "observations": bad}}),
                );
            }
            let n = snapshots.load(Ordering::Relaxed);
            rep.evaluations += n + threads as u64 * 4 + 5;
            *rep.histograms.entry("share-ops".into()).or_default().entry("swap-script swaps".into()).or_insert(0) += rounds / 4 * 4 * threads as u64;
            *rep.histograms.entry("share-ops".into()).or_default().entry("swap-script observations".into()).or_insert(0) += n;
            rep.sample(json!({"case": case, "class": "swap-script", "params": params, "observations_checked": n}));
        }
        let live1 = WIDE_LIVE.load(Ordering::SeqCst);
        if live1 != live0 && !violated && st_balanced {
            rep.violation(
                "drop-tracked list elements do not balance after the shared list, all clones, the package and the runtime were dropped",
                "share-list-element-imbalance:swap-script",
                json!({"case": case, "observed": {"params": params, "live_before": live0, "live_after": live1}}),
            );
        }
    }};
}

fn swap_script(c: &Case, rep: &mut Report) {
    if c.index % 2 == 0 {
        swap_script_body!(c, rep, u64)
    } else {
        swap_script_body!(c, rep, Val<Wide>)
    }
}

// ------------------------------------------------------------ refcount-storm

struct Token {
    calls: Arc<AtomicUsize>,
    drops: Arc<AtomicUsize>,
}

impl Drop for Token {
    fn drop(&mut self) {
        self.drops.fetch_add(1, Ordering::SeqCst);
    }
}

/// A constant's value: clones (made every time a script reads the constant)
/// are counted apart from the one original the registered item owns.
#[derive(Debug)]
pub struct CTok {
    original: bool,
    id: u64,
    orig_drops: Arc<AtomicUsize>,
    clones_live: Arc<AtomicI64>,
}

impl Clone for CTok {
    fn clone(&self) -> Self {
        self.clones_live.fetch_add(1, Ordering::SeqCst);
        CTok { original: false, id: self.id, orig_drops: self.orig_drops.clone(), clones_live: self.clones_live.clone() }
    }
}

impl PartialEq for CTok {
    fn eq(&self, o: &Self) -> bool {
        self.id == o.id
    }
}

impl Drop for CTok {
    fn drop(&mut self) {
        if self.original {
            self.orig_drops.fetch_add(1, Ordering::SeqCst);
        } else {
            self.clones_live.fetch_sub(1, Ordering::SeqCst);
        }
    }
}

const BUMP_SCRIPT: &str = "
fn main(n: u64) -> u64 {
    let i = 0;
    let last = 0;
    while i < n {
        last = bump();
        i = i + 1;
    }
    last
}
";

const TOK_SCRIPT: &str = "
fn main(n: u64) -> u64 {
    let i = 0;
    let s = 0;
    while i < n {
        s = s + tok_id(TOK);
        i = i + 1;
    }
    s
}
";

/// The thing whose clones share the reference count under test.
#[derive(Clone)]
#[allow(dead_code)]
enum Owner {
    Func(Function),
    Item(Item),
    Lib(Library),
    Const(Constant),
}

fn emit_and_exit(rep: &Report) -> ! {
    rep.emit();
    let _ = std::io::stdout().flush();
    // leave without running destructors on state that is already known to be broken
    std::process::exit(0)
}

const STORM_ROLES: [&str; 8] = ["compile", "runtime", "item", "handle", "item", "handle", "item", "handle"];

fn refcount_storm(c: &Case, rep: &mut Report) {
    let mut p = c.prng(3);
    let variant = ["function-item", "library-closure", "constant"][(c.index % 3) as usize];
    let threads = 6 + p.below(3) as usize;
    let rounds = (if c.thorough() { 600_000 } else { 200_000 }) * c.mult();
    let compiles = (if c.thorough() { 12 } else { 6 }) * c.mult().min(4);
    let rt_clones = rounds / 400;
    let held_n = 8000 + p.below(8000) as usize;
    let n_arg = 3 + p.below(20);
    let tok_id = 1 + p.below(1000);
    let is_const = variant == "constant";
    let src = if is_const { TOK_SCRIPT } else { BUMP_SCRIPT };
    let params = json!({"variant": variant, "threads": threads, "clone_drop_rounds_per_thread": rounds, "compilations_per_compiling_thread": compiles,
        "runtime_clones_per_cloning_thread": rt_clones, "held_clones": held_n, "call_argument": n_arg,
        "thread_roles": (&STORM_ROLES[..threads]), "attempt": c.attempt, "source": src});
    let case = c.json();
    announce(&params);
    rep.hist("share-class", "refcount-storm");
    rep.class(format!("share refcount-storm {variant} t={threads}"));

    let calls = Arc::new(AtomicUsize::new(0));
    let drops = Arc::new(AtomicUsize::new(0));
    let clones_live = Arc::new(AtomicI64::new(0));
    // constant variant: the token owned by the registered closure that consumes the constant
    let fn_drops = Arc::new(AtomicUsize::new(0));

    // the registered item and the one shared runtime
    let (owner, rt): (Owner, Runtime<NoCtx>) = match variant {
        "function-item" => {
            let token = Token { calls: calls.clone(), drops: drops.clone() };
            let f = Function::new("bump", "counts calls", vec![], move || -> u64 { token.calls.fetch_add(1, Ordering::SeqCst) as u64 + 1 }, location!()).expect("function item");
            let rt = Runtime::from_lib(f.clone()).expect("runtime");
            (Owner::Func(f), rt)
        }
        "library-closure" => {
            let token = Token { calls: calls.clone(), drops: drops.clone() };
            let lib: Library = library! {
                /// counts calls
                let bump = move || -> u64 { token.calls.fetch_add(1, Ordering::SeqCst) as u64 + 1 };
            };
            let rt = Runtime::from_lib(lib.clone()).expect("runtime");
            (Owner::Lib(lib), rt)
        }
        _ => {
            let tok = CTok { original: true, id: tok_id, orig_drops: drops.clone(), clones_live: clones_live.clone() };
            // the closure that consumes the constant owns a token as well
            let token = Token { calls: calls.clone(), drops: fn_drops.clone() };
            let lib: Library = library! {
                /// a drop-tracked constant's type
                #[clone] type CTok = Val<CTok>;

                /// consume a token
                let tok_id = move |t: Val<CTok>| -> u64 { token.calls.fetch_add(1, Ordering::SeqCst); t.0.id };
            };
            let k = Constant::new("TOK", "a drop-tracked constant", Val(tok), location!()).expect("constant item");
            let mut rt = Runtime::from_lib(lib).expect("runtime");
            rt.add(k.clone()).expect("constant registers");
            (Owner::Const(k), rt)
        }
    };

    let compile_and_get = |rt: &Runtime<NoCtx>| -> Result<(Package<NoCtx>, TypedFunc<NoCtx, fn(u64) -> u64>), String> {
        let mut pkg = FileTree::test_file("share.roto", src, 0).compile(rt).map_err(|e| format!("{e}"))?;
        let f = pkg.get_function::<fn(u64) -> u64>("main").map_err(|e| format!("{e:?}"))?;
        Ok((pkg, f))
    };
    // what main(n) must return given the number of closure calls made before it
    let expect_ret = |before: usize, n: u64| -> u64 { if is_const { n * tok_id } else { before as u64 + n } };

    // single-threaded reference
    let clone_balance_checked = {
        let (pkg, f) = match compile_and_get(&rt) {
            Ok(x) => x,
            Err(e) => {
                rep.mismatch("share refcount-storm: the script does not compile", json!({"case": case, "source": src, "error": e}));
                return;
            }
        };
        let before = calls.load(Ordering::SeqCst);
        let got = f.call(n_arg);
        drop(pkg);
        let got2 = f.call(n_arg);
        drop(f);
        if got != expect_ret(before, n_arg) || got2 != expect_ret(before + n_arg as usize, n_arg) || drops.load(Ordering::SeqCst) != 0 {
            rep.violation(
                "single-threaded: a script calling a registered closure / reading a registered constant returns something else than expected, or the registered value was dropped while registered",
                "share-single-threaded-reference-fails:refcount-storm",
                json!({"case": case, "observed": {"params": params, "got": [got, got2], "expected": [expect_ret(before, n_arg), expect_ret(before + n_arg as usize, n_arg)], "drops": drops.load(Ordering::SeqCst)}}),
            );
            return;
        }
        let balanced = clones_live.load(Ordering::SeqCst) == 0;
        if !balanced {
            rep.notes.push("share refcount-storm: clones of the constant do not balance single-threaded (C03's domain): clone balance not checked".to_string());
        }
        balanced
    };

    let total_drops = || drops.load(Ordering::SeqCst) + fn_drops.load(Ordering::SeqCst);
    let expected_final_drops = if is_const { 2 } else { 1 };
    let held: Vec<Owner> = (0..held_n)
        .map(|i| match (&owner, i % 3) {
            (Owner::Func(f), 1) => Owner::Item(Item::Function(f.clone())),
            (Owner::Func(f), 2) => Owner::Lib(Library::from(vec![Item::Function(f.clone())])),
            (Owner::Const(k), 1) => Owner::Item(Item::Constant(k.clone())),
            (o, _) => o.clone(),
        })
        .collect();

    // a handle retrieved before the concurrent phase: threads clone, call and drop it
    // (the module's own reference count, which keeps the registered closures alive)
    let pre_handle = match compile_and_get(&rt) {
        Ok((_pkg, f)) => f,
        Err(e) => {
            rep.mismatch("share refcount-storm: the script does not compile", json!({"case": case, "source": src, "error": e}));
            return;
        }
    };
    // thread roles (STORM_ROLES): one compiles, one clones the runtime, at least two clone the item and two the handle
    let role = |tid: usize| -> &'static str { STORM_ROLES[tid % 8] };

    let calls0 = calls.load(Ordering::SeqCst);
    let storm_calls = AtomicUsize::new(0);
    let compiled = AtomicU64::new(0);
    let bad = Bad::new();
    let barrier = Barrier::new(threads);
    std::thread::scope(|s| {
        for tid in 0..threads {
            let (owner, rt, held) = (&owner, &rt, &held);
            let (barrier, bad, storm_calls, compiled, total_drops) = (&barrier, &bad, &storm_calls, &compiled, &total_drops);
            let (compile_and_get, pre_handle) = (&compile_and_get, &pre_handle);
            let role = role(tid);
            s.spawn(move || {
                barrier.wait();
                match role {
                    "compile" => {
                        // compile against the ONE shared runtime, call, drop package and handle
                        for k in 0..compiles {
                            let Ok((pkg, f)) = compile_and_get(rt) else {
                                bad.push(json!({"thread": tid, "op": "compile against the shared runtime", "iteration": k, "got": "error"}));
                                continue;
                            };
                            let n = n_arg + k % 3;
                            let g = f.clone();
                            if k % 2 == 0 {
                                drop(pkg);
                            }
                            let r = f.call(n);
                            storm_calls.fetch_add(n as usize, Ordering::SeqCst);
                            // the closure counts all threads' calls: the result is at least n and, for the constant, exact
                            let ok = if is_const { r == n * tok_id } else { r >= n };
                            if !ok {
                                bad.push(json!({"thread": tid, "op": "call during the storm", "iteration": k, "arg": n, "got": r}));
                            }
                            drop(f);
                            drop(g);
                            compiled.fetch_add(1, Ordering::Relaxed);
                        }
                    }
                    "handle" => {
                        // a handle clone is only a count update: more rounds for the same time
                        for k in 0..4 * rounds {
                            let h = pre_handle.clone();
                            if k % 16384 == 0 {
                                let r = h.call(2);
                                storm_calls.fetch_add(2, Ordering::SeqCst);
                                let ok = if is_const { r == 2 * tok_id } else { r >= 2 };
                                if !ok {
                                    bad.push(json!({"thread": tid, "op": "call through a clone of a shared handle during the storm", "iteration": k, "arg": 2, "got": r}));
                                }
                            }
                            drop(h);
                        }
                    }
                    "runtime" => {
                        for k in 0..rt_clones {
                            let r2 = rt.clone();
                            if k % 8 == 0 {
                                let r3 = r2.clone();
                                drop(r2);
                                drop(r3);
                            }
                        }
                    }
                    _ => {
                        for k in 0..rounds {
                            let copy = match k % 4 {
                                0 => owner.clone(),
                                _ => held[(k as usize * 7 + tid) % held.len()].clone(),
                            };
                            drop(copy);
                            if k % 1024 == 0 && total_drops() != 0 {
                                break;
                            }
                        }
                    }
                }
            });
        }
    });
    let storm_calls = storm_calls.load(Ordering::SeqCst);
    rep.evaluations += compiled.load(Ordering::Relaxed);
    *rep.histograms.entry("share-ops".into()).or_default().entry("refcount-storm compilations".into()).or_insert(0) += compiled.load(Ordering::Relaxed);
    *rep.histograms.entry("share-ops".into()).or_default().entry("refcount-storm clone+drop".into()).or_insert(0) += rounds * (0..threads).map(|t| match role(t) { "item" => 1, "handle" => 4, _ => 0 }).sum::<u64>();

    let early = |rep: &mut Report, when: String, extra: Value| {
        rep.violation(
            "a value owned by a registered closure / constant was dropped while the registered item, a runtime and clones of the item are still alive (a reference count on the registered-function / constant path lost an update)",
            "share-registered-value-dropped-early:refcount-storm",
            json!({"case": case, "observed": {"params": params, "when": when, "drops": total_drops(), "expected_drops": 0, "detail": extra}}),
        );
        emit_and_exit(rep);
    };
    if total_drops() != 0 {
        early(rep, "right after the concurrent phase (item, runtime and all held clones alive)".into(), json!(null));
    }
    let bad = bad.take();
    if !bad.is_empty() {
        rep.violation(
            "a script compiled against a shared runtime and called while other threads clone and drop the registered item returned something else than single-threaded",
            "share-call-differs:refcount-storm",
            json!({"case": case, "observed": {"params": params, "mismatches": bad}}),
        );
    }
    let calls1 = calls.load(Ordering::SeqCst);
    if calls1 - calls0 != storm_calls {
        rep.violation(
            "calls of a registered closure were lost or duplicated during the concurrent phase",
            "share-call-count-differs:refcount-storm",
            json!({"case": case, "observed": {"params": params, "counted": calls1 - calls0, "expected": storm_calls}}),
        );
    }

    // release the held clones one by one: the item and the runtime still own the value
    for (i, copy) in held.into_iter().enumerate() {
        drop(copy);
        if total_drops() != 0 {
            early(rep, format!("after releasing {} of {held_n} held clones (item and runtime still alive)", i + 1), json!(null));
        }
    }
    rep.evaluations += held_n as u64;

    // still callable, counts exactly
    let (pkg, main) = match compile_and_get(&rt) {
        Ok(x) => x,
        Err(e) => {
            rep.violation("after the concurrent phase the shared runtime no longer compiles the script", "share-compile-fails-after-storm:refcount-storm",
                json!({"case": case, "observed": {"params": params, "error": e}}));
            return;
        }
    };
    let before = calls.load(Ordering::SeqCst);
    let r1 = main.call(3);
    drop(pkg);
    drop(rt);
    drop(owner);
    // the handle the threads cloned: still callable, then released
    let r0 = pre_handle.call(1);
    drop(pre_handle);
    if total_drops() != 0 {
        early(rep, "after dropping the package, the runtime, the item and the handle the threads cloned, while another function handle is alive".into(), json!({"calls": [r1, r0]}));
    }
    let r2 = main.call(1);
    let want = [expect_ret(before, 3), expect_ret(before + 3, 1), expect_ret(before + 4, 1)];
    if [r1, r0, r2] != want || calls.load(Ordering::SeqCst) != before + 5 {
        rep.violation(
            "after the concurrent phase the registered closure / constant no longer behaves as single-threaded",
            "share-call-differs:refcount-storm",
            json!({"case": case, "observed": {"params": params, "got": [r1, r0, r2], "expected": want,
                "calls_counted": calls.load(Ordering::SeqCst) - before, "expected_calls": 5}}),
        );
    }
    drop(main);
    let d = total_drops();
    if d != expected_final_drops {
        rep.violation(
            "after the last owner (item, runtime, clones, package, handle) was dropped the value owned by the registered closure / constant was not dropped exactly once (a reference count on the registered-function / constant path lost an update)",
            "share-registered-value-drop-count:refcount-storm",
            json!({"case": case, "observed": {"params": params, "drops": d, "expected_drops": expected_final_drops,
                "dropped": {"value_of_the_item": drops.load(Ordering::SeqCst), "value_of_the_consuming_closure": fn_drops.load(Ordering::SeqCst)}}}),
        );
    }
    let cl = clones_live.load(Ordering::SeqCst);
    if is_const && clone_balance_checked && cl != 0 {
        rep.violation(
            "clones of a registered constant made by concurrent calls do not balance",
            "share-constant-clone-imbalance:refcount-storm",
            json!({"case": case, "observed": {"params": params, "clones_alive_after_everything_was_dropped": cl}}),
        );
    }
    rep.evaluations += 6;
    rep.sample(json!({"case": case, "class": "refcount-storm", "params": params, "calls_during_storm": storm_calls, "compilations": compiled.load(Ordering::Relaxed)}));
}

// ------------------------------------------------------------ into-func

fn weigh_src(arity: usize, k: u32, ctx: bool) -> String {
    let (params, bound, extra) = match arity {
        0 => ("", format!("{}", 40 + k), "7".to_string()),
        1 => ("x: u32", "x % 97".to_string(), "x".to_string()),
        _ => ("x: u32, y: u32", "x % 97".to_string(), "y * 3".to_string()),
    };
    let cx = if ctx { " + n" } else { "" };
    format!(
        "fn main({params}) -> u32 {{\n    let i = 0;\n    let res = {k};\n    while i < {bound} {{\n        res = res + 2 * i + 1;\n        i = i + 1;\n    }}\n    res + {extra}{cx}\n}}\n"
    )
}

fn churn_src(j: u64) -> String {
    format!(
        "fn pad{j}(a: u32) -> u32 {{ a * {} + {} }}\nfn main(x: u32) -> u32 {{\n    let i = 0;\n    let res = {};\n    while i < x % 50 {{\n        res = res + pad{j}(i);\n        i = i + 1;\n    }}\n    res\n}}\n",
        j % 13 + 2,
        j % 7,
        j % 5
    )
}

fn churn_expected(j: u64, x: u32) -> u32 {
    let mut res = (j % 5) as u32;
    for i in 0..x % 50 {
        res = res.wrapping_add(i.wrapping_mul((j % 13 + 2) as u32).wrapping_add((j % 7) as u32));
    }
    res
}

/// `call` is the closure `into_func` returned (wrapped to take a slice); it
/// stays on this thread. `owners` holds the package, the runtime and every
/// other clone of the handle; another thread drops it.
fn into_func_flow(
    c: &Case,
    rep: &mut Report,
    variant: &str,
    src: &str,
    args: &[Vec<u32>],
    expected: &[u32],
    mut call: impl FnMut(&[u32]) -> u32,
    owners: Box<dyn Send>,
    n_clones: usize,
) {
    let calls = (if c.thorough() { 40_000 } else { 8_000 }) * c.mult();
    let churners = 3usize;
    let params = json!({"variant": variant, "source": src, "calls_per_phase": calls, "other_handle_clones": n_clones, "churn_threads": churners, "attempt": c.attempt});
    let case = c.json();
    announce(&params);
    let bad = Bad::new();
    let mut n_checked = 0u64;
    let mut phase = |name: &str, count: u64, at: Option<(u64, &dyn Fn())>| {
        for m in 0..count {
            if let Some((when, f)) = &at {
                if m == *when {
                    f();
                }
            }
            let k = m as usize % args.len();
            let got = call(&args[k]);
            if got != expected[k] {
                bad.push(json!({"phase": name, "call": m, "args": args[k], "got": got, "through_the_plain_handle": expected[k]}));
            }
        }
        n_checked += count;
    };
    // announce the phase on stdout: a crash is then attributable
    let say = |s: &str| {
        println!("PHASE {s}");
        let _ = std::io::stdout().flush();
    };

    say("all owners alive");
    phase("all owners alive", args.len() as u64 * 2, None);

    let (tx, rx) = mpsc::channel::<()>();
    let dropper = std::thread::spawn(move || {
        let _ = rx.recv();
        drop(owners);
    });
    say("another thread drops package, runtime and the other handles meanwhile");
    phase("another thread drops package, runtime and the other handles meanwhile", calls, Some((calls / 4, &|| {
        let _ = tx.send(());
    })));
    let _ = dropper.join();
    say("after the other owners are gone");
    phase("after the other owners are gone", calls, None);

    // other threads compile, call and drop other scripts (JIT memory is mapped and unmapped)
    let stop = AtomicBool::new(false);
    let churn_bad = Bad::new();
    let churned = AtomicU64::new(0);
    say("while other threads compile, call and drop other scripts");
    std::thread::scope(|s| {
        for t in 0..churners {
            let (stop, churn_bad, churned) = (&stop, &churn_bad, &churned);
            let seed = c.seed;
            s.spawn(move || {
                let rt = Runtime::new();
                let mut j = seed % 1000 + t as u64 * 100;
                let min_rounds = 4;
                let mut done = 0;
                while !stop.load(Ordering::SeqCst) || done < min_rounds {
                    let src = churn_src(j);
                    match FileTree::test_file("churn.roto", &src, 0).compile(&rt) {
                        Ok(mut pkg) => match pkg.get_function::<fn(u32) -> u32>("main") {
                            Ok(f) => {
                                let x = (j as u32).wrapping_mul(2654435761) % 1000;
                                let r = f.call(x);
                                drop(pkg);
                                let r2 = f.call(x);
                                if r != churn_expected(j, x) || r2 != r {
                                    churn_bad.push(json!({"thread": t, "source": src, "arg": x, "got": [r, r2], "expected": churn_expected(j, x)}));
                                }
                            }
                            Err(e) => churn_bad.push(json!({"thread": t, "source": src, "error": format!("{e:?}")})),
                        },
                        Err(e) => churn_bad.push(json!({"thread": t, "source": src, "error": format!("{e}")})),
                    }
                    churned.fetch_add(1, Ordering::Relaxed);
                    j += 1;
                    done += 1;
                    if done > 10_000 {
                        break;
                    }
                }
            });
        }
        phase("while other threads compile, call and drop other scripts", calls, None);
        // keep calling until every churn thread has done its minimum
        let start = Instant::now();
        while churned.load(Ordering::Relaxed) < 4 * churners as u64 && start.elapsed() < Duration::from_secs(20) {
            phase("while other threads compile, call and drop other scripts", 64, None);
        }
        stop.store(true, Ordering::SeqCst);
    });
    say("after the churn");
    phase("after the churn", args.len() as u64 * 2, None);
    drop(phase);

    let bad = bad.take();
    if !bad.is_empty() {
        rep.violation(
            "the closure returned by TypedFunc::into_func returned something else than the plain handle did for the same arguments, after / while another thread dropped the package, the runtime and the other handles",
            "share-into-func-result-differs:into-func",
            json!({"case": case, "observed": {"params": params, "mismatches": bad}}),
        );
    }
    let churn_bad = churn_bad.take();
    if !churn_bad.is_empty() {
        rep.violation(
            "a script compiled and called on another thread while an into_func closure is being called gave a wrong result",
            "share-churn-result-differs:into-func",
            json!({"case": case, "observed": {"params": params, "mismatches": churn_bad}}),
        );
    }
    rep.evaluations += n_checked + churned.load(Ordering::Relaxed);
    *rep.histograms.entry("share-ops".into()).or_default().entry("into-func closure calls".into()).or_insert(0) += n_checked;
    *rep.histograms.entry("share-ops".into()).or_default().entry("into-func churn compilations".into()).or_insert(0) += churned.load(Ordering::Relaxed);
    rep.sample(json!({"case": case, "class": "into-func", "params": params, "closure_calls_checked": n_checked, "churn_compilations": churned.load(Ordering::Relaxed)}));
}

fn into_func(c: &Case, rep: &mut Report) {
    let mut p = c.prng(4);
    let variant = ["noctx fn() -> u32", "noctx fn(u32) -> u32", "noctx fn(u32, u32) -> u32", "ctx fn(u32) -> u32"][(c.index % 4) as usize];
    let k = p.below(1000) as u32;
    let n_clones = 1 + p.below(4) as usize;
    rep.hist("share-class", "into-func");
    rep.class(format!("share into-func {variant} t={}", 2 + 3));
    let case = c.json();
    let mut xs: Vec<u32> = vec![0, 1, 96, 97, u32::MAX - 200, p.below(5000) as u32, p.next() as u32 % 1_000_000];
    xs.push(12);
    macro_rules! setup {
        ($rt:expr, $src:expr, $fty:ty) => {{
            let mut pkg = match FileTree::test_file("share.roto", $src, 0).compile(&$rt) {
                Ok(p) => p,
                Err(e) => {
                    rep.mismatch("share into-func: the script does not compile", json!({"case": case, "source": $src, "error": format!("{e}")}));
                    return;
                }
            };
            let h = match pkg.get_function::<$fty>("main") {
                Ok(h) => h,
                Err(e) => {
                    rep.mismatch("share into-func: main not retrievable", json!({"case": case, "source": $src, "error": format!("{e:?}")}));
                    return;
                }
            };
            (pkg, h)
        }};
    }
    match c.index % 4 {
        0 => {
            let src = weigh_src(0, k, false);
            let rt = Runtime::new();
            let (pkg, h) = setup!(rt, &src, fn() -> u32);
            let args: Vec<Vec<u32>> = vec![vec![]];
            let expected: Vec<u32> = vec![h.call()];
            let clones: Vec<_> = (0..n_clones).map(|_| h.clone()).collect();
            let f = h.into_func();
            into_func_flow(c, rep, variant, &src, &args, &expected, |_a| f(), Box::new((pkg, rt, clones)), n_clones);
        }
        1 => {
            let src = weigh_src(1, k, false);
            let rt = Runtime::new();
            let (pkg, h) = setup!(rt, &src, fn(u32) -> u32);
            let args: Vec<Vec<u32>> = xs.iter().map(|&x| vec![x]).collect();
            let expected: Vec<u32> = args.iter().map(|a| h.call(a[0])).collect();
            let clones: Vec<_> = (0..n_clones).map(|_| h.clone()).collect();
            let f = h.into_func();
            into_func_flow(c, rep, variant, &src, &args, &expected, |a| f(a[0]), Box::new((pkg, rt, clones)), n_clones);
        }
        2 => {
            let src = weigh_src(2, k, false);
            let rt = Runtime::new();
            let (pkg, h) = setup!(rt, &src, fn(u32, u32) -> u32);
            let args: Vec<Vec<u32>> = xs.iter().enumerate().map(|(i, &x)| vec![x, xs[(i + 3) % xs.len()] % 100_000]).collect();
            let expected: Vec<u32> = args.iter().map(|a| h.call(a[0], a[1])).collect();
            let clones: Vec<_> = (0..n_clones).map(|_| h.clone()).collect();
            let f = h.into_func();
            into_func_flow(c, rep, variant, &src, &args, &expected, |a| f(a[0], a[1]), Box::new((pkg, rt, clones)), n_clones);
        }
        _ => {
            let src = weigh_src(1, k, true);
            let rt = match Runtime::new().with_context_type::<Cx>() {
                Ok(rt) => rt,
                Err(e) => {
                    rep.mismatch("share into-func: context type does not register", json!({"case": case, "error": e}));
                    return;
                }
            };
            let (pkg, h) = setup!(rt, &src, fn(u32) -> u32);
            let h: TypedFunc<Ctx<Cx>, fn(u32) -> u32> = h;
            let mut cx = Cx { name: RotoString::new("share"), n: p.below(1000) as u32 };
            let args: Vec<Vec<u32>> = xs.iter().map(|&x| vec![x]).collect();
            let expected: Vec<u32> = args.iter().map(|a| h.call(&mut cx, a[0])).collect();
            let clones: Vec<_> = (0..n_clones).map(|_| h.clone()).collect();
            let f = h.into_func();
            into_func_flow(c, rep, variant, &src, &args, &expected, |a| f(&mut cx, a[0]), Box::new((pkg, rt, clones)), n_clones);
        }
    }
}

// ------------------------------------------------------------ worker side

/// `c12 worker share <class> <seed> <index> <tier> <attempt>`
pub fn worker_main(a: &[String]) {
    let c = Case {
        class: a[3].clone(),
        seed: a[4].parse().expect("seed"),
        index: a[5].parse().expect("index"),
        tier: a[6].clone(),
        attempt: a.get(7).and_then(|s| s.parse().ok()).unwrap_or(0),
    };
    let mut rep = Report::default();
    println!("START {}", c.index);
    let _ = std::io::stdout().flush();
    match c.class.as_str() {
        "swap-rust" => swap_rust(&c, &mut rep),
        "swap-script" => swap_script(&c, &mut rep),
        "refcount-storm" => refcount_storm(&c, &mut rep),
        "into-func" => into_func(&c, &mut rep),
        "frame-slots" => super::frames::frame_slots(&c, &mut rep),
        "compile-race" => super::globals::compile_race(&c, &mut rep),
        "multi-runtime" => super::globals::multi_runtime(&c, &mut rep),
        "cross-thread-build" => super::crossthread::cross_thread_build(&c, &mut rep),
        other => rep.mismatch("unknown share class", json!({"class": other})),
    }
    rep.emit();
    let _ = std::io::stdout().flush();
}

// ------------------------------------------------------------ parent side

fn timeout(c: &Case) -> Duration {
    let base = if c.thorough() { 240 } else { 60 };
    Duration::from_secs(base * c.mult())
}

/// Runs one case in a worker; folds its report into `rep` (keeping a sample
/// only when `keep_sample`); a death or timeout becomes a violation. Returns
/// the number of violations this case added.
pub fn run_case(c: &Case, rep: &mut Report, keep_sample: bool) -> usize {
    let before = rep.impl_violations.len();
    let (seed, index, attempt) = (c.seed.to_string(), c.index.to_string(), c.attempt.to_string());
    let (ended, out) = worker::run_worker_keep_stdout(&["share", &c.class, &seed, &index, &c.tier, &attempt], timeout(c));
    if let Some(mut r) = Report::parse_stdout(&out) {
        if !keep_sample {
            r["samples"] = json!([]);
        }
        rep.merge_json(&r);
    }
    if !matches!(ended, Ended::Exit(0, _)) {
        let how = match &ended {
            Ended::Signal(s, _) => format!("signal {s}"),
            Ended::Exit(code, _) => format!("exit {code}"),
            Ended::Timeout => format!("timeout after {} s", timeout(c).as_secs()),
        };
        let phase = out.lines().rev().find_map(|l| l.strip_prefix("PHASE ")).map(|s| s.to_string());
        let params: Option<Value> = out.lines().rev().find_map(|l| l.strip_prefix("PARAMS ")).and_then(|j| serde_json::from_str(j).ok());
        rep.hist("share-class", c.class.as_str());
        rep.violation(
            match c.class.as_str() {
                "swap-rust" => "a process in which threads swap, read and push elements of Lists shared through the safe Rust API died or hung",
                "swap-script" => "a process in which threads call one compiled function through a shared handle on clones of one List died or hung",
                "frame-slots" => "a process in which threads call functions with by-reference locals, temporaries and return slots of all sizes through shared and cloned handles died or hung",
                "compile-race" => "a process in which threads compile, at the same moment, scripts that share identifiers new to the process died or hung",
                "multi-runtime" => "a process with several runtimes that register the same Rust types under different Roto names / scopes died or hung",
                "cross-thread-build" => "a process in which library items, a runtime, a package and a function handle are created on one thread and used on another died or hung",
                "refcount-storm" => "a process in which threads clone and drop a registered item, the runtime and a function handle while others compile against the shared runtime and call died or hung",
                _ => "a process calling the closure returned by TypedFunc::into_func while / after another thread dropped the package, the runtime and the other handles died or hung",
            },
            &format!("share-crash:{}", c.class),
            json!({"case": c.json(), "observed": {"ended": how, "attempt": c.attempt, "last_phase": phase, "params": params}}),
        );
    }
    rep.impl_violations.len() - before
}

/// The indices of one pass: every variant of every class.
fn schedule(tier: &str, pass: u64) -> Vec<(&'static str, u64)> {
    // frame-slots first: its class representatives (slot sizes around the powers of two, every role) are deterministic
    // then the classes about process-global tables (deterministic representatives: multi-runtime 0..4 (sequential | threads) x (names | scopes), compile-race 0..3 (one per variant))
    // cross-thread-build: deterministic representatives 0..3 (worker-builds, parallel-parts, context-worker, relay), then random step-to-thread assignments
    let per: [(&'static str, u64); 8] = if tier == "thorough" {
        [("cross-thread-build", 16), ("frame-slots", 24), ("multi-runtime", 16), ("compile-race", 12), ("swap-rust", 8), ("swap-script", 8), ("refcount-storm", 12), ("into-func", 8)]
    } else {
        [("cross-thread-build", 6), ("frame-slots", 8), ("multi-runtime", 8), ("compile-race", 4), ("swap-rust", 3), ("swap-script", 4), ("refcount-storm", 6), ("into-func", 4)]
    };
    let mut v = vec![];
    for (class, n) in per {
        for i in 0..n {
            v.push((class, pass * n + i));
        }
    }
    v
}

pub fn parse_focus(s: Option<&str>) -> Vec<String> {
    match s {
        Some(s) if !s.trim().is_empty() => s.split(',').map(|x| x.trim().to_string()).filter(|x| CLASSES.contains(&x.as_str())).collect(),
        _ => CLASSES.iter().map(|s| s.to_string()).collect(),
    }
}

/// One pass over the share classes (what `c12 run` does first).
pub fn run_pass(seed: u64, tier: &str, focus: &[String], pass: u64, attempt: u32, rep: &mut Report, sampled: &mut Vec<String>, deadline: Option<Instant>) -> usize {
    let mut found = 0;
    for (class, index) in schedule(tier, pass) {
        if !focus.iter().any(|f| f == class) {
            continue;
        }
        if let Some(d) = deadline {
            if pass > 0 && Instant::now() > d {
                break;
            }
        }
        let c = Case { class: class.to_string(), seed, index, tier: tier.to_string(), attempt };
        let keep = !sampled.iter().any(|s| s == class);
        if keep {
            sampled.push(class.to_string());
        }
        found += run_case(&c, rep, keep);
    }
    found
}

/// `c12 share <seed> <tier> [--focus c1,c2] [--budget-s N]`: search mode.
pub fn search(seed: u64, tier: &str, focus: &[String], budget: Duration, rep: &mut Report) {
    let start = Instant::now();
    let deadline = start + budget;
    let mut sampled = vec![];
    let mut pass = 0u64;
    loop {
        let attempt = pass.min(2) as u32;
        let found = run_pass(seed, tier, focus, pass, attempt, rep, &mut sampled, Some(deadline));
        *rep.histograms.entry("share-search".into()).or_default().entry("passes".into()).or_insert(0) += 1;
        pass += 1;
        if found > 0 || Instant::now() > deadline {
            break;
        }
    }
}

/// `c12 replay` of a share case: up to 8 attempts with escalating rounds.
pub fn replay(case: &Value, rep: &mut Report) {
    let mut c = Case {
        class: case["class"].as_str().unwrap_or("swap-rust").to_string(),
        seed: case["seed"].as_u64().unwrap_or(1),
        index: case["index"].as_u64().unwrap_or(0),
        tier: case["tier"].as_str().unwrap_or("quick").to_string(),
        attempt: 0,
    };
    for attempt in 0..8 {
        c.attempt = attempt;
        let found = run_case(&c, rep, attempt == 0);
        rep.hist("share-replay-attempts", c.class.as_str());
        if found > 0 {
            break;
        }
    }
}
