//! C12 share class `cross-thread-build`: no API value is THREAD-AFFINE.
//!
//! Library items (`Type`, `Function`, `Constant`, `Library`), `Runtime`,
//! `Package` and `TypedFunc` are `Send`: safe Rust may create each of them on
//! one thread and use it (register, add a context type, compile against it,
//! retrieve a function, call, drop) on another. The other share classes build
//! every runtime on the thread that uses it, so state that is keyed by the
//! RUNNING THREAD (a `thread_local!` table in front of a process-global one, a
//! per-thread cache that is taken for the table itself) is never reached.
//!
//! One history of ten steps
//!
//!   0 build `Type` Account = Val<Acct>          5 `with_context_type::<XCtx>` (field: Val<Lim>)
//!   1 build `Function`s over Val<Acct>,          6 compile (script without / with context)
//!     Option<Val<Acct>>                          7 `get_function`
//!   2 build `Constant` K: Val<Acct>              8 call (several arguments)
//!   3 build `library!` Limits = Val<Lim> + method 9 drop handles, packages, runtimes
//!   4 merge into one `Library`, `Runtime::from_lib`
//!
//! is run twice in one worker process: with the steps distributed over the
//! threads of a pool (`who[step]`; threads that have never touched roto before
//! their first step), and with every step on ONE fresh thread. Steps 0-3 run
//! at the same moment when their threads differ. Oracle (property: "every call
//! returns what the same call returns single-threaded", for values the API
//! lets safe code send to another thread): the observations of the
//! distributed history equal those of the one-thread history, which equal the
//! closed form of the scripts. A panic of a step is caught on its thread and is
//! an observation ("step 4 panicked: …").
//!
//! Class representatives (index < 4, independent of the seed):
//!   0 `worker-builds`   items on worker threads one after the other, registered on another thread, every later step on a thread of its own
//!   1 `parallel-parts`  steps 0-3 on four threads at the same moment, registered by a fifth, used from others
//!   2 `context-worker`  the context field's type is built on a worker, the context type registered on another thread than the runtime was built on
//!   3 `relay`           everything up to the runtime on thread A, compiled on B, retrieved on C, called on D, dropped on E
//! index >= 4: `who` drawn from the PRNG over 2-5 threads (threads are reused, so
//! some steps find their thread warm and others cold).

use super::share::{Bad, Case, announce};
use roto::{Constant, Context, Ctx, FileTree, Function, Library, NoCtx, Registerable, Runtime, Type, Val, library, location};
use rotov_harness::Report;
use serde_json::{Value, json};
use std::sync::mpsc;

#[derive(Clone, Debug, PartialEq)]
struct Acct {
    balance: i64,
}

#[derive(Clone, Debug, PartialEq)]
struct Lim {
    max: i64,
}

#[derive(Clone, Context)]
struct XCtx {
    /// the limits that apply
    pub limits: Val<Lim>,
}

const N_STEPS: usize = 10;
const STEP_NAMES: [&str; N_STEPS] = [
    "build Type Account = Val<Acct>",
    "build Functions over Val<Acct> / Option<Val<Acct>>",
    "build Constant K: Val<Acct>",
    "build library! Limits = Val<Lim>",
    "merge the items, Runtime::from_lib",
    "with_context_type::<XCtx>",
    "compile",
    "get_function",
    "call",
    "drop",
];
const MK_OFF: i64 = 1000;
const K_BAL: i64 = 77;
const CTX_MAX: i64 = 7;

const SRC_PLAIN: &str = "fn main(a: Account?, x: i64) -> i64 {\n    balance_of(a) + get_acct(mk_acct(x)) + get_acct(K)\n}\n";
const SRC_CTX: &str = "fn main(a: Account?, x: i64) -> i64 {\n    balance_of(a) + get_acct(mk_acct(x)) + get_acct(K) + limits.max()\n}\n";

fn closed_form(a: Option<i64>, x: i64, ctx: bool) -> i64 {
    a.unwrap_or(0) + (x + MK_OFF) + K_BAL + if ctx { CTX_MAX } else { 0 }
}

fn short(e: impl std::fmt::Display) -> String {
    let mut s = String::new();
    let mut esc = false;
    for ch in e.to_string().chars() {
        if esc {
            esc = ch != 'm';
        } else if ch == '\u{1b}' {
            esc = true;
        } else if ch == '\n' || (ch as u32 >= 0x2500 && ch as u32 <= 0x257f) {
            s.push(' ');
        } else {
            s.push(ch);
        }
    }
    let s: String = s.split_whitespace().collect::<Vec<_>>().join(" ");
    s.chars().take(240).collect()
}

// ------------------------------------------------------------ a pool of named threads

type Job = Box<dyn FnOnce() + Send + 'static>;

struct Pool {
    txs: Vec<mpsc::Sender<Job>>,
    hs: Vec<std::thread::JoinHandle<()>>,
}

impl Pool {
    fn new(n: usize, tag: &str) -> Pool {
        let mut txs = vec![];
        let mut hs = vec![];
        for i in 0..n {
            let (tx, rx) = mpsc::channel::<Job>();
            txs.push(tx);
            hs.push(
                std::thread::Builder::new()
                    .name(format!("{tag}{i}"))
                    .stack_size(16 << 20)
                    .spawn(move || {
                        for job in rx {
                            job()
                        }
                    })
                    .expect("pool thread"),
            );
        }
        Pool { txs, hs }
    }
    /// starts `f` on thread `tid`; a panic of `f` is caught there and becomes `Err`
    fn start<T: Send + 'static>(&self, tid: usize, f: impl FnOnce() -> Result<T, String> + Send + 'static) -> mpsc::Receiver<Result<T, String>> {
        let (tx, rx) = mpsc::channel();
        let job: Job = Box::new(move || {
            let r = match std::panic::catch_unwind(std::panic::AssertUnwindSafe(f)) {
                Ok(r) => r,
                Err(p) => {
                    let msg = p.downcast_ref::<&str>().map(|s| s.to_string()).or_else(|| p.downcast_ref::<String>().cloned()).unwrap_or_else(|| "?".into());
                    Err(format!("panicked: {}", short(msg)))
                }
            };
            let _ = tx.send(r);
        });
        self.txs[tid].send(job).expect("pool thread alive");
        rx
    }
    fn finish(self) {
        drop(self.txs);
        for h in self.hs {
            let _ = h.join();
        }
    }
}

fn wait<T>(rx: mpsc::Receiver<Result<T, String>>) -> Result<T, String> {
    rx.recv().unwrap_or_else(|_| Err("the thread of this step died".into()))
}

// ------------------------------------------------------------ the history

/// one observation: (what was asked, what came out)
type Obs = (String, String);

fn step_err(step: usize, who: &[usize], e: String) -> Obs {
    (format!("step {step} ({})", STEP_NAMES[step]), format!("failed on thread {}: {e}", who[step]))
}

fn args() -> Vec<(Option<i64>, i64)> {
    vec![(Some(41), 1), (None, 5), (Some(-3), 1 << 40)]
}

/// what the history must give: the closed form of the two scripts
fn expected() -> Vec<Obs> {
    let mut out = vec![];
    for ctx in [false, true] {
        for (a, x) in args() {
            out.push((format!("{} main({a:?}, {x})", if ctx { "with-context" } else { "plain" }), closed_form(a, x, ctx).to_string()));
        }
    }
    out.push(("drop".into(), "done".into()));
    out
}

/// runs the ten steps, step `s` on thread `who[s]` of the pool; stops at the first step that fails
fn history(pool: &Pool, who: &[usize]) -> Vec<Obs> {
    let mut out: Vec<Obs> = vec![];
    // steps 0-3: all started before any is waited for (at the same moment when their threads differ)
    let r0 = pool.start(who[0], || Type::clone::<Val<Acct>>("Account", "a bank account", location!()).map_err(short));
    let r1 = pool.start(who[1], || {
        let a = Function::new("balance_of", "the balance of an account, if there is one", vec!["a"], |a: Option<Val<Acct>>| -> i64 { a.map(|a| a.balance).unwrap_or(0) }, location!())
            .map_err(short)?;
        let b = Function::new("mk_acct", "make an account", vec!["x"], |x: i64| -> Val<Acct> { Val(Acct { balance: x + MK_OFF }) }, location!()).map_err(short)?;
        let c = Function::new("get_acct", "the balance of an account", vec!["a"], |a: Val<Acct>| -> i64 { a.balance }, location!()).map_err(short)?;
        Ok((a, b, c))
    });
    let r2 = pool.start(who[2], || Constant::new("K", "a constant account", Val(Acct { balance: K_BAL }), location!()).map_err(short));
    let r3 = pool.start(who[3], || {
        Ok(library! {
            /// Limits
            #[clone] type Limits = Val<Lim>;

            impl Val<Lim> {
                /// The maximum
                fn max(self) -> i64 {
                    self.max
                }
            }
        })
    });
    let ty = match wait(r0) {
        Ok(v) => v,
        Err(e) => {
            out.push(step_err(0, who, e));
            return out;
        }
    };
    let fns = match wait(r1) {
        Ok(v) => v,
        Err(e) => {
            out.push(step_err(1, who, e));
            return out;
        }
    };
    let k = match wait(r2) {
        Ok(v) => v,
        Err(e) => {
            out.push(step_err(2, who, e));
            return out;
        }
    };
    let limits: Library = match wait(r3) {
        Ok(v) => v,
        Err(e) => {
            out.push(step_err(3, who, e));
            return out;
        }
    };
    // step 4
    let rt: Runtime<NoCtx> = match wait(pool.start(who[4], move || {
        let mut lib = Library::new();
        ty.add_to_lib(&mut lib);
        fns.0.add_to_lib(&mut lib);
        fns.1.add_to_lib(&mut lib);
        fns.2.add_to_lib(&mut lib);
        k.add_to_lib(&mut lib);
        limits.add_to_lib(&mut lib);
        Runtime::from_lib(lib).map_err(short)
    })) {
        Ok(v) => v,
        Err(e) => {
            out.push(step_err(4, who, e));
            return out;
        }
    };
    // step 5 (on a clone: the runtime without context is used too)
    let rt2 = rt.clone();
    let rtc: Runtime<Ctx<XCtx>> = match wait(pool.start(who[5], move || rt2.with_context_type::<XCtx>().map_err(short))) {
        Ok(v) => v,
        Err(e) => {
            out.push(step_err(5, who, e));
            return out;
        }
    };
    // steps 6-8, plain
    let (rt, pkg) = match wait(pool.start(who[6], move || {
        let pkg = FileTree::test_file("xthread.roto", SRC_PLAIN, 0).compile(&rt).map_err(short)?;
        Ok((rt, pkg))
    })) {
        Ok(v) => v,
        Err(e) => {
            out.push(step_err(6, who, format!("plain script: {e}")));
            return out;
        }
    };
    let (pkg, f) = match wait(pool.start(who[7], move || {
        let mut pkg = pkg;
        let f = pkg.get_function::<fn(Option<Val<Acct>>, i64) -> i64>("main").map_err(|e| short(format!("{e:?}")))?;
        Ok((pkg, f))
    })) {
        Ok(v) => v,
        Err(e) => {
            out.push(step_err(7, who, format!("plain script: {e}")));
            return out;
        }
    };
    let f2 = f.clone();
    match wait(pool.start(who[8], move || Ok(args().into_iter().map(|(a, x)| f2.call(a.map(|b| Val(Acct { balance: b })), x)).collect::<Vec<i64>>()))) {
        Ok(v) => {
            for ((a, x), r) in args().into_iter().zip(v) {
                out.push((format!("plain main({a:?}, {x})"), r.to_string()));
            }
        }
        Err(e) => {
            out.push(step_err(8, who, format!("plain script: {e}")));
            return out;
        }
    }
    // steps 6-8, with context
    let (rtc, pkgc) = match wait(pool.start(who[6], move || {
        let pkg = FileTree::test_file("xthread_ctx.roto", SRC_CTX, 0).compile(&rtc).map_err(short)?;
        Ok((rtc, pkg))
    })) {
        Ok(v) => v,
        Err(e) => {
            out.push(step_err(6, who, format!("script with context: {e}")));
            return out;
        }
    };
    let (pkgc, fc) = match wait(pool.start(who[7], move || {
        let mut pkg = pkgc;
        let f = pkg.get_function::<fn(Option<Val<Acct>>, i64) -> i64>("main").map_err(|e| short(format!("{e:?}")))?;
        Ok((pkg, f))
    })) {
        Ok(v) => v,
        Err(e) => {
            out.push(step_err(7, who, format!("script with context: {e}")));
            return out;
        }
    };
    let fc2 = fc.clone();
    match wait(pool.start(who[8], move || {
        let mut cx = XCtx { limits: Val(Lim { max: CTX_MAX }) };
        Ok(args().into_iter().map(|(a, x)| fc2.call(&mut cx, a.map(|b| Val(Acct { balance: b })), x)).collect::<Vec<i64>>())
    })) {
        Ok(v) => {
            for ((a, x), r) in args().into_iter().zip(v) {
                out.push((format!("with-context main({a:?}, {x})"), r.to_string()));
            }
        }
        Err(e) => {
            out.push(step_err(8, who, format!("script with context: {e}")));
            return out;
        }
    }
    // step 9
    match wait(pool.start(who[9], move || {
        drop(f);
        drop(fc);
        drop(pkg);
        drop(pkgc);
        drop(rt);
        drop(rtc);
        Ok(())
    })) {
        Ok(()) => out.push(("drop".into(), "done".into())),
        Err(e) => out.push(step_err(9, who, e)),
    }
    out
}

const VARIANTS: [&str; 4] = ["worker-builds", "parallel-parts", "context-worker", "relay"];

/// (threads in the pool, thread of every step)
fn plan(c: &Case) -> (String, usize, Vec<usize>) {
    match c.index {
        // items one worker after the other (0,1 share a worker; 2,3 another), registered on 2, context on 2, then one thread per step
        0 => (VARIANTS[0].into(), 7, vec![0, 0, 1, 1, 2, 2, 3, 4, 5, 6]),
        // four builders at the same moment, a fifth registers, others use
        1 => (VARIANTS[1].into(), 8, vec![0, 1, 2, 3, 4, 4, 5, 6, 7, 5]),
        // the runtime (and the Account items) on thread 0, the Limits library on worker 1, the context type on thread 2
        2 => (VARIANTS[2].into(), 4, vec![0, 0, 0, 1, 0, 2, 3, 3, 3, 3]),
        // everything up to the runtime on A, then B, C, D, E
        3 => (VARIANTS[3].into(), 5, vec![0, 0, 0, 0, 0, 0, 1, 2, 3, 4]),
        _ => {
            let mut p = c.prng(12);
            let n = 2 + p.below(4) as usize;
            let who: Vec<usize> = (0..N_STEPS).map(|_| p.below(n as u64) as usize).collect();
            ("random".into(), n, who)
        }
    }
}

pub fn cross_thread_build(c: &Case, rep: &mut Report) {
    let (variant, n_threads, who) = plan(c);
    let case = c.json();
    announce(&json!({"variant": variant, "threads": n_threads, "thread_of_step": who}));
    rep.hist("share-class", "cross-thread-build");
    rep.hist("cross-thread-build-variant", variant.as_str());
    println!("PHASE the ten steps distributed over {n_threads} threads");
    let pool = Pool::new(n_threads, "xt");
    let got = history(&pool, &who);
    pool.finish();
    println!("PHASE the same ten steps on one fresh thread");
    let solo = Pool::new(1, "solo");
    let alone = history(&solo, &vec![0; N_STEPS]);
    solo.finish();
    let want = expected();
    rep.evaluations += want.len() as u64;
    let steps: Vec<Value> = (0..N_STEPS).map(|s| json!({"step": s, "what": STEP_NAMES[s], "thread": who[s]})).collect();
    if alone != want {
        // the one-thread history is the reference of the property; if it is not the closed form the harness' model of the scripts is wrong (or the tree is broken single-threaded)
        rep.mismatch(
            "share cross-thread-build: the ten steps on ONE thread do not give the closed form of the scripts",
            json!({"case": case, "one_thread": alone, "closed_form": want, "sources": [SRC_PLAIN, SRC_CTX]}),
        );
    }
    if got != alone {
        let bad = Bad::new();
        for (i, o) in got.iter().enumerate() {
            if alone.get(i) != Some(o) {
                bad.push(json!({"observation": o.0, "distributed": o.1, "on_one_thread": alone.get(i).map(|a| format!("{}: {}", a.0, a.1))}));
            }
        }
        rep.violation(
            "library items, a runtime, a package or a function handle (all Send) created on one thread and registered / given a context type / compiled against / retrieved / called / dropped on another \
             do not behave as the same steps on one thread (state keyed by the running thread is reachable from the API)",
            &format!("share-cross-thread-build:outcome-differs:{variant}"),
            json!({"case": case, "observed": {"variant": variant, "steps": steps, "distributed": got, "on_one_thread": alone, "first": bad.take()}, "sources": [SRC_PLAIN, SRC_CTX]}),
        );
    }
    let distinct = {
        let mut w = who.clone();
        w.sort();
        w.dedup();
        w.len()
    };
    let cold_register = !who[..4].iter().all(|t| *t == who[4]);
    rep.class(format!("share cross-thread-build {variant} threads={distinct} register-on-builder={}", !cold_register));
    rep.sample(json!({"case": case, "family": "cross-thread-build", "variant": variant, "steps": steps, "observations": got}));
}
