//! C12 share class `frame-slots`: the memory of an activation is private to it.
//!
//! The model (T5 `Exec.resolve`, T7 `frame_slots_private`) gives every
//! activation of a compiled function fresh memory for its by-reference locals,
//! temporaries, arguments and return slots, whatever their size. This class
//! checks that on the machine code: one script per slot size (records of 8 B up
//! to > 64 KiB, sizes around the powers of two first) with the big value in
//! every role a slot can have —
//!
//! * `local`  a `let` that is built, modified in a loop and summed,
//! * `arg`    a temporary passed by reference to a callee that reads it,
//! * `ret`    a value built in a callee's local and returned through the
//!            caller's return slot,
//! * `recursive` a local that is live across a recursive call (re-entrancy,
//!            single-threaded: the closed form is the oracle).
//!
//! Every cell of the value depends on the call's argument, so a call that sees
//! bytes of another activation returns a wrong sum. Between building the value
//! and reading it the script calls the registered function `meet`, on which the
//! calling threads rendezvous: all N activations are live at the same time in
//! every round (no luck involved). A second, free-running phase follows.
//! Oracle: the same call single-threaded (and the closed form of the sum).

use super::share::{Bad, Case, announce};
use roto::{FileTree, NoCtx, Runtime, TypedFunc, Val, library};
use rotov_harness::Report;
use serde_json::json;
use std::sync::Arc;
use std::sync::atomic::{AtomicBool, AtomicU64, AtomicUsize, Ordering};
use std::time::{Duration, Instant};

/// Slot sizes in rows of 64 bytes, class representatives first: 8 B (`rows = 0`),
/// 64 B, 512 B | 576 B, 1 KiB | 1088 B, 4 KiB | 4160 B, 32 KiB + 64, 64 KiB + 64,
/// 256 KiB + 64 (every thread of a case has a 256 MiB stack).
const QUICK_ROWS: [usize; 8] = [9, 65, 1, 513, 17, 1025, 0, 4097];
const MORE_ROWS: [usize; 10] = [8, 16, 64, 2, 128, 512, 33, 1024, 2049, 8193];
const STACK: usize = 256 << 20;

pub fn rows_of(c: &Case) -> usize {
    let i = c.index as usize;
    if i < QUICK_ROWS.len() {
        QUICK_ROWS[i]
    } else if i < QUICK_ROWS.len() + MORE_ROWS.len() {
        MORE_ROWS[i - QUICK_ROWS.len()]
    } else {
        // anywhere up to 96 KiB, biased to small
        let mut p = c.prng(5);
        match p.below(3) {
            0 => 1 + p.below(24) as usize,
            1 => 1 + p.below(200) as usize,
            _ => 1 + p.below(1536) as usize,
        }
    }
}

/// rendezvous of the calling threads inside the script
struct Meet {
    armed: AtomicBool,
    parties: AtomicUsize,
    arrived: AtomicUsize,
    generation: AtomicUsize,
    met: AtomicU64,
    timed_out: AtomicU64,
}

impl Meet {
    fn wait(&self) {
        if !self.armed.load(Ordering::SeqCst) {
            return;
        }
        let n = self.parties.load(Ordering::SeqCst);
        let g = self.generation.load(Ordering::SeqCst);
        if self.arrived.fetch_add(1, Ordering::SeqCst) + 1 >= n {
            self.arrived.store(0, Ordering::SeqCst);
            self.met.fetch_add(1, Ordering::Relaxed);
            self.generation.fetch_add(1, Ordering::SeqCst);
            return;
        }
        let start = Instant::now();
        let mut spins = 0u32;
        while self.generation.load(Ordering::SeqCst) == g {
            spins += 1;
            if spins % 64 == 0 {
                std::thread::yield_now();
                if !self.armed.load(Ordering::SeqCst) {
                    return;
                }
                if start.elapsed() > Duration::from_secs(5) {
                    // never hang: give up the rendezvous for the rest of the case
                    self.timed_out.fetch_add(1, Ordering::Relaxed);
                    self.armed.store(false, Ordering::SeqCst);
                    return;
                }
            }
        }
    }
}

/// a host value that crosses the host boundary by reference in both directions
/// (argument: pointer into the host's frame; result: the host's return buffer)
#[derive(Clone, PartialEq, Debug)]
pub struct Blob {
    words: [u64; BLOB_WORDS],
}

const BLOB_WORDS: usize = 32;

impl Blob {
    fn new(x: u64) -> Self {
        let mut words = [0u64; BLOB_WORDS];
        for (k, w) in words.iter_mut().enumerate() {
            *w = x + k as u64;
        }
        Blob { words }
    }
    fn sum(&self) -> u64 {
        self.words.iter().fold(0u64, |a, w| a.wrapping_add(*w))
    }
}

fn runtime(meet: Arc<Meet>) -> Runtime<NoCtx> {
    let lib = library! {

        /// 32 words, passed and returned by reference
        #[clone] type Blob = Val<Blob>;

        /// all calling threads wait here for each other; returns 0
        let meet = move |_tag: u64| -> u64 {
            meet.wait();
            0
        };
    };
    Runtime::from_lib(lib).expect("frame-slots runtime")
}

const CELLS: [&str; 8] = ["a", "b", "c", "d", "e", "f", "g", "h"];

/// (pages of 64 rows, blocks of 8 rows, single rows)
fn parts(rows: usize) -> (usize, usize, usize) {
    if rows <= 16 { (0, 0, rows) } else { (rows / 64, (rows % 64) / 8, rows % 8) }
}

/// number of `u64` cells of the value
pub fn cells(rows: usize) -> u64 {
    if rows == 0 { 1 } else { 8 * rows as u64 }
}

/// The script: cell `k` of `make(x)` holds `x + k`.
pub fn source(rows: usize) -> String {
    let mut s = String::new();
    s += "record Small { a: u64, b: u64 }\n";
    if rows == 0 {
        s += "record T { a: u64 }\n";
        s += "fn make(x: u64) -> T { T { a: x } }\n";
        s += "fn sum(t: T) -> u64 { t.a }\n";
    } else {
        let (np, nb, nr) = parts(rows);
        s += "record Row { a: u64, b: u64, c: u64, d: u64, e: u64, f: u64, g: u64, h: u64 }\n";
        s += "fn row(x: u64) -> Row { Row { a: x, b: x + 1, c: x + 2, d: x + 3, e: x + 4, f: x + 5, g: x + 6, h: x + 7 } }\n";
        s += "fn sum_row(r: Row) -> u64 { r.a + r.b + r.c + r.d + r.e + r.f + r.g + r.h }\n";
        if np + nb > 0 {
            s += &format!("record Block {{ {} }}\n", (0..8).map(|i| format!("r{i}: Row")).collect::<Vec<_>>().join(", "));
            s += &format!("fn block(x: u64) -> Block {{ Block {{ {} }} }}\n", (0..8).map(|i| format!("r{i}: row(x + {})", 8 * i)).collect::<Vec<_>>().join(", "));
            s += &format!("fn sum_block(b: Block) -> u64 {{ {} }}\n", (0..8).map(|i| format!("sum_row(b.r{i})")).collect::<Vec<_>>().join(" + "));
        }
        if np > 0 {
            s += &format!("record Page {{ {} }}\n", (0..8).map(|i| format!("b{i}: Block")).collect::<Vec<_>>().join(", "));
            s += &format!("fn page(x: u64) -> Page {{ Page {{ {} }} }}\n", (0..8).map(|i| format!("b{i}: block(x + {})", 64 * i)).collect::<Vec<_>>().join(", "));
            s += &format!("fn sum_page(p: Page) -> u64 {{ {} }}\n", (0..8).map(|i| format!("sum_block(p.b{i})")).collect::<Vec<_>>().join(" + "));
        }
        let mut fields = vec![];
        let mut inits = vec![];
        let mut sums = vec![];
        let mut off = 0usize;
        for i in 0..np {
            fields.push(format!("p{i}: Page"));
            inits.push(format!("p{i}: page(x + {off})"));
            sums.push(format!("sum_page(t.p{i})"));
            off += 512;
        }
        for i in 0..nb {
            fields.push(format!("b{i}: Block"));
            inits.push(format!("b{i}: block(x + {off})"));
            sums.push(format!("sum_block(t.b{i})"));
            off += 64;
        }
        for i in 0..nr {
            fields.push(format!("r{i}: Row"));
            inits.push(format!("r{i}: row(x + {off})"));
            sums.push(format!("sum_row(t.r{i})"));
            off += 8;
        }
        s += &format!("record T {{ {} }}\n", fields.join(", "));
        s += &format!("fn make(x: u64) -> T {{ T {{ {} }} }}\n", inits.join(", "));
        s += &format!("fn sum(t: T) -> u64 {{ {} }}\n", sums.join(" + "));
    }
    let (first, last) = first_last(rows);
    // local: built, modified in a loop, rendezvous, modified again, summed
    s += &format!(
        "fn local(x: u64, rounds: u64) -> u64 {{\n  let t = make(x);\n  let s = Small {{ a: x, b: x + 1 }};\n  let i = 0;\n  while i < rounds {{\n    t.{first} = t.{first} + 1;\n    t.{last} = t.{last} + 1;\n    i = i + 1;\n  }}\n  let w = meet(x);\n  t.{last} = t.{last} + w;\n  sum(t) + s.a + s.b + w\n}}\n"
    );
    // arg: a temporary in the caller's frame, read by a callee after the rendezvous
    s += "fn sum_after(t: T, x: u64) -> u64 {\n  let w = meet(x);\n  sum(t) + w\n}\n";
    s += "fn arg(x: u64, rounds: u64) -> u64 { sum_after(make(x + rounds), x) }\n";
    // ret: a callee's local returned through the caller's return slot
    s += &format!("fn made(x: u64) -> T {{\n  let t = make(x);\n  let w = meet(x);\n  t.{first} = t.{first} + w;\n  t\n}}\n");
    s += "fn ret(x: u64, rounds: u64) -> u64 {\n  let t = made(x);\n  let u = made(x + rounds);\n  sum(t) + sum(u)\n}\n";
    // host: the argument lives in the host's frame, the result goes to the host's return buffer
    // (the result reaches the return buffer only with the last copy before `return`: that window cannot be
    // widened from a script, so for the return buffer the free-running phase is a stress test, not a decision)
    s += "fn pass(b: Blob, x: u64) -> Blob {\n  let keep = b;\n  let w = meet(x);\n  if w == 0 { keep } else { b }\n}\n";
    s += "fn host(b: Blob, x: u64) -> Blob { pass(b, x) }\n";
    // recursive: a local that is live across the recursive call
    s += "fn recursive(x: u64, d: u64) -> u64 {\n  let t = make(x + d);\n  let below = if d > 0 { recursive(x, d - 1) } else { 0 };\n  sum(t) + below\n}\n";
    s
}

fn first_last(rows: usize) -> (String, String) {
    if rows == 0 {
        return ("a".into(), "a".into());
    }
    let (np, nb, nr) = parts(rows);
    let first = if np > 0 {
        "p0.b0.r0.a".to_string()
    } else if nb > 0 {
        "b0.r0.a".to_string()
    } else {
        "r0.a".to_string()
    };
    let last = if nr > 0 {
        format!("r{}.h", nr - 1)
    } else if nb > 0 {
        format!("b{}.r7.h", nb - 1)
    } else {
        format!("p{}.b7.r7.h", np - 1)
    };
    (first, last)
}

/// closed form of `sum(make(x))`
fn total(rows: usize, x: u64) -> u64 {
    let c = cells(rows);
    c * x + c * (c - 1) / 2
}

pub fn expected(rows: usize, role: &str, x: u64, k: u64) -> u64 {
    match role {
        "local" => total(rows, x) + 2 * k + 2 * x + 1,
        "arg" => total(rows, x + k),
        "ret" => total(rows, x) + total(rows, x + k),
        "host" => Blob::new(x).sum(),
        _ => (0..=k).map(|d| total(rows, x + d)).sum(),
    }
}

pub const ROLES: [&str; 4] = ["local", "arg", "ret", "recursive"];
/// + `host`: a `Val<Blob>` argument and result across the host boundary
pub const CONCURRENT_ROLES: [&str; 4] = ["local", "arg", "ret", "host"];
type FH = TypedFunc<NoCtx, fn(Val<Blob>, u64) -> Val<Blob>>;

type F2 = TypedFunc<NoCtx, fn(u64, u64) -> u64>;

pub fn frame_slots(c: &Case, rep: &mut Report) {
    // big frames, recursion: never depend on the default stack size
    std::thread::scope(|s| {
        std::thread::Builder::new()
            .stack_size(STACK)
            .spawn_scoped(s, || frame_slots_inner(c, rep))
            .expect("spawn")
            .join()
            .expect("frame-slots thread");
    });
}

fn frame_slots_inner(c: &Case, rep: &mut Report) {
    let mut p = c.prng(5);
    let rows = rows_of(c);
    let bytes = cells(rows) * 8;
    let n_threads = 2 + p.below(3) as usize; // 2..4
    let met_calls = 100 * c.mult();
    let free_calls = if c.thorough() { 4000 } else { 1000 } * c.mult();
    let rounds = 1 + p.below(40);
    let depth = 2 + p.below(4);
    let src = source(rows);
    rep.hist("share-class", "frame-slots");
    rep.hist("frame-slot-bytes", bytes.to_string());
    let case = c.json();
    announce(&json!({"rows": rows, "slot_bytes": bytes, "threads": n_threads, "rounds": rounds, "depth": depth}));

    let meet = Arc::new(Meet {
        armed: AtomicBool::new(false),
        parties: AtomicUsize::new(n_threads),
        arrived: AtomicUsize::new(0),
        generation: AtomicUsize::new(0),
        met: AtomicU64::new(0),
        timed_out: AtomicU64::new(0),
    });
    let rt = runtime(meet.clone());
    println!("PHASE compile");
    let mut pkg = match FileTree::test_file("frames.roto", &src, 0).compile(&rt) {
        Ok(p) => p,
        Err(e) => {
            rep.mismatch("share frame-slots: the script does not compile", json!({"case": case, "rows": rows, "error": format!("{e}")}));
            return;
        }
    };
    let mut fs: Vec<F2> = vec![];
    for role in ROLES {
        match pkg.get_function::<fn(u64, u64) -> u64>(role) {
            Ok(f) => fs.push(f),
            Err(e) => {
                rep.mismatch("share frame-slots: function not retrievable", json!({"case": case, "role": role, "error": format!("{e:?}")}));
                return;
            }
        }
    }

    let fh: FH = match pkg.get_function("host") {
        Ok(f) => f,
        Err(e) => {
            rep.mismatch("share frame-slots: function not retrievable", json!({"case": case, "role": "host", "error": format!("{e:?}")}));
            return;
        }
    };

    // per thread two arguments, all distinct
    let xs: Vec<[u64; 2]> = (0..n_threads as u64).map(|t| [1 + 100_000 * (t + 1) + p.below(5000), 7 + 100_000 * (t + 11) + p.below(5000)]).collect();

    // single-threaded: the oracle, checked against the closed form
    println!("PHASE single-threaded oracle");
    for (ri, role) in ROLES.iter().enumerate() {
        let k = if *role == "recursive" { depth } else { rounds };
        for x in xs.iter().flatten() {
            let got = fs[ri].call(*x, k);
            let want = expected(rows, role, *x, k);
            rep.evaluations += 1;
            if got != want {
                if *role == "recursive" {
                    rep.violation(
                        "a by-reference local that is live across a recursive call does not survive it: the memory of a slot variable is not private to an activation (the frames of T5 / T7 are fresh per activation; any two activations alive at the same time — on two threads just as well — share these bytes)",
                        "share-frame-slot-not-per-activation:recursive",
                        json!({"case": case, "observed": {"role": role, "rows": rows, "slot_bytes": bytes, "x": x, "depth": k, "got": got, "expected": want}, "source": src}),
                    );
                    // the concurrent roles below are judged on their own
                    break;
                } else {
                    rep.mismatch(
                        "share frame-slots: a single-threaded call does not return the closed form of the generated script",
                        json!({"case": case, "role": role, "rows": rows, "x": x, "rounds": k, "got": got, "expected": want, "source": src}),
                    );
                    return;
                }
            }
        }
    }

    for x in xs.iter().flatten() {
        let got = fh.call(Val(Blob::new(*x)), *x).0;
        rep.evaluations += 1;
        if got != Blob::new(*x) {
            rep.mismatch(
                "share frame-slots: a single-threaded call does not return the host value it was given",
                json!({"case": case, "role": "host", "x": x, "got": format!("{:?}", &got.words[..4]), "source": src}),
            );
            return;
        }
    }

    // concurrent: phase 1 with the rendezvous armed, phase 2 free-running
    for (ri, role) in CONCURRENT_ROLES.iter().enumerate() {
        // one caller per thread: even threads share the handle, odd threads own a clone
        let callers: Vec<Box<dyn Fn(u64, u64) -> u64 + Send + Sync + '_>> = (0..n_threads)
            .map(|tid| -> Box<dyn Fn(u64, u64) -> u64 + Send + Sync + '_> {
                if *role == "host" {
                    if tid % 2 == 1 {
                        let h = fh.clone();
                        Box::new(move |x, _k| h.call(Val(Blob::new(x)), x).0.sum())
                    } else {
                        let h = &fh;
                        Box::new(move |x, _k| h.call(Val(Blob::new(x)), x).0.sum())
                    }
                } else if tid % 2 == 1 {
                    let h = fs[ri].clone();
                    Box::new(move |x, k| h.call(x, k))
                } else {
                    let h = &fs[ri];
                    Box::new(move |x, k| h.call(x, k))
                }
            })
            .collect();
        for (phase, calls) in [("rendezvous", met_calls), ("free-running", free_calls)] {
            println!("PHASE concurrent {role} {phase}");
            meet.arrived.store(0, Ordering::SeqCst);
            meet.armed.store(phase == "rendezvous", Ordering::SeqCst);
            let bad = Bad::new();
            let start = std::sync::Barrier::new(n_threads);
            std::thread::scope(|s| {
                for tid in 0..n_threads {
                    let (bad, start, xs, call) = (&bad, &start, &xs, &callers[tid]);
                    std::thread::Builder::new().stack_size(STACK).spawn_scoped(s, move || {
                        start.wait();
                        for m in 0..calls {
                            let x = xs[tid][(m % 2) as usize];
                            let got = call(x, rounds);
                            let want = expected(rows, role, x, rounds);
                            if got != want {
                                bad.push(json!({"thread": tid, "handle": if tid % 2 == 1 { "cloned" } else { "shared" }, "call": m, "x": x, "rounds": rounds, "got": got, "single_threaded": want}));
                            }
                        }
                    })
                    .expect("spawn");
                }
            });
            meet.armed.store(false, Ordering::SeqCst);
            rep.evaluations += calls * n_threads as u64;
            *rep.histograms.entry("concurrent".into()).or_default().entry("calls".into()).or_insert(0) += calls * n_threads as u64;
            let bad = bad.take();
            if !bad.is_empty() {
                rep.violation(
                    if *role == "host" {
                        "a call made while other threads were inside the same function (through shared and cloned handles) returned another host value than the one it was given: the by-reference argument / the return buffer of the host is not private to the call"
                    } else {
                        "a call made while other threads were inside the same function (through shared and cloned handles) returned something else than the same call single-threaded: a by-reference local / temporary / return slot is not private to the activation"
                    },
                    &format!("share-frame-slot-interference:{role}"),
                    json!({"case": case, "observed": {"role": role, "phase": phase, "rows": rows, "slot_bytes": bytes, "threads": n_threads, "calls_per_thread": calls,
                        "rendezvous_rounds": meet.met.load(Ordering::Relaxed), "mismatches": bad}, "source": src}),
                );
                break;
            }
        }
    }
    if meet.timed_out.load(Ordering::Relaxed) > 0 {
        rep.notes.push(format!("frame-slots case {}: the rendezvous timed out {} time(s) (machine too busy); the remaining rounds ran free", c.index, meet.timed_out.load(Ordering::Relaxed)));
    }
    *rep.histograms.entry("frame-slots".into()).or_default().entry("rendezvous-rounds".into()).or_insert(0) += meet.met.load(Ordering::Relaxed);
    let size_class = match bytes {
        0..=64 => "<=64",
        65..=512 => "<=512",
        513..=4096 => "<=4096",
        4097..=65536 => "<=65536",
        _ => ">65536",
    };
    rep.class(format!("share frame-slots bytes{size_class} t={n_threads}"));
    rep.sample(json!({"case": case, "family": "frame-slots", "rows": rows, "slot_bytes": bytes, "threads": n_threads, "rendezvous_rounds": meet.met.load(Ordering::Relaxed),
        "free_calls_per_thread": free_calls, "roles": ["local", "arg", "ret", "host", "recursive"], "source_head": src.chars().take(400).collect::<String>()}));
    drop(fs);
    drop(pkg);
}
