//! Crash isolation: run a case in a child process (this same binary invoked
//! with `worker <payload>`), with a timeout; report how it ended.

use std::io::Read;
use std::process::{Command, Stdio};
use std::time::{Duration, Instant};

#[derive(Debug, Clone, PartialEq)]
pub enum Ended {
    /// exited normally with this status; stdout captured
    Exit(i32, String),
    /// killed by this signal (SIGILL = 4, SIGABRT = 6, SIGSEGV = 11 …)
    Signal(i32, String),
    Timeout,
}

/// Re-invoke the current executable as `exe worker <args…>`.
pub fn run_worker(args: &[&str], timeout: Duration) -> Ended {
    let exe = std::env::current_exe().expect("current_exe");
    let mut child = Command::new(exe)
        .arg("worker")
        .args(args)
        .stdin(Stdio::null())
        .stdout(Stdio::piped())
        .stderr(Stdio::piped())
        .spawn()
        .expect("spawn worker");
    let start = Instant::now();
    loop {
        match child.try_wait().expect("try_wait") {
            Some(status) => {
                let mut out = String::new();
                if let Some(mut o) = child.stdout.take() {
                    let _ = o.read_to_string(&mut out);
                }
                let mut err = String::new();
                if let Some(mut e) = child.stderr.take() {
                    let _ = e.read_to_string(&mut err);
                }
                use std::os::unix::process::ExitStatusExt;
                return match status.signal() {
                    Some(sig) => Ended::Signal(sig, err),
                    None => Ended::Exit(status.code().unwrap_or(-1), if out.is_empty() { err } else { out }),
                };
            }
            None => {
                if start.elapsed() > timeout {
                    let _ = child.kill();
                    let _ = child.wait();
                    return Ended::Timeout;
                }
                std::thread::sleep(Duration::from_millis(2));
            }
        }
    }
}

/// Run `total` cases in crash-isolated batches. The worker is invoked as
/// `exe worker <prefix…> <from> <n>`, must print `START <index>` (flushed)
/// before each case and a final `HARNESS-REPORT` line. When a worker dies, the
/// last started index is handed to `on_crash` and the run resumes after it.
pub fn run_batches(
    prefix: &[&str],
    total: u64,
    batch: u64,
    timeout: Duration,
    rep: &mut crate::Report,
    mut on_crash: impl FnMut(&mut crate::Report, u64, &Ended),
) {
    let mut from = 0u64;
    while from < total {
        let n = batch.min(total - from);
        let (f, c) = (from.to_string(), n.to_string());
        let mut args: Vec<&str> = prefix.to_vec();
        args.push(&f);
        args.push(&c);
        let ended = run_worker_keep_stdout(&args, timeout);
        let (out, crashed) = match &ended {
            (Ended::Exit(0, _), out) => (out.clone(), false),
            (_, out) => (out.clone(), true),
        };
        if let Some(v) = crate::Report::parse_stdout(&out) {
            rep.merge_json(&v);
        }
        if crashed {
            let last = out
                .lines()
                .rev()
                .find_map(|l| l.strip_prefix("START "))
                .and_then(|s| s.trim().parse::<u64>().ok())
                .unwrap_or(from);
            on_crash(rep, last, &ended.0);
            from = last + 1;
        } else {
            from += n;
        }
    }
}

/// Like `run_worker` but always returns the captured stdout as well.
pub fn run_worker_keep_stdout(args: &[&str], timeout: Duration) -> (Ended, String) {
    let exe = std::env::current_exe().expect("current_exe");
    let out_path = std::env::temp_dir().join(format!(
        "rotov-worker-{}-{}.out",
        std::process::id(),
        std::time::SystemTime::now()
            .duration_since(std::time::UNIX_EPOCH)
            .map(|d| d.as_nanos())
            .unwrap_or(0)
    ));
    let out_file = std::fs::File::create(&out_path).expect("worker out file");
    let mut child = Command::new(exe)
        .arg("worker")
        .args(args)
        .stdin(Stdio::null())
        .stdout(Stdio::from(out_file))
        .stderr(Stdio::null())
        .spawn()
        .expect("spawn worker");
    let start = Instant::now();
    let ended = loop {
        match child.try_wait().expect("try_wait") {
            Some(status) => {
                use std::os::unix::process::ExitStatusExt;
                break match status.signal() {
                    Some(sig) => Ended::Signal(sig, String::new()),
                    None => Ended::Exit(status.code().unwrap_or(-1), String::new()),
                };
            }
            None => {
                if start.elapsed() > timeout {
                    let _ = child.kill();
                    let _ = child.wait();
                    break Ended::Timeout;
                }
                std::thread::sleep(Duration::from_millis(2));
            }
        }
    };
    let out = std::fs::read_to_string(&out_path).unwrap_or_default();
    let _ = std::fs::remove_file(&out_path);
    (ended, out)
}
