//! SplitMix64: every random choice of a run derives from one state, so a case
//! replays from `(seed, index)`.

#[derive(Clone, Debug)]
pub struct Prng(pub u64);

impl Prng {
    pub fn new(seed: u64) -> Self {
        Prng(seed ^ 0x9E37_79B9_7F4A_7C15)
    }
    /// An independent stream for case `index` of run `seed`.
    pub fn for_case(seed: u64, index: u64) -> Self {
        let mut p = Prng::new(seed.wrapping_mul(0xD6E8_FEB8_6659_FD93) ^ index);
        p.next();
        p
    }
    pub fn next(&mut self) -> u64 {
        self.0 = self.0.wrapping_add(0x9E37_79B9_7F4A_7C15);
        let mut z = self.0;
        z = (z ^ (z >> 30)).wrapping_mul(0xBF58_476D_1CE4_E5B9);
        z = (z ^ (z >> 27)).wrapping_mul(0x94D0_49BB_1331_11EB);
        z ^ (z >> 31)
    }
    pub fn below(&mut self, n: u64) -> u64 {
        if n == 0 { 0 } else { self.next() % n }
    }
    pub fn range(&mut self, lo: i64, hi_incl: i64) -> i64 {
        lo + self.below((hi_incl - lo + 1) as u64) as i64
    }
    pub fn chance(&mut self, num: u64, den: u64) -> bool {
        self.below(den) < num
    }
    pub fn pick<'a, T>(&mut self, xs: &'a [T]) -> &'a T {
        &xs[self.below(xs.len() as u64) as usize]
    }
}
