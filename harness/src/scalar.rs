//! The scalar types of the core language, their boundary values, and typed
//! entry into compiled code for a type known only at run time.

use crate::Prng;
use roto::verif_hooks::core::HookVal;
use roto::{NoCtx, Package, Value};

#[derive(Clone, Copy, Debug, PartialEq, Eq, Hash, PartialOrd, Ord)]
pub enum STy {
    U8, U16, U32, U64, I8, I16, I32, I64, F32, F64, Bool,
}

pub const INTS: [STy; 8] = [
    STy::U8, STy::U16, STy::U32, STy::U64, STy::I8, STy::I16, STy::I32, STy::I64,
];
pub const FLOATS: [STy; 2] = [STy::F32, STy::F64];

impl STy {
    pub fn name(self) -> &'static str {
        match self {
            STy::U8 => "u8", STy::U16 => "u16", STy::U32 => "u32", STy::U64 => "u64",
            STy::I8 => "i8", STy::I16 => "i16", STy::I32 => "i32", STy::I64 => "i64",
            STy::F32 => "f32", STy::F64 => "f64", STy::Bool => "bool",
        }
    }
    pub fn bits(self) -> u32 {
        match self {
            STy::U8 | STy::I8 | STy::Bool => 8,
            STy::U16 | STy::I16 => 16,
            STy::U32 | STy::I32 | STy::F32 => 32,
            STy::U64 | STy::I64 | STy::F64 => 64,
        }
    }
    pub fn signed(self) -> bool {
        matches!(self, STy::I8 | STy::I16 | STy::I32 | STy::I64)
    }
    pub fn is_int(self) -> bool {
        INTS.contains(&self)
    }
    pub fn is_float(self) -> bool {
        FLOATS.contains(&self)
    }
    pub fn mask(self) -> u64 {
        if self.bits() == 64 { u64::MAX } else { (1u64 << self.bits()) - 1 }
    }
    /// Boundary bit patterns of this type.
    pub fn boundary(self) -> Vec<u64> {
        let m = self.mask();
        match self {
            STy::Bool => vec![0, 1],
            STy::F32 => [
                0.0f32, -0.0, 1.0, -1.0, 0.5, 2.0, 3.0, f32::MIN_POSITIVE, f32::MAX,
                f32::MIN, f32::INFINITY, f32::NEG_INFINITY, f32::NAN, 1e-45, 16777216.0, 0.1,
            ]
            .iter()
            .map(|f| f.to_bits() as u64)
            .collect(),
            STy::F64 => [
                0.0f64, -0.0, 1.0, -1.0, 0.5, 2.0, 3.0, f64::MIN_POSITIVE, f64::MAX,
                f64::MIN, f64::INFINITY, f64::NEG_INFINITY, f64::NAN, 5e-324, 9007199254740992.0, 0.1,
            ]
            .iter()
            .map(|f| f.to_bits())
            .collect(),
            _ => {
                let half = 1u64 << (self.bits() - 1);
                let mut v = vec![
                    0, 1, 2, 3, m, m - 1, half, half - 1, half + 1, half.wrapping_sub(2) & m,
                    7, 10, 100 & m, 0x55 & m, 0xAA & m,
                ];
                for k in [4u32, 7, 8, 15, 16, 31, 32] {
                    if k < self.bits() {
                        v.push(1u64 << k);
                        v.push((1u64 << k) - 1);
                        v.push((1u64 << k) + 1);
                        v.push((m - (1u64 << k)) & m);
                    }
                }
                v.sort();
                v.dedup();
                v
            }
        }
    }
    pub fn random(self, p: &mut Prng) -> u64 {
        match self {
            STy::Bool => p.below(2),
            _ => {
                if p.chance(1, 2) {
                    *p.pick(&self.boundary())
                } else {
                    p.next() & self.mask()
                }
            }
        }
    }
    pub fn hook(self, bits: u64) -> HookVal {
        match self {
            STy::U8 => HookVal::U8(bits as u8),
            STy::U16 => HookVal::U16(bits as u16),
            STy::U32 => HookVal::U32(bits as u32),
            STy::U64 => HookVal::U64(bits),
            STy::I8 => HookVal::I8(bits as u8 as i8),
            STy::I16 => HookVal::I16(bits as u16 as i16),
            STy::I32 => HookVal::I32(bits as u32 as i32),
            STy::I64 => HookVal::I64(bits as i64),
            STy::F32 => HookVal::F32(bits as u32),
            STy::F64 => HookVal::F64(bits),
            STy::Bool => HookVal::Bool(bits != 0),
        }
    }
    /// A Roto literal of this type denoting `bits`.
    pub fn literal(self, bits: u64) -> String {
        match self {
            STy::Bool => (bits != 0).to_string(),
            STy::F32 | STy::F64 => {
                let f = if self == STy::F32 { f32::from_bits(bits as u32) as f64 } else { f64::from_bits(bits) };
                if f.is_finite() { format!("{:?}{}", f.abs(), self.name()) } else { format!("1.0{}", self.name()) }
            }
            _ if self.signed() => {
                let sh = 64 - self.bits();
                let v = ((bits << sh) as i64) >> sh;
                // negative literals are written through unary minus; MIN has no literal
                if v < 0 { format!("(0{0} - {1}{0})", self.name(), (v as i128).unsigned_abs()) } else { format!("{v}{}", self.name()) }
            }
            _ => format!("{}{}", bits & self.mask(), self.name()),
        }
    }
}

pub fn hook_bits(v: &HookVal) -> (&'static str, u64) {
    match *v {
        HookVal::Bool(x) => ("bool", x as u64),
        HookVal::U8(x) => ("u8", x as u64),
        HookVal::U16(x) => ("u16", x as u64),
        HookVal::U32(x) => ("u32", x as u64),
        HookVal::U64(x) => ("u64", x),
        HookVal::I8(x) => ("i8", x as u8 as u64),
        HookVal::I16(x) => ("i16", x as u16 as u64),
        HookVal::I32(x) => ("i32", x as u32 as u64),
        HookVal::I64(x) => ("i64", x as u64),
        HookVal::F32(x) => ("f32", x as u64),
        HookVal::F64(x) => ("f64", x),
        HookVal::Char(x) => ("char", x as u64),
        HookVal::Asn(x) => ("asn", x as u64),
        HookVal::Pointer(x) => ("ptr", x as u64),
    }
}

/// Canonicalise NaNs so that bit-pattern comparison does not depend on payloads.
pub fn canon(ty: &str, bits: u64) -> u64 {
    match ty {
        "f32" if f32::from_bits(bits as u32).is_nan() => 0x7fc0_0000,
        "f64" if f64::from_bits(bits).is_nan() => 0x7ff8_0000_0000_0000,
        _ => bits,
    }
}

pub trait Bits: Value + Copy + 'static {
    fn from_bits64(b: u64) -> Self;
    fn to_bits64(self) -> u64;
}
macro_rules! bits_int {
    ($($t:ty => $u:ty),*) => {$(
        impl Bits for $t {
            fn from_bits64(b: u64) -> Self { b as $u as $t }
            fn to_bits64(self) -> u64 { self as $u as u64 }
        }
    )*};
}
bits_int!(u8 => u8, u16 => u16, u32 => u32, u64 => u64, i8 => u8, i16 => u16, i32 => u32, i64 => u64);
impl Bits for f32 {
    fn from_bits64(b: u64) -> Self { f32::from_bits(b as u32) }
    fn to_bits64(self) -> u64 { self.to_bits() as u64 }
}
impl Bits for f64 {
    fn from_bits64(b: u64) -> Self { f64::from_bits(b) }
    fn to_bits64(self) -> u64 { self.to_bits() }
}
impl Bits for bool {
    fn from_bits64(b: u64) -> Self { b != 0 }
    fn to_bits64(self) -> u64 { self as u64 }
}

/// A compiled `main` whose parameter types are all `arg` and whose return type
/// is `ret`, callable on bit patterns.
pub type Callable = Box<dyn Fn(&[u64]) -> u64>;

fn get<A: Bits, R: Bits>(pkg: &mut Package<NoCtx>, arity: usize) -> Result<Callable, String> {
    match arity {
        0 => {
            let f = pkg.get_function::<fn() -> R>("main").map_err(|e| format!("{e:?}"))?;
            Ok(Box::new(move |_| f.call().to_bits64()))
        }
        1 => {
            let f = pkg.get_function::<fn(A) -> R>("main").map_err(|e| format!("{e:?}"))?;
            Ok(Box::new(move |a| f.call(A::from_bits64(a[0])).to_bits64()))
        }
        2 => {
            let f = pkg.get_function::<fn(A, A) -> R>("main").map_err(|e| format!("{e:?}"))?;
            Ok(Box::new(move |a| f.call(A::from_bits64(a[0]), A::from_bits64(a[1])).to_bits64()))
        }
        3 => {
            let f = pkg.get_function::<fn(A, A, A) -> R>("main").map_err(|e| format!("{e:?}"))?;
            Ok(Box::new(move |a| {
                f.call(A::from_bits64(a[0]), A::from_bits64(a[1]), A::from_bits64(a[2])).to_bits64()
            }))
        }
        _ => Err("arity > 3 unsupported".into()),
    }
}

fn get_r<A: Bits>(pkg: &mut Package<NoCtx>, arity: usize, ret: STy) -> Result<Callable, String> {
    match ret {
        STy::U8 => get::<A, u8>(pkg, arity), STy::U16 => get::<A, u16>(pkg, arity),
        STy::U32 => get::<A, u32>(pkg, arity), STy::U64 => get::<A, u64>(pkg, arity),
        STy::I8 => get::<A, i8>(pkg, arity), STy::I16 => get::<A, i16>(pkg, arity),
        STy::I32 => get::<A, i32>(pkg, arity), STy::I64 => get::<A, i64>(pkg, arity),
        STy::F32 => get::<A, f32>(pkg, arity), STy::F64 => get::<A, f64>(pkg, arity),
        STy::Bool => get::<A, bool>(pkg, arity),
    }
}

/// `main : (arg, …, arg) -> ret` with `arity` parameters.
pub fn get_main(pkg: &mut Package<NoCtx>, arg: STy, arity: usize, ret: STy) -> Result<Callable, String> {
    match arg {
        STy::U8 => get_r::<u8>(pkg, arity, ret), STy::U16 => get_r::<u16>(pkg, arity, ret),
        STy::U32 => get_r::<u32>(pkg, arity, ret), STy::U64 => get_r::<u64>(pkg, arity, ret),
        STy::I8 => get_r::<i8>(pkg, arity, ret), STy::I16 => get_r::<i16>(pkg, arity, ret),
        STy::I32 => get_r::<i32>(pkg, arity, ret), STy::I64 => get_r::<i64>(pkg, arity, ret),
        STy::F32 => get_r::<f32>(pkg, arity, ret), STy::F64 => get_r::<f64>(pkg, arity, ret),
        STy::Bool => get_r::<bool>(pkg, arity, ret),
    }
}
