//! Contention cases of the C10 crash oracle.
//!
//! `List[T]` is a `Send + Sync` handle to an `Arc<Mutex<RawList>>`, a
//! `TypedFunc` is `Send + Sync`, so several host threads may run built-ins on
//! the SAME list at the same time, and a host thread may hold the list's lock
//! (`List::to_vec`) while a compiled function touches it.  The property says
//! a built-in returns a value on every argument of its domain; a list that
//! another thread happens to be using is such an argument.
//!
//! A case = (built-in, contention class).  It runs alone in a worker process:
//!  * `vs-host-to_vec`: one host thread copies a big shared list out with
//!    `to_vec` (holds the mutex for the whole copy) `rounds` times, meanwhile
//!    `threads` threads call a compiled function that runs the built-in on a
//!    clone of the handle until the holder is done (and at least `calls` times);
//!  * `vs-same-builtin`: `threads` threads × `calls` calls of the built-in on
//!    one shared list;
//!  * `vs-mixed`: every thread runs a different built-in on the shared list.
//! Read-only built-ins must return their single-threaded result on every call
//! (nothing mutates the list); for `push`/`swap` the final length / multiset of
//! elements is checked.  A terminating signal, abort or timeout of the worker
//! is the violation; the case JSON is the replay.

use roto::{FileTree, List, NoCtx, RotoString, Runtime, TypedFunc};
use serde_json::{Value as J, json};
use std::sync::atomic::{AtomicBool, AtomicU64, Ordering};

pub const SRC_U64: &str = r#"
fn op_len(l: List[u64], a: u64, b: u64) -> u64 { l.len() }
fn op_capacity(l: List[u64], a: u64, b: u64) -> u64 { l.capacity() }
fn op_is_empty(l: List[u64], a: u64, b: u64) -> u64 { if l.is_empty() { 1 } else { 0 } }
fn op_get(l: List[u64], a: u64, b: u64) -> u64 { match l.get(a) { Some(x) => x, None => 7 } }
fn op_contains(l: List[u64], a: u64, b: u64) -> u64 { if l.contains(a * 10) { 1 } else { 0 } }
fn op_index(l: List[u64], a: u64, b: u64) -> u64 { match l.index(a * 10) { Some(i) => i, None => 7 } }
fn op_concat(l: List[u64], a: u64, b: u64) -> u64 { l.concat(l).len() }
fn op_eq(l: List[u64], a: u64, b: u64) -> u64 { let m: List[u64] = List.new(); m.push(a); let r = if l == m { 1 } else { 0 }; if l == l { r + 2 } else { r } }
fn op_for(l: List[u64], a: u64, b: u64) -> u64 { let n = 0; for x in l { n = n + 1; } n }
fn op_push(l: List[u64], a: u64, b: u64) -> u64 { l.push(a); 1 }
fn op_swap(l: List[u64], a: u64, b: u64) -> u64 { l.swap(a, b); 1 }
fn pair_eq(l: List[u64], m: List[u64], a: u64) -> u64 { if l == m { 1 } else { 0 } }
fn pair_concat(l: List[u64], m: List[u64], a: u64) -> u64 { l.concat(m).len() }
fn pair_nested(l: List[u64], m: List[u64], a: u64) -> u64 { let ll: List[List[u64]] = List.new(); ll.push(l); if ll.contains(m) { 1 } else { 0 } }
"#;

pub const SRC_STR: &str = r#"
fn op_join(l: List[String], a: u64, b: u64) -> u64 { l.join(",").bytes().len() }
fn op_get(l: List[String], a: u64, b: u64) -> u64 { match l.get(a) { Some(x) => x.bytes().len(), None => 7 } }
fn op_contains(l: List[String], a: u64, b: u64) -> u64 { if l.contains((a * 10).to_string()) { 1 } else { 0 } }
fn op_index(l: List[String], a: u64, b: u64) -> u64 { match l.index((a * 10).to_string()) { Some(i) => i, None => 7 } }
fn op_concat(l: List[String], a: u64, b: u64) -> u64 { l.concat(l).len() }
fn op_eq(l: List[String], a: u64, b: u64) -> u64 { let m: List[String] = List.new(); m.push("x"); let r = if l == m { 1 } else { 0 }; if l == l { r + 2 } else { r } }
fn op_len(l: List[String], a: u64, b: u64) -> u64 { l.len() }
fn op_push(l: List[String], a: u64, b: u64) -> u64 { l.push(a.to_string()); 1 }
fn op_swap(l: List[String], a: u64, b: u64) -> u64 { l.swap(a, b); 1 }
fn pair_eq(l: List[String], m: List[String], a: u64) -> u64 { if l == m { 1 } else { 0 } }
fn pair_concat(l: List[String], m: List[String], a: u64) -> u64 { l.concat(m).len() }
fn pair_nested(l: List[String], m: List[String], a: u64) -> u64 { let ll: List[List[String]] = List.new(); ll.push(l); if ll.contains(m) { 1 } else { 0 } }
"#;

/// two-list built-ins called as `f(a, b)` by the even threads and `f(b, a)` by the odd ones
pub const OPS_PAIR: [(&str, &str); 3] = [("pair_eq", "List.get"), ("pair_concat", "List.concat"), ("pair_nested", "List.contains")];

/// (script function, registered built-in, mutates the list)
pub const OPS_U64: [(&str, &str, bool); 11] = [
    ("op_len", "List.len", false),
    ("op_capacity", "List.capacity", false),
    ("op_is_empty", "List.is_empty", false),
    ("op_get", "List.get", false),
    ("op_contains", "List.contains", false),
    ("op_index", "List.index", false),
    ("op_concat", "List.concat", false),
    ("op_eq", "List.get", false),
    ("op_for", "List.get", false),
    ("op_push", "List.push", true),
    ("op_swap", "List.swap", true),
];
pub const OPS_STR: [(&str, &str, bool); 9] = [
    ("op_join", "List.join", false),
    ("op_get", "List.get", false),
    ("op_contains", "List.contains", false),
    ("op_index", "List.index", false),
    ("op_concat", "List.concat", false),
    ("op_eq", "List.get", false),
    ("op_len", "List.len", false),
    ("op_push", "List.push", true),
    ("op_swap", "List.swap", true),
];

pub struct ConcCase {
    pub builtin: &'static str,
    pub class: String,
    pub json: J,
}

fn case(builtin: &'static str, elem: &str, ops: &[&str], holder: bool, len: u64, threads: u64, calls: u64, rounds: u64) -> ConcCase {
    let what = if ops.len() > 1 {
        "vs-mixed".to_string()
    } else if holder {
        "vs-host-to_vec".to_string()
    } else {
        "vs-same-builtin".to_string()
    };
    let class = format!("{}[{elem}] {what}", ops.join("+"));
    ConcCase {
        builtin,
        class: class.clone(),
        json: json!({"kind": "conc", "builtin": builtin, "class": class, "elem": elem, "ops": ops, "holder": holder,
                     "len": len, "threads": threads, "calls": calls, "rounds": rounds,
                     "src": if elem == "u64" { SRC_U64 } else { SRC_STR }}),
    }
}

/// The contention cases of a run (the same for every seed: they are the
/// class representatives; thread interleavings are the machine's).
pub fn cases(thorough: bool) -> Vec<ConcCase> {
    let mut v = vec![];
    let (big, rounds, calls) = if thorough { (1_000_000, 40, 20_000) } else { (400_000, 16, 2_000) };
    // whole-list built-ins (copy / scan everything) get fewer calls and a smaller shared list
    let heavy = |f: &str| matches!(f, "op_concat" | "op_for" | "op_join");
    for (f, b, _) in OPS_U64 {
        v.push(case(b, "u64", &[f], true, if heavy(f) { big / 10 } else { big }, 2, 100, rounds));
        v.push(case(b, "u64", &[f], false, if heavy(f) { 100 } else { 1_000 }, 4, if heavy(f) { calls / 4 } else { calls }, 0));
    }
    for (f, b, _) in OPS_STR {
        v.push(case(b, "String", &[f], true, if heavy(f) { big / 100 } else { big / 10 }, 2, 100, rounds / 2));
        v.push(case(b, "String", &[f], false, if heavy(f) { 50 } else { 200 }, 4, if heavy(f) { calls / 8 } else { calls / 2 }, 0));
    }
    for (f, b) in OPS_PAIR {
        for elem in ["u64", "String"] {
            let class = format!("{f}[{elem}] vs-opposite-argument-order");
            v.push(ConcCase {
                builtin: b,
                class: class.clone(),
                json: json!({"kind": "conc", "builtin": b, "class": class, "elem": elem, "ops": [f], "pair": true, "holder": false,
                             "len": 300, "threads": 4, "calls": calls, "rounds": 0,
                             "src": if elem == "u64" { SRC_U64 } else { SRC_STR }}),
            });
        }
    }
    let all_u: Vec<&str> = OPS_U64.iter().map(|x| x.0).collect();
    v.push(case("List.get", "u64", &all_u, false, 200, all_u.len() as u64, calls / 4, 0));
    v.push(case("List.get", "u64", &all_u, true, big / 10, all_u.len() as u64, 50, rounds));
    let all_s: Vec<&str> = OPS_STR.iter().map(|x| x.0).collect();
    v.push(case("List.join", "String", &all_s, false, 100, all_s.len() as u64, calls / 8, 0));
    v
}

type F<L> = TypedFunc<NoCtx, fn(L, u64, u64) -> u64>;

trait Elem: roto::Value + Clone + Send + Sync + 'static
where
    List<Self>: roto::Value,
{
    fn make(k: u64) -> Self;
    /// a deterministic digest of an element (for the multiset check)
    fn digest(&self) -> u64;
}
impl Elem for u64 {
    fn make(k: u64) -> u64 {
        k * 10
    }
    fn digest(&self) -> u64 {
        *self
    }
}
impl Elem for RotoString {
    fn make(k: u64) -> RotoString {
        RotoString::from((k * 10).to_string().as_str())
    }
    fn digest(&self) -> u64 {
        let t: &str = self;
        t.bytes().fold(17u64, |h, b| h.wrapping_mul(31).wrapping_add(b as u64))
    }
}

fn run_typed<E: Elem>(case: &J, src: &str, table: &[(&str, &str, bool)]) -> Result<String, String>
where
    List<E>: roto::Value + Clone + Send + Sync,
    E::Transformed: PartialEq,
{
    let ops: Vec<String> = case["ops"].as_array().ok_or("ops")?.iter().map(|x| x.as_str().unwrap_or("").to_string()).collect();
    let holder = case["holder"].as_bool().unwrap_or(false);
    let len = case["len"].as_u64().ok_or("len")?;
    let threads = case["threads"].as_u64().ok_or("threads")?;
    let calls = case["calls"].as_u64().ok_or("calls")?;
    let rounds = case["rounds"].as_u64().unwrap_or(0);
    let rt = Runtime::new();
    let mut pkg = FileTree::test_file("c10conc.roto", src, 0).compile(&rt).map_err(|e| format!("{e}"))?;
    let mut funcs: Vec<(String, bool, F<List<E>>)> = vec![];
    for o in &ops {
        let (_, _, mutating) = table.iter().find(|x| x.0 == o).ok_or(format!("unknown op {o}"))?;
        let f = pkg.get_function::<fn(List<E>, u64, u64) -> u64>(o.as_str()).map_err(|e| format!("{e:?}"))?;
        funcs.push((o.clone(), *mutating, f));
    }
    let any_mut = funcs.iter().any(|f| f.1);
    let list: List<E> = (0..len).map(E::make).collect();
    let digest0: u64 = if len <= 100_000 { list.to_vec().iter().fold(0u64, |a, e| a.wrapping_add(e.digest())) } else { 0 };
    // single-threaded expectations of the read-only functions (index arguments a < 64)
    let mut expect: Vec<Vec<u64>> = vec![];
    for (_, mutating, f) in &funcs {
        expect.push(if *mutating { vec![] } else { (0..64u64).map(|a| f.call(list.clone(), a, a + 1)).collect() });
    }
    let done = AtomicBool::new(!holder);
    let started = AtomicBool::new(!holder);
    let wrong: std::sync::Mutex<Option<String>> = std::sync::Mutex::new(None);
    let pushes = AtomicU64::new(0);
    let total_calls = AtomicU64::new(0);
    std::thread::scope(|s| {
        if holder {
            s.spawn(|| {
                for _ in 0..rounds {
                    let v = list.to_vec();
                    if (v.len() as u64) < len {
                        *wrong.lock().unwrap() = Some(format!("to_vec returned {} elements of a list that had {len}", v.len()));
                    }
                    started.store(true, Ordering::SeqCst);
                }
                done.store(true, Ordering::SeqCst);
            });
        }
        for t in 0..threads {
            let (name, mutating, f) = &funcs[(t as usize) % funcs.len()];
            let exp = &expect[(t as usize) % funcs.len()];
            let (list, done, started, wrong, pushes, total_calls) = (&list, &done, &started, &wrong, &pushes, &total_calls);
            s.spawn(move || {
                while !started.load(Ordering::SeqCst) {
                    std::thread::yield_now();
                }
                let mut k = 0u64;
                // under a holder: until it is done (bounded); always at least `calls` calls
                // (`push` stops after `calls` calls so that the list stays bounded)
                while k < calls || (name != "op_push" && !done.load(Ordering::SeqCst) && k < 50_000_000) {
                    let a = (k * 7 + t) % 64;
                    let r = f.call(list.clone(), a, a + 1);
                    if name == "op_push" {
                        pushes.fetch_add(1, Ordering::SeqCst);
                    }
                    if !*mutating && !any_mut && r != exp[a as usize] {
                        *wrong.lock().unwrap() = Some(format!("{name}(a={a}) returned {r} under contention, {} single-threaded", exp[a as usize]));
                        break;
                    }
                    k += 1;
                }
                total_calls.fetch_add(k, Ordering::SeqCst);
            });
        }
    });
    if let Some(w) = wrong.lock().unwrap().clone() {
        return Ok(format!("wrong: {w}"));
    }
    let final_len = list.len() as u64;
    if final_len != len + pushes.load(Ordering::SeqCst) {
        return Ok(format!("wrong: final length {final_len}, expected {} + {} pushes", len, pushes.load(Ordering::SeqCst)));
    }
    if len <= 100_000 && !funcs.iter().any(|f| f.0 == "op_push") {
        let d: u64 = list.to_vec().iter().fold(0u64, |a, e| a.wrapping_add(e.digest()));
        if d != digest0 {
            return Ok("wrong: the multiset of elements changed".into());
        }
    }
    // the number of calls under a holder depends on timing: not part of the result
    let _ = total_calls;
    Ok("ok".into())
}

/// Two shared lists with equal contents; even threads call `f(a, b)`, odd threads `f(b, a)`.
fn run_pair<E: Elem>(case: &J, src: &str) -> Result<String, String>
where
    List<E>: roto::Value + Clone + Send + Sync,
    E::Transformed: PartialEq,
{
    let op = case["ops"][0].as_str().ok_or("ops")?.to_string();
    let len = case["len"].as_u64().ok_or("len")?;
    let threads = case["threads"].as_u64().ok_or("threads")?;
    let calls = case["calls"].as_u64().ok_or("calls")?;
    let rt = Runtime::new();
    let mut pkg = FileTree::test_file("c10conc.roto", src, 0).compile(&rt).map_err(|e| format!("{e}"))?;
    let f = pkg.get_function::<fn(List<E>, List<E>, u64) -> u64>(op.as_str()).map_err(|e| format!("{e:?}"))?;
    let a: List<E> = (0..len).map(E::make).collect();
    let b: List<E> = (0..len).map(E::make).collect();
    let expect = f.call(a.clone(), b.clone(), 0);
    let wrong: std::sync::Mutex<Option<String>> = std::sync::Mutex::new(None);
    std::thread::scope(|s| {
        for t in 0..threads {
            let (f, a, b, wrong, op) = (&f, &a, &b, &wrong, &op);
            s.spawn(move || {
                for k in 0..calls {
                    let r = if t % 2 == 0 { f.call(a.clone(), b.clone(), k) } else { f.call(b.clone(), a.clone(), k) };
                    if r != expect {
                        *wrong.lock().unwrap() = Some(format!("{op} returned {r} under contention, {expect} single-threaded"));
                        break;
                    }
                }
            });
        }
    });
    if let Some(w) = wrong.lock().unwrap().clone() {
        return Ok(format!("wrong: {w}"));
    }
    Ok("ok".into())
}

/// Run one contention case in this process.
pub fn run(case: &J) -> Result<String, String> {
    let src = case["src"].as_str().ok_or("src")?;
    if case["pair"].as_bool().unwrap_or(false) {
        return match case["elem"].as_str() {
            Some("u64") => run_pair::<u64>(case, src),
            Some("String") => run_pair::<RotoString>(case, src),
            _ => Err("elem".into()),
        };
    }
    match case["elem"].as_str() {
        Some("u64") => run_typed::<u64>(case, src, &OPS_U64),
        Some("String") => run_typed::<RotoString>(case, src, &OPS_STR),
        _ => Err("elem".into()),
    }
}
