//! The table of built-in cases: for every function and method of the default
//! runtime, a generated script, its Rust signature, edge arguments with a
//! class label, and (where `RotoV.Model.Builtins` models the built-in) the
//! request that asks the Lean driver for the predicted outcome.

use roto::{List, NoCtx, Package, RotoString, Value};
use rotov_harness::Prng;
use rotov_harness::scalar::{Bits, STy};
use std::net::{IpAddr, Ipv4Addr, Ipv6Addr};

#[derive(Clone, Debug, PartialEq)]
pub enum Arg {
    S(String),
    N(STy, u64),
    Ip(IpAddr),
    Ch(char),
    /// a list built by the HOST (`List<u64>` / `List<RotoString>` / `List<char>`)
    /// and passed into the compiled function: empty, singleton and longer lists
    LU(Vec<u64>),
    LS(Vec<String>),
    LC(Vec<char>),
}

fn hex(s: &str) -> String {
    s.bytes().map(|b| format!("{b:02x}")).collect()
}

impl Arg {
    pub fn encode(&self) -> String {
        match self {
            Arg::S(s) => format!("s:{}", hex(s)),
            Arg::N(t, b) => format!("n:{}:{b}", t.name()),
            Arg::Ip(IpAddr::V4(a)) => format!("ip4:{}", u32::from(*a)),
            Arg::Ip(IpAddr::V6(a)) => format!("ip6:{}", u128::from(*a)),
            Arg::Ch(c) => format!("c:{}", *c as u32),
            Arg::LU(v) => format!("lu:{}", v.iter().map(|x| x.to_string()).collect::<Vec<_>>().join(",")),
            Arg::LS(v) => format!("ls:{}", v.iter().map(|x| format!("x{}", hex(x))).collect::<Vec<_>>().join(",")),
            Arg::LC(v) => format!("lc:{}", v.iter().map(|x| (*x as u32).to_string()).collect::<Vec<_>>().join(",")),
        }
    }
    pub fn decode(s: &str) -> Result<Arg, String> {
        let (k, v) = s.split_once(':').ok_or("arg")?;
        Ok(match k {
            "s" => {
                let b: Vec<u8> = (0..v.len() / 2).map(|i| u8::from_str_radix(&v[2 * i..2 * i + 2], 16).unwrap()).collect();
                Arg::S(String::from_utf8(b).map_err(|e| e.to_string())?)
            }
            "n" => {
                let (t, b) = v.split_once(':').ok_or("n arg")?;
                let mut all: Vec<STy> = rotov_harness::scalar::INTS.to_vec();
                all.extend(rotov_harness::scalar::FLOATS);
                all.push(STy::Bool);
                let ty = *all.iter().find(|x| x.name() == t).ok_or("type name")?;
                Arg::N(ty, b.parse().map_err(|_| "bits")?)
            }
            "ip4" => Arg::Ip(IpAddr::V4(Ipv4Addr::from(v.parse::<u32>().map_err(|_| "ip4")?))),
            "ip6" => Arg::Ip(IpAddr::V6(Ipv6Addr::from(v.parse::<u128>().map_err(|_| "ip6")?))),
            "c" => Arg::Ch(char::from_u32(v.parse().map_err(|_| "char")?).ok_or("char")?),
            "lu" => Arg::LU(v.split(',').filter(|x| !x.is_empty()).map(|x| x.parse::<u64>().map_err(|_| "lu".to_string())).collect::<Result<_, _>>()?),
            "ls" => Arg::LS(v.split(',').filter(|x| !x.is_empty()).map(|x| {
                let h = x.strip_prefix('x').ok_or("ls element")?;
                let b: Vec<u8> = (0..h.len() / 2).map(|i| u8::from_str_radix(&h[2 * i..2 * i + 2], 16).unwrap()).collect();
                String::from_utf8(b).map_err(|e| e.to_string())
            }).collect::<Result<_, String>>()?),
            "lc" => Arg::LC(v.split(',').filter(|x| !x.is_empty()).map(|x| {
                x.parse::<u32>().ok().and_then(char::from_u32).ok_or("lc element".to_string())
            }).collect::<Result<_, String>>()?),
            _ => return Err(format!("unknown arg kind {k}")),
        })
    }
}

pub trait FromArg: Sized {
    fn from_arg(a: &Arg) -> Self;
}
macro_rules! from_arg_bits {
    ($($t:ty),*) => {$(
        impl FromArg for $t {
            fn from_arg(a: &Arg) -> Self {
                match a { Arg::N(_, b) => <$t as Bits>::from_bits64(*b), other => panic!("argument kind: {other:?}") }
            }
        }
    )*};
}
from_arg_bits!(u8, u16, u32, u64, i8, i16, i32, i64, f32, f64, bool);
impl FromArg for RotoString {
    fn from_arg(a: &Arg) -> Self {
        match a { Arg::S(s) => RotoString::from(s.as_str()), other => panic!("argument kind: {other:?}") }
    }
}
impl FromArg for IpAddr {
    fn from_arg(a: &Arg) -> Self {
        match a { Arg::Ip(i) => *i, other => panic!("argument kind: {other:?}") }
    }
}
impl FromArg for char {
    fn from_arg(a: &Arg) -> Self {
        match a { Arg::Ch(c) => *c, other => panic!("argument kind: {other:?}") }
    }
}
impl FromArg for List<u64> {
    fn from_arg(a: &Arg) -> Self {
        match a { Arg::LU(v) => v.iter().copied().collect(), other => panic!("argument kind: {other:?}") }
    }
}
impl FromArg for List<RotoString> {
    fn from_arg(a: &Arg) -> Self {
        match a { Arg::LS(v) => v.iter().map(|x| RotoString::from(x.as_str())).collect(), other => panic!("argument kind: {other:?}") }
    }
}
impl FromArg for List<char> {
    fn from_arg(a: &Arg) -> Self {
        match a { Arg::LC(v) => v.iter().copied().collect(), other => panic!("argument kind: {other:?}") }
    }
}

/// Canonical text of a result; the Lean driver prints the same format.
pub trait Canon {
    fn canon(&self) -> String;
}
macro_rules! canon_int {
    ($($t:ty),*) => {$( impl Canon for $t { fn canon(&self) -> String { format!("n:{self}") } } )*};
}
canon_int!(u8, u16, u32, u64, i8, i16, i32, i64);
impl Canon for bool {
    fn canon(&self) -> String { format!("b:{}", *self as u8) }
}
impl Canon for f32 {
    fn canon(&self) -> String { if self.is_nan() { "f:nan".into() } else { format!("f:{}", self.to_bits()) } }
}
impl Canon for f64 {
    fn canon(&self) -> String { if self.is_nan() { "f:nan".into() } else { format!("f:{}", self.to_bits()) } }
}
impl Canon for char {
    fn canon(&self) -> String { format!("c:{}", *self as u32) }
}
impl Canon for () {
    fn canon(&self) -> String { "unit".into() }
}
impl Canon for RotoString {
    fn canon(&self) -> String { format!("s:{}", hex(self)) }
}
impl Canon for IpAddr {
    fn canon(&self) -> String {
        match self {
            IpAddr::V4(a) => format!("ip4:{}", u32::from(*a)),
            IpAddr::V6(a) => format!("ip6:{}", u128::from(*a)),
        }
    }
}
impl<T: Canon> Canon for Option<T> {
    fn canon(&self) -> String {
        match self { Some(x) => format!("some({})", x.canon()), None => "none".into() }
    }
}
impl<T: Canon + Clone + Value> Canon for List<T> {
    fn canon(&self) -> String {
        format!("[{}]", self.to_vec().iter().map(|x| x.canon()).collect::<Vec<_>>().join(","))
    }
}

pub fn canon_kind(r: &str) -> &'static str {
    if r.starts_with("some(") { "some" }
    else if r == "none" { "none" }
    else if r == "[]" { "empty-list" }
    else if r.starts_with('[') { "list" }
    else if r == "s:" { "empty-string" }
    else if r.starts_with("s:") { "string" }
    else if r == "b:1" { "true" }
    else if r == "b:0" { "false" }
    else if r == "f:nan" { "nan" }
    else { "value" }
}

pub type Caller = Box<dyn Fn(&[Arg]) -> String>;

macro_rules! sigs {
    ($pkg:expr, $sig:expr, $entry:expr; $( $name:literal => ($($a:ty),*) -> $r:ty ),* $(,)?) => {
        match $sig {
            $( $name => {
                let f = $pkg.get_function::<fn($($a),*) -> $r>($entry).map_err(|e| format!("{e:?}"))?;
                let b: Caller = Box::new(move |args: &[Arg]| {
                    #[allow(unused_mut, unused_variables)]
                    let mut it = args.iter();
                    f.call($(<$a as FromArg>::from_arg(it.next().expect("arity"))),*).canon()
                });
                Ok(b)
            } )*
            other => Err(format!("signature {other} is not in the harness's table")),
        }
    };
}

type S = RotoString;
type Ip = IpAddr;
type LU = List<u64>;
type LS = List<RotoString>;
type LC = List<char>;

pub fn make_caller(pkg: &mut Package<NoCtx>, sig: &str) -> Result<Caller, String> {
    make_caller_at(pkg, sig, "main")
}

pub fn make_caller_at(pkg: &mut Package<NoCtx>, sig: &str, entry: &str) -> Result<Caller, String> {
    sigs!(pkg, sig, entry;
        ">S" => () -> S, ">ip" => () -> Ip, ">u64" => () -> u64, ">lu" => () -> LU, "lu,lu>ou64" => (LU, LU) -> Option<u64>,
        "S>S" => (S) -> S, "S>u64" => (S) -> u64, "S>b" => (S) -> bool,
        "S>lu8" => (S) -> List<u8>, "S>lc" => (S) -> List<char>, "S>lS" => (S) -> List<S>,
        "S,S>S" => (S, S) -> S, "S,S>b" => (S, S) -> bool, "S,S>lS" => (S, S) -> List<S>, "S,S>oS" => (S, S) -> Option<S>,
        "S,S,S>S" => (S, S, S) -> S,
        "S,u64>S" => (S, u64) -> S, "S,u64>oc" => (S, u64) -> Option<char>, "S,u64,u64>oS" => (S, u64, u64) -> Option<S>,
        "S,u64,S>lS" => (S, u64, S) -> List<S>, "S,u64,S>S" => (S, u64, S) -> S,
        "S,c>S" => (S, char) -> S,
        "u8>S" => (u8) -> S, "u16>S" => (u16) -> S, "u32>S" => (u32) -> S, "u64>S" => (u64) -> S,
        "i8>S" => (i8) -> S, "i16>S" => (i16) -> S, "i32>S" => (i32) -> S, "i64>S" => (i64) -> S,
        "f32>S" => (f32) -> S, "f64>S" => (f64) -> S, "bool>S" => (bool) -> S, "c>S" => (char) -> S,
        "ip>S" => (Ip) -> S, "ip,u8>S" => (Ip, u8) -> S,
        "f32>f32" => (f32) -> f32, "f64>f64" => (f64) -> f64, "f32,f32>f32" => (f32, f32) -> f32, "f64,f64>f64" => (f64, f64) -> f64,
        "f32>b" => (f32) -> bool, "f64>b" => (f64) -> bool,
        "ip,u8>ip" => (Ip, u8) -> Ip, "ip,u8>u8" => (Ip, u8) -> u8, "ip,u8,ip,u8>b" => (Ip, u8, Ip, u8) -> bool,
        "ip,ip>b" => (Ip, Ip) -> bool, "ip>b" => (Ip) -> bool, "ip>ip" => (Ip) -> Ip,
        "u64>u64" => (u64) -> u64, "u64>b" => (u64) -> bool, "u64>lu64" => (u64) -> List<u64>,
        "u64,u64>ou64" => (u64, u64) -> Option<u64>, "u64,u64>oS" => (u64, u64) -> Option<S>, "u64,u64>b" => (u64, u64) -> bool,
        "u64,u64>lu64" => (u64, u64) -> List<u64>, "u64,u64,u64>lu64" => (u64, u64, u64) -> List<u64>,
        "u64,u64,u64>lS" => (u64, u64, u64) -> List<S>,
        // host-built lists as arguments
        "lu>u64" => (LU) -> u64, "lu>b" => (LU) -> bool, "lu>lu" => (LU) -> LU,
        "lu,u64>ou64" => (LU, u64) -> Option<u64>, "lu,u64>b" => (LU, u64) -> bool, "lu,u64>lu" => (LU, u64) -> LU,
        "lu,u64,u64>lu" => (LU, u64, u64) -> LU, "lu,lu>lu" => (LU, LU) -> LU, "lu,lu>b" => (LU, LU) -> bool,
        "lS>u64" => (LS) -> u64, "lS>b" => (LS) -> bool, "lS>lS" => (LS) -> LS, "lS,S>S" => (LS, S) -> S,
        "lS,u64>oS" => (LS, u64) -> Option<S>, "lS,S>b" => (LS, S) -> bool, "lS,S>ou64" => (LS, S) -> Option<u64>,
        "lS,S>lS" => (LS, S) -> LS, "lS,lS>lS" => (LS, LS) -> LS, "lS,lS>b" => (LS, LS) -> bool,
        "lS,u64,u64>lS" => (LS, u64, u64) -> LS,
        "lc>S" => (LC) -> S, "lc>u64" => (LC) -> u64,
    )
}

pub struct Case {
    /// the built-in this case is about (registered name)
    pub name: &'static str,
    /// other built-ins the script necessarily goes through
    pub covers: Vec<&'static str>,
    /// stable id of the script
    pub id: String,
    pub src: String,
    /// the function of the script that is called (`main` unless the script has one entry per operation)
    pub entry: &'static str,
    pub sig: &'static str,
    pub class: String,
    pub args: Vec<Arg>,
    /// request to the Lean driver (None: no model; crash oracle only)
    pub lean: Option<String>,
    /// run alone in its own worker with a short timeout: the case passes the
    /// same list twice (or otherwise could make a built-in wait for itself),
    /// so a hang must cost seconds, not a batch timeout
    pub solo: bool,
}

const PW: u32 = usize::BITS;

fn xs(s: &str) -> String {
    format!("x{}", hex(s))
}

pub const STRS: [&str; 16] = [
    "", "a", "hello", "h\u{e9}llo w\u{f6}rld", "\u{65e5}\u{672c}\u{8a9e}", "a\u{1f600}b", "ab\ncd\n", "ab\ncd", "\n", "\n\n",
    "x\r\ny", "  Roto!\t ", "one, two, three", "aXbXc", "\u{e9}", "ABC abc \u{c9}\u{df}",
];

fn long_ascii() -> String {
    (0..100).map(|i| (b'a' + (i % 26) as u8) as char).collect()
}

fn strs() -> Vec<String> {
    let mut v: Vec<String> = STRS.iter().map(|s| s.to_string()).collect();
    v.push(long_ascii());
    v
}

/// Edge indices around a length `n`, with class labels (first label wins).
fn indices(n: u64) -> Vec<(u64, String)> {
    let mut v: Vec<(u64, String)> = vec![];
    let mut push = |x: u64, l: &str| {
        if !v.iter().any(|(y, _)| *y == x) {
            v.push((x, l.to_string()));
        }
    };
    push(0, "0");
    if n >= 1 {
        push(n - 1, "len-1");
    }
    push(n, "len");
    push(n + 1, "len+1");
    push(1, "1");
    push(u64::MAX, "u64max");
    push(u64::MAX - 1, "u64max-1");
    push(1 << 63, "2^63");
    push(1 << 32, "2^32");
    push((1 << 32) + 1, "2^32+1");
    v
}

fn u(x: u64) -> Arg {
    Arg::N(STy::U64, x)
}
fn s(x: &str) -> Arg {
    Arg::S(x.to_string())
}

struct Tab {
    out: Vec<Case>,
}

impl Tab {
    #[allow(clippy::too_many_arguments)]
    fn add(&mut self, name: &'static str, covers: &[&'static str], id: &str, src: &str, sig: &'static str,
           class: impl Into<String>, args: Vec<Arg>, lean: Option<String>) {
        self.out.push(Case {
            name, covers: covers.to_vec(), id: id.to_string(), src: src.to_string(), entry: "main", sig,
            class: class.into(), args, lean, solo: false,
        });
    }
    /// mark the cases added since `from` as solo
    fn solo_since(&mut self, from: usize) {
        for c in &mut self.out[from..] {
            c.solo = true;
        }
    }
}

fn str_class(x: &str) -> &'static str {
    if x.is_empty() { "empty" } else if x.is_ascii() { "ascii" } else { "multibyte" }
}

const V4: [u32; 4] = [0x0101_0101, 0, 0xffff_ffff, 0x0a01_0203];
const V6: [u128; 4] = [0x2001_0db8_0000_0000_0000_0000_0000_0001, 0, u128::MAX, 1];

fn ip_req(ip: &IpAddr) -> String {
    match ip {
        IpAddr::V4(a) => format!("4 {}", u32::from(*a)),
        IpAddr::V6(a) => format!("6 {}", u128::from(*a)),
    }
}

/// All built-in cases of a run, in a deterministic order.
pub fn cases(seed: u64, thorough: bool) -> Vec<Case> {
    let mut t = Tab { out: vec![] };
    let mut prng = Prng::for_case(seed, 20_000_000);
    views(&mut t, &mut prng, thorough);
    prefixes(&mut t, thorough);
    strings(&mut t, &mut prng, thorough);
    lists(&mut t, thorough);
    host_lists(&mut t, thorough);
    elem_lists(&mut t, thorough);
    to_strings(&mut t, &mut prng, thorough);
    floats(&mut t, &mut prng, thorough);
    t.out
}

// ---------------------------------------------------------------- string views

fn views(t: &mut Tab, prng: &mut Prng, thorough: bool) {
    let kinds: [(&'static str, &'static str, &'static str, &'static str, &'static str, &'static str); 3] = [
        ("bytes", "StringBytes.len", "StringBytes.get", "StringBytes.slice", "StringBytes.list", "String.bytes"),
        ("chars", "StringChars.len", "StringChars.get", "StringChars.slice", "StringChars.list", "String.chars"),
        ("lines", "StringLines.len", "StringLines.get", "StringLines.slice", "StringLines.list", "String.lines"),
    ];
    for (view, n_len, n_get, n_slice, n_list, n_view) in kinds {
        let src_len = format!("fn main(s: String) -> u64 {{ s.{view}().len() }}");
        let src_get = format!("fn main(s: String, i: u64) -> char? {{ s.{view}().get(i) }}");
        let src_slice = format!("fn main(s: String, i: u64, j: u64) -> String? {{ s.{view}().slice(i, j) }}");
        let (list_ty, list_sig): (&str, &'static str) = match view {
            "bytes" => ("u8", "S>lu8"),
            "chars" => ("char", "S>lc"),
            _ => ("String", "S>lS"),
        };
        let src_list = format!("fn main(s: String) -> List[{list_ty}] {{ s.{view}().list() }}");
        for st in strs() {
            let sc = str_class(&st);
            let n = match view {
                "bytes" => st.len(),
                "chars" => st.chars().count(),
                _ => st.lines().count(),
            } as u64;
            t.add(n_len, &[n_view], &format!("{view}.len"), &src_len, "S>u64", sc, vec![s(&st)],
                Some(format!("c10 {PW} {view}_len {}", xs(&st))));
            t.add(n_list, &[n_view], &format!("{view}.list"), &src_list, list_sig, sc, vec![s(&st)],
                Some(format!("c10 {PW} {view}_list {}", xs(&st))));
            let mut idx = indices(n);
            // byte lengths matter for every view (`lines().get` indexes bytes on this tree)
            for (x, l) in indices(st.len() as u64) {
                if !idx.iter().any(|(y, _)| *y == x) {
                    idx.push((x, format!("byte{l}")));
                }
            }
            if st.len() <= 16 {
                for k in 0..=st.len() as u64 + 1 {
                    if !idx.iter().any(|(y, _)| *y == k) {
                        let l = if st.is_char_boundary(k as usize) { "inner-boundary" } else { "inner-midchar" };
                        idx.push((k, l.to_string()));
                    }
                }
            }
            if thorough {
                for _ in 0..6 {
                    let k = prng.next();
                    if !idx.iter().any(|(y, _)| *y == k) {
                        idx.push((k, "random".into()));
                    }
                }
            }
            for (i, l) in &idx {
                t.add(n_get, &[n_view], &format!("{view}.get"), &src_get, "S,u64>oc", format!("{sc} idx={l}"),
                    vec![s(&st), u(*i)], Some(format!("c10 {PW} {view}_get {} {i}", xs(&st))));
            }
            let cap = if thorough { idx.len() } else { idx.len().min(12) };
            for (i, li) in idx.iter().take(cap) {
                for (j, lj) in idx.iter().take(cap) {
                    t.add(n_slice, &[n_view], &format!("{view}.slice"), &src_slice, "S,u64,u64>oS",
                        format!("{sc} i={li} j={lj}"), vec![s(&st), u(*i), u(*j)],
                        Some(format!("c10 {PW} {view}_slice {} {i} {j}", xs(&st))));
                }
            }
        }
    }
}

// -------------------------------------------------------------------- prefixes

fn prefixes(t: &mut Tab, thorough: bool) {
    let ips: Vec<IpAddr> = V4.iter().map(|a| IpAddr::V4(Ipv4Addr::from(*a)))
        .chain(V6.iter().map(|a| IpAddr::V6(Ipv6Addr::from(*a)))).collect();
    let edge_lens: [u8; 12] = [0, 1, 8, 24, 31, 32, 33, 64, 127, 128, 129, 255];
    for (k, ip) in ips.iter().enumerate() {
        let (fam, max) = if ip.is_ipv4() { ("v4", 32u16) } else { ("v6", 128u16) };
        // every prefix length 0..=255 for the first address of each family, edges for the others
        let lens: Vec<u8> = if thorough || k % 4 == 0 { (0..=255u8).collect() } else { edge_lens.to_vec() };
        for len in lens {
            let valid = (len as u16) <= max;
            let class = format!("{} {fam}", if valid { "len<=max" } else { "len>max" });
            let a = vec![Arg::Ip(*ip), Arg::N(STy::U8, len as u64)];
            t.add("Prefix.new", &["Prefix.addr"], "Prefix.new.addr",
                "fn main(ip: IpAddr, len: u8) -> IpAddr { Prefix.new(ip, len).addr() }", "ip,u8>ip", class.clone(), a.clone(),
                Some(format!("c10 {PW} prefix_new_addr {} {len}", ip_req(ip))));
            if edge_lens.contains(&len) {
                t.add("Prefix.new", &["Prefix.len"], "Prefix.new.len",
                    "fn main(ip: IpAddr, len: u8) -> u8 { Prefix.new(ip, len).len() }", "ip,u8>u8", class.clone(), a.clone(),
                    Some(format!("c10 {PW} prefix_new_len {} {len}", ip_req(ip))));
                // the `/` operator on (IpAddr, u8) is the same runtime function
                t.add("Prefix.new", &["Prefix.addr"], "Prefix.new.operator-div",
                    "fn main(ip: IpAddr, len: u8) -> IpAddr { (ip / len).addr() }", "ip,u8>ip", class.clone(), a.clone(),
                    Some(format!("c10 {PW} prefix_new_addr {} {len}", ip_req(ip))));
            }
            if valid && (edge_lens.contains(&len) || len % 16 == 5) {
                let c = format!("valid-prefix {fam}");
                for (name, m) in [("Prefix.min_addr", "min_addr"), ("Prefix.max_addr", "max_addr"), ("Prefix.addr", "addr")] {
                    t.add(name, &["Prefix.new"], name, &format!("fn main(ip: IpAddr, len: u8) -> IpAddr {{ Prefix.new(ip, len).{m}() }}"),
                        "ip,u8>ip", c.clone(), a.clone(), Some(format!("c10 {PW} prefix_{m} {} {len}", ip_req(ip))));
                }
                t.add("Prefix.len", &["Prefix.new"], "Prefix.len", "fn main(ip: IpAddr, len: u8) -> u8 { Prefix.new(ip, len).len() }",
                    "ip,u8>u8", c.clone(), a.clone(), Some(format!("c10 {PW} prefix_new_len {} {len}", ip_req(ip))));
                t.add("Prefix.to_string", &["Prefix.new"], "Prefix.to_string",
                    "fn main(ip: IpAddr, len: u8) -> String { Prefix.new(ip, len).to_string() }", "ip,u8>S", c.clone(), a.clone(), None);
                let other = ips[(k + 1) % ips.len()];
                let olen = if other.is_ipv4() { len.min(32) } else { len };
                for (id, body) in [("Prefix.eq", "Prefix.new(a, m).eq(Prefix.new(b, n))"), ("Prefix.eq.operator", "Prefix.new(a, m) == Prefix.new(b, n)")] {
                    let src = format!("fn main(a: IpAddr, m: u8, b: IpAddr, n: u8) -> bool {{ {body} }}");
                    t.add("Prefix.eq", &["Prefix.new"], id, &src, "ip,u8,ip,u8>b", format!("{c} same"),
                        vec![a[0].clone(), a[1].clone(), a[0].clone(), a[1].clone()], None);
                    t.add("Prefix.eq", &["Prefix.new"], id, &src, "ip,u8,ip,u8>b", format!("{c} other"),
                        vec![a[0].clone(), a[1].clone(), Arg::Ip(other), Arg::N(STy::U8, olen as u64)], None);
                }
            }
        }
    }
    // IpAddr methods
    let mapped = IpAddr::V6(Ipv4Addr::new(1, 2, 3, 4).to_ipv6_mapped());
    let mut all = ips.clone();
    all.push(mapped);
    for a in &all {
        let fam = if a.is_ipv4() { "v4" } else { "v6" };
        for (name, m) in [("IpAddr.is_ipv4", "is_ipv4"), ("IpAddr.is_ipv6", "is_ipv6")] {
            t.add(name, &[], name, &format!("fn main(a: IpAddr) -> bool {{ a.{m}() }}"), "ip>b", fam, vec![Arg::Ip(*a)], None);
        }
        t.add("IpAddr.to_canonical", &[], "IpAddr.to_canonical", "fn main(a: IpAddr) -> IpAddr { a.to_canonical() }", "ip>ip",
            if *a == mapped { "v4-mapped" } else { fam }, vec![Arg::Ip(*a)], None);
        t.add("IpAddr.to_string", &[], "IpAddr.to_string", "fn main(a: IpAddr) -> String { a.to_string() }", "ip>S", fam, vec![Arg::Ip(*a)], None);
        for b in &all {
            let c = format!("{fam}x{}", if b.is_ipv4() { "v4" } else { "v6" });
            t.add("IpAddr.eq", &[], "IpAddr.eq", "fn main(a: IpAddr, b: IpAddr) -> bool { a.eq(b) }", "ip,ip>b", c.clone(),
                vec![Arg::Ip(*a), Arg::Ip(*b)], None);
            t.add("IpAddr.eq", &[], "IpAddr.eq.operator", "fn main(a: IpAddr, b: IpAddr) -> bool { a == b }", "ip,ip>b", c,
                vec![Arg::Ip(*a), Arg::Ip(*b)], None);
        }
    }
    t.add("IpAddr.to_string", &[], "IpAddr.LOCALHOSTV4", "fn main() -> IpAddr { IpAddr.LOCALHOSTV4 }", ">ip", "constant", vec![], None);
    t.add("IpAddr.to_string", &[], "IpAddr.LOCALHOSTV6", "fn main() -> IpAddr { IpAddr.LOCALHOSTV6 }", ">ip", "constant", vec![], None);
}

// --------------------------------------------------------------------- strings

fn strings(t: &mut Tab, prng: &mut Prng, thorough: bool) {
    let all = strs();
    // unary String -> String
    for (name, m) in [("String.to_lowercase", "to_lowercase"), ("String.to_uppercase", "to_uppercase"), ("String.trim", "trim"),
        ("String.trim_start", "trim_start"), ("String.trim_end", "trim_end"), ("String.to_string", "to_string")] {
        for st in &all {
            t.add(name, &[], name, &format!("fn main(s: String) -> String {{ s.{m}() }}"), "S>S", str_class(st), vec![s(st)], None);
        }
    }
    for st in &all {
        t.add("String.from_chars", &["String.chars", "StringChars.list"], "String.from_chars",
            "fn main(s: String) -> String { String.from_chars(s.chars().list()) }", "S>S", str_class(st), vec![s(st)],
            Some(format!("c10 {PW} from_chars {}", xs(st))));
        for c in ['a', '\0', '\u{e9}', '\u{10ffff}', '\u{d7ff}'] {
            t.add("StringBuf.push_char", &["StringBuf.from", "StringBuf.push_string", "StringBuf.as_string"], "StringBuf",
                "fn main(s: String, c: char) -> String { let b = StringBuf.from(s); b.push_char(c); b.push_string(s); b.as_string() }",
                "S,c>S", format!("{} char-len{}", str_class(st), c.len_utf8()), vec![s(st), Arg::Ch(c)],
                Some(format!("c10 {PW} stringbuf {} {}", xs(st), c as u32)));
        }
        // `==` on StringBuf (two locks in one statement) x aliasing classes: the same buffer twice (must not
        // wait for itself: solo, short timeout), two buffers with equal / different contents, compared after
        // one of them was appended to
        // (one subject per string class: a hanging `==` costs a timeout per case)
        if all.iter().position(|x| str_class(x) == str_class(st)) != all.iter().position(|x| x == st) {
            continue;
        }
        let mark = t.out.len();
        t.add("StringBuf.from", &["StringBuf.push_string"], "StringBuf.eq.alias",
            "fn main(s: String) -> bool { let a = StringBuf.from(s); let b = a; b.push_string(s); a == b }", "S>b",
            format!("{} ==same-buffer", str_class(st)), vec![s(st)], Some(format!("c10 {PW} sb_eq_alias {}", xs(st))));
        t.add("StringBuf.from", &["StringBuf.as_string"], "StringBuf.eq.self",
            "fn main(s: String) -> bool { let a = StringBuf.from(s); a == a && a.as_string() == s }", "S>b",
            format!("{} ==same-name", str_class(st)), vec![s(st)], Some(format!("c10 {PW} sb_eq_alias {}", xs(st))));
        t.solo_since(mark);
        for other in ["", "a", "\u{e9}"].iter().map(|x| x.to_string()).chain([st.clone()]) {
            t.add("StringBuf.from", &["StringBuf.push_string"], "StringBuf.eq",
                "fn main(s: String, n: String) -> bool { let a = StringBuf.from(s); let b = StringBuf.from(n); let r = a == b; b.push_string(s); a.push_string(n); r && !(a == b && s != n) }",
                "S,S>b", format!("{} ==other-{}", str_class(st), if other == *st { "equal" } else { str_class(&other) }),
                vec![s(st), s(&other)], Some(format!("c10 {PW} sb_eq {} {}", xs(st), xs(&other))));
        }
    }
    t.add("StringBuf.new", &["StringBuf.as_string"], "StringBuf.new", "fn main() -> String { let b = StringBuf.new(); b.as_string() }",
        ">S", "empty", vec![], None);
    // binary
    let needles = ["", "a", "b", ",", ", ", "X", "\n", "\u{e9}", "\u{8a9e}", "l", "ll", "hello", "hello!", "ab", "Roto", " "];
    for st in &all {
        for nd in needles.iter().map(|x| x.to_string()).chain([st.clone()]) {
            let c = format!("{} needle-{}", str_class(st), if nd == *st { "self" } else { str_class(&nd) });
            let a = vec![s(st), s(&nd)];
            for (name, m) in [("String.contains", "contains"), ("String.starts_with", "starts_with"), ("String.ends_with", "ends_with"), ("String.eq", "eq")] {
                t.add(name, &[], name, &format!("fn main(s: String, n: String) -> bool {{ s.{m}(n) }}"), "S,S>b", c.clone(), a.clone(),
                    Some(format!("c10 {PW} {m} {} {}", xs(st), xs(&nd))));
            }
            t.add("String.eq", &[], "String.eq.operator", "fn main(s: String, n: String) -> bool { s == n }", "S,S>b", c.clone(), a.clone(),
                Some(format!("c10 {PW} eq {} {}", xs(st), xs(&nd))));
            t.add("String.append", &[], "String.append", "fn main(s: String, n: String) -> String { s.append(n) }", "S,S>S", c.clone(), a.clone(),
                Some(format!("c10 {PW} append {} {}", xs(st), xs(&nd))));
            t.add("String.append", &[], "String.append.operator", "fn main(s: String, n: String) -> String { s + n }", "S,S>S", c.clone(), a.clone(),
                Some(format!("c10 {PW} append {} {}", xs(st), xs(&nd))));
            for (name, m) in [("String.strip_prefix", "strip_prefix"), ("String.strip_suffix", "strip_suffix")] {
                t.add(name, &[], name, &format!("fn main(s: String, n: String) -> String? {{ s.{m}(n) }}"), "S,S>oS", c.clone(), a.clone(),
                    Some(format!("c10 {PW} {m} {} {}", xs(st), xs(&nd))));
            }
            t.add("String.split", &[], "String.split", "fn main(s: String, n: String) -> List[String] { s.split(n) }", "S,S>lS", c.clone(), a.clone(),
                Some(format!("c10 {PW} split {} {}", xs(st), xs(&nd))));
            let mut counts: Vec<(u64, &str)> = vec![(0, "0"), (1, "1"), (2, "2"), (3, "3"), (u64::MAX, "u64max"), (1 << 32, "2^32")];
            if thorough {
                counts.push((prng.below(6), "small-random"));
                counts.push((prng.next(), "random"));
            }
            for (n, nl) in counts {
                let a3 = vec![s(st), u(n), s(&nd)];
                for (name, m) in [("String.splitn", "splitn"), ("String.rsplitn", "rsplitn")] {
                    t.add(name, &[], name, &format!("fn main(s: String, k: u64, n: String) -> List[String] {{ s.{m}(k, n) }}"),
                        "S,u64,S>lS", format!("{c} n={nl}"), a3.clone(), Some(format!("c10 {PW} {m} {} {n} {}", xs(st), xs(&nd))));
                }
            }
            for to in ["", "-", "\u{e9}\u{e9}"] {
                t.add("String.replace", &[], "String.replace", "fn main(s: String, f: String, t: String) -> String { s.replace(f, t) }",
                    "S,S,S>S", format!("{c} to-{}", str_class(to)), vec![s(st), s(&nd), s(to)], None);
            }
            t.add("List.join", &["String.split"], "List.join", "fn main(s: String, f: String, t: String) -> String { s.split(f).join(t) }",
                "S,S,S>S", c.clone(), vec![s(st), s(&nd), s("<>")], Some(format!("c10 {PW} split_join {} {} {}", xs(st), xs(&nd), xs("<>"))));
        }
        // `join` on lists that OTHER built-ins produce on edge inputs: `"".lines().list()` is the empty list,
        // `s.splitn(0, sep)` is the empty list for every `s`, `s.splitn(1, sep)` a singleton
        for sep in ["", ",", "\u{8a9e}"] {
            t.add("List.join", &["String.lines", "StringLines.list"], "List.join.lines",
                "fn main(s: String, t: String) -> String { s.lines().list().join(t) }", "S,S>S",
                format!("{} lines-list sep-{}", str_class(st), str_class(sep)), vec![s(st), s(sep)],
                Some(format!("c10 {PW} lines_join {} {}", xs(st), xs(sep))));
            for (n, nl) in [(0u64, "0"), (1, "1")] {
                t.add("List.join", &["String.splitn"], "List.join.splitn",
                    "fn main(s: String, k: u64, t: String) -> String { s.splitn(k, \",\").join(t) }", "S,u64,S>S",
                    format!("{} splitn-{nl}-list sep-{}", str_class(st), str_class(sep)), vec![s(st), u(n), s(sep)],
                    Some(format!("c10 {PW} splitn_join {} {n} {}", xs(st), xs(sep))));
            }
        }
        // repeat: the result stays below 1 MB; counts beyond that only on the empty string
        let mut counts: Vec<(u64, &str)> = vec![(0, "0"), (1, "1"), (2, "2"), (3, "3"), (17, "17")];
        if st.is_empty() {
            counts.extend([(u64::MAX, "u64max"), (1 << 63, "2^63"), (1 << 32, "2^32"), (1 << 20, "2^20")]);
        } else {
            let big = (900_000 / st.len() as u64).min(1 << 16);
            counts.push((big, "large-but-safe"));
        }
        for (n, nl) in counts {
            t.add("String.repeat", &[], "String.repeat", "fn main(s: String, n: u64) -> String { s.repeat(n) }", "S,u64>S",
                format!("{} n={nl}", str_class(st)), vec![s(st), u(n)], Some(format!("c10 {PW} repeat {} {n}", xs(st))));
        }
    }
}

// ----------------------------------------------------------------------- lists

const MK_U64: &str = "fn mk(n: u64) -> List[u64] { let l: List[u64] = List.new(); let k = 0; while k < n { l.push(k * 10); k = k + 1; } l }\n";
const MK_STR: &str = "fn mk(n: u64) -> List[String] { let l: List[String] = List.new(); let k = 0; while k < n { l.push((k * 10).to_string()); k = k + 1; } l }\n";

fn lists(t: &mut Tab, thorough: bool) {
    let base: &[&'static str] = &["List.new", "List.push"];
    let sizes: Vec<u64> = if thorough { vec![0, 1, 2, 3, 4, 5, 8, 9, 33, 100] } else { vec![0, 1, 2, 5, 9, 33] };
    for &n in &sizes {
        let nc = format!("len={n}");
        t.add("List.len", base, "List.len", &format!("{MK_U64}fn main(n: u64) -> u64 {{ mk(n).len() }}"), "u64>u64", nc.clone(), vec![u(n)],
            Some(format!("c10 {PW} list_len {n}")));
        t.add("List.capacity", base, "List.capacity", &format!("{MK_U64}fn main(n: u64) -> u64 {{ mk(n).capacity() }}"), "u64>u64", nc.clone(), vec![u(n)],
            Some(format!("c10 {PW} list_capacity {n}")));
        t.add("List.is_empty", base, "List.is_empty", &format!("{MK_U64}fn main(n: u64) -> bool {{ mk(n).is_empty() }}"), "u64>b", nc.clone(), vec![u(n)],
            Some(format!("c10 {PW} list_is_empty {n}")));
        t.add("List.new", &["List.push"], "List.build", &format!("{MK_U64}fn main(n: u64) -> List[u64] {{ mk(n) }}"), "u64>lu64", nc.clone(), vec![u(n)],
            Some(format!("c10 {PW} list_build {n}")));
        for (i, il) in indices(n) {
            t.add("List.get", base, "List.get.u64", &format!("{MK_U64}fn main(n: u64, i: u64) -> u64? {{ mk(n).get(i) }}"), "u64,u64>ou64",
                format!("{nc} idx={il}"), vec![u(n), u(i)], Some(format!("c10 {PW} list_get {n} {i}")));
            t.add("List.get", &["List.new", "List.push", "u64.to_string"], "List.get.String",
                &format!("{MK_STR}fn main(n: u64, i: u64) -> String? {{ mk(n).get(i) }}"), "u64,u64>oS",
                format!("{nc} idx={il} (String elements)"), vec![u(n), u(i)], Some(format!("c10 {PW} list_get_s {n} {i}")));
            for (j, jl) in indices(n) {
                t.add("List.swap", base, "List.swap.u64", &format!("{MK_U64}fn main(n: u64, i: u64, j: u64) -> List[u64] {{ let l = mk(n); l.swap(i, j); l }}"),
                    "u64,u64,u64>lu64", format!("{nc} i={il} j={jl}"), vec![u(n), u(i), u(j)], Some(format!("c10 {PW} list_swap {n} {i} {j}")));
                if i <= 2 || j <= 2 || i == n || j == n {
                    t.add("List.swap", &["List.new", "List.push", "u64.to_string"], "List.swap.String",
                        &format!("{MK_STR}fn main(n: u64, i: u64, j: u64) -> List[String] {{ let l = mk(n); l.swap(i, j); l }}"),
                        "u64,u64,u64>lS", format!("{nc} i={il} j={jl} (String elements)"), vec![u(n), u(i), u(j)],
                        Some(format!("c10 {PW} list_swap_s {n} {i} {j}")));
                }
            }
        }
        let items: Vec<(u64, &str)> = vec![(0, "first-or-absent"), (10 * n.saturating_sub(1), "last"), (10 * n, "absent"), (5, "absent"), (u64::MAX, "absent")];
        for (x, xl) in items {
            t.add("List.index", base, "List.index", &format!("{MK_U64}fn main(n: u64, x: u64) -> u64? {{ mk(n).index(x) }}"), "u64,u64>ou64",
                format!("{nc} item={xl}"), vec![u(n), u(x)], Some(format!("c10 {PW} list_index {n} {x}")));
            t.add("List.contains", base, "List.contains", &format!("{MK_U64}fn main(n: u64, x: u64) -> bool {{ mk(n).contains(x) }}"), "u64,u64>b",
                format!("{nc} item={xl}"), vec![u(n), u(x)], Some(format!("c10 {PW} list_contains {n} {x}")));
        }
        for &m in &sizes {
            t.add("List.concat", base, "List.concat", &format!("{MK_U64}fn main(n: u64, m: u64) -> List[u64] {{ mk(n).concat(mk(m)) }}"), "u64,u64>lu64",
                format!("{nc} other-len={m}"), vec![u(n), u(m)], Some(format!("c10 {PW} list_concat {n} {m}")));
        }
    }
}


// ------------------------------------------------- lists passed in by the host

/// List argument classes: empty / singleton / many (and the variants that
/// matter for element handling: duplicates, a growth boundary, empty and
/// multi-byte strings).  Every list-taking built-in meets every class.
pub fn u64_lists(thorough: bool) -> Vec<(&'static str, Vec<u64>)> {
    let mut v: Vec<(&'static str, Vec<u64>)> = vec![
        ("empty", vec![]),
        ("singleton", vec![7]),
        ("many", vec![0, 10, 20, 30, 40]),
        ("many-dups", vec![5, 5, 5]),
        ("many-33", (0..33).map(|k| k * 3 + 1).collect()),
    ];
    if thorough {
        v.push(("singleton-max", vec![u64::MAX]));
        v.push(("many-1000", (0..1000).collect()));
    }
    v
}

pub fn str_lists(thorough: bool) -> Vec<(&'static str, Vec<&'static str>)> {
    let mut v: Vec<(&'static str, Vec<&'static str>)> = vec![
        ("empty", vec![]),
        ("singleton-empty-string", vec![""]),
        ("singleton", vec!["a"]),
        ("many", vec!["a", "bc", "def", "g", "hi"]),
        ("many-with-empty", vec!["a", "", "b"]),
        ("many-all-empty", vec!["", ""]),
        ("many-multibyte", vec!["h\u{e9}llo", "\u{65e5}\u{672c}", "x\u{1f600}"]),
    ];
    if thorough {
        v.push(("many-9", vec!["0", "1", "2", "3", "4", "5", "6", "7", "8"]));
    }
    v
}

pub const SEPARATORS: [(&str, &str); 4] = [("", "sep-empty"), (",", "sep-1"), (", ", "sep-2"), ("\u{8001}", "sep-multibyte")];

fn lu_tok(v: &[u64]) -> String {
    Arg::LU(v.to_vec()).encode()
}
fn ls_tok(v: &[&str]) -> String {
    Arg::LS(v.iter().map(|x| x.to_string()).collect()).encode()
}
fn ls(v: &[&str]) -> Arg {
    Arg::LS(v.iter().map(|x| x.to_string()).collect())
}

fn host_lists(t: &mut Tab, thorough: bool) {
    let ul = u64_lists(thorough);
    let sl = str_lists(thorough);
    // ---- List[u64] built by the host
    for (lc, l) in &ul {
        let n = l.len() as u64;
        let c = format!("host-list {lc}");
        let tok = lu_tok(l);
        let la = Arg::LU(l.clone());
        t.add("List.len", &[], "List.len.host", "fn main(l: List[u64]) -> u64 { l.len() }", "lu>u64", c.clone(), vec![la.clone()],
            Some(format!("c10 {PW} hl len {tok}")));
        t.add("List.capacity", &[], "List.capacity.host", "fn main(l: List[u64]) -> u64 { l.capacity() }", "lu>u64", c.clone(), vec![la.clone()],
            Some(format!("c10 {PW} hl capacity {tok}")));
        t.add("List.is_empty", &[], "List.is_empty.host", "fn main(l: List[u64]) -> bool { l.is_empty() }", "lu>b", c.clone(), vec![la.clone()],
            Some(format!("c10 {PW} hl is_empty {tok}")));
        t.add("List.get", &[], "List.for.host", "fn main(l: List[u64]) -> u64 { let s = 0; for x in l { s = s + x % 1000; } s }", "lu>u64", format!("{c} for-loop"),
            vec![la.clone()], Some(format!("c10 {PW} hl forsum {tok}")));
        let mark = t.out.len();
        t.add("List.concat", &[], "List.concat.host.alias", "fn main(l: List[u64]) -> List[u64] { l.concat(l) }", "lu>lu", format!("{c} other=same-list"),
            vec![la.clone()], Some(format!("c10 {PW} hl concat {tok} {tok}")));
        t.add("List.concat", &[], "List.concat.host.alias-operator", "fn main(l: List[u64]) -> List[u64] { l + l }", "lu>lu", format!("{c} other=same-list"),
            vec![la.clone()], Some(format!("c10 {PW} hl concat {tok} {tok}")));
        t.add("List.get", &[], "List.eq.host.alias", "fn main(l: List[u64]) -> bool { l == l }", "lu>b", format!("{c} ==same-list"),
            vec![la.clone()], Some(format!("c10 {PW} hl eq {tok} {tok}")));
        t.add("List.contains", &["List.new", "List.push"], "List.contains.self-nested", "fn main(l: List[u64]) -> bool { let ll: List[List[u64]] = List.new(); ll.push(l); ll.contains(l) }",
            "lu>b", format!("{c} list-of-lists contains its own element"), vec![la.clone()], Some("c10 64 hl eq lu: lu:".into()));
        t.solo_since(mark);
        for (i, il) in indices(n) {
            t.add("List.get", &[], "List.get.host", "fn main(l: List[u64], i: u64) -> u64? { l.get(i) }", "lu,u64>ou64",
                format!("{c} idx={il}"), vec![la.clone(), u(i)], Some(format!("c10 {PW} hl get {tok} {i}")));
            for (j, jl) in indices(n) {
                if i <= 2 || j <= 2 || i == n || j == n {
                    t.add("List.swap", &[], "List.swap.host", "fn main(l: List[u64], i: u64, j: u64) -> List[u64] { l.swap(i, j); l }",
                        "lu,u64,u64>lu", format!("{c} i={il} j={jl}"), vec![la.clone(), u(i), u(j)], Some(format!("c10 {PW} hl swap {tok} {i} {j}")));
                }
            }
        }
        let mut items: Vec<(u64, &str)> = vec![(1, "absent"), (u64::MAX, "absent-max")];
        if let Some(x) = l.first() {
            items.push((*x, "first"));
        }
        if let Some(x) = l.last() {
            items.push((*x, "last"));
        }
        for (x, xl) in items {
            t.add("List.index", &[], "List.index.host", "fn main(l: List[u64], x: u64) -> u64? { l.index(x) }", "lu,u64>ou64",
                format!("{c} item={xl}"), vec![la.clone(), u(x)], Some(format!("c10 {PW} hl index {tok} {x}")));
            t.add("List.contains", &[], "List.contains.host", "fn main(l: List[u64], x: u64) -> bool { l.contains(x) }", "lu,u64>b",
                format!("{c} item={xl}"), vec![la.clone(), u(x)], Some(format!("c10 {PW} hl contains {tok} {x}")));
        }
        t.add("List.push", &[], "List.push.host", "fn main(l: List[u64], x: u64) -> List[u64] { l.push(x); l }", "lu,u64>lu", c.clone(),
            vec![la.clone(), u(99)], Some(format!("c10 {PW} hl push {tok} 99")));
        for (mc, m) in &ul {
            let mt = lu_tok(m);
            let ma = Arg::LU(m.clone());
            t.add("List.concat", &[], "List.concat.host", "fn main(l: List[u64], m: List[u64]) -> List[u64] { l.concat(m) }", "lu,lu>lu",
                format!("{c} other={mc}"), vec![la.clone(), ma.clone()], Some(format!("c10 {PW} hl concat {tok} {mt}")));
            t.add("List.get", &[], "List.eq.host", "fn main(l: List[u64], m: List[u64]) -> bool { l == m }", "lu,lu>b",
                format!("{c} =={mc}"), vec![la.clone(), ma.clone()], Some(format!("c10 {PW} hl eq {tok} {mt}")));
        }
    }
    // ---- List[String] built by the host
    for (lc, l) in &sl {
        let n = l.len() as u64;
        let c = format!("host-list {lc}");
        let tok = ls_tok(l);
        let la = ls(l);
        for (sep, sc) in SEPARATORS {
            t.add("List.join", &[], "List.join.host", "fn main(l: List[String], sep: String) -> String { l.join(sep) }", "lS,S>S",
                format!("{c} {sc}"), vec![la.clone(), s(sep)], Some(format!("c10 {PW} hl join {tok} {}", xs(sep))));
        }
        t.add("List.len", &[], "List.len.host.String", "fn main(l: List[String]) -> u64 { l.len() }", "lS>u64", format!("{c} (String elements)"),
            vec![la.clone()], Some(format!("c10 {PW} hl len {tok}")));
        t.add("List.capacity", &[], "List.capacity.host.String", "fn main(l: List[String]) -> u64 { l.capacity() }", "lS>u64", format!("{c} (String elements)"),
            vec![la.clone()], Some(format!("c10 {PW} hl capacity {tok}")));
        t.add("List.is_empty", &[], "List.is_empty.host.String", "fn main(l: List[String]) -> bool { l.is_empty() }", "lS>b", format!("{c} (String elements)"),
            vec![la.clone()], Some(format!("c10 {PW} hl is_empty {tok}")));
        let mark = t.out.len();
        t.add("List.concat", &[], "List.concat.host.String.alias", "fn main(l: List[String]) -> List[String] { l.concat(l) }", "lS>lS",
            format!("{c} other=same-list (String elements)"), vec![la.clone()], Some(format!("c10 {PW} hl concat {tok} {tok}")));
        t.add("List.get", &[], "List.eq.host.String.alias", "fn main(l: List[String]) -> bool { l == l }", "lS>b", format!("{c} ==same-list (String elements)"),
            vec![la.clone()], Some(format!("c10 {PW} hl eq {tok} {tok}")));
        t.solo_since(mark);
        for (i, il) in indices(n) {
            t.add("List.get", &[], "List.get.host.String", "fn main(l: List[String], i: u64) -> String? { l.get(i) }", "lS,u64>oS",
                format!("{c} idx={il} (String elements)"), vec![la.clone(), u(i)], Some(format!("c10 {PW} hl get {tok} {i}")));
        }
        for (i, j) in [(0u64, 0u64), (0, 1), (0, n), (n, 0), (0, n.saturating_sub(1)), (u64::MAX, 0), (1, 2)] {
            t.add("List.swap", &[], "List.swap.host.String", "fn main(l: List[String], i: u64, j: u64) -> List[String] { l.swap(i, j); l }",
                "lS,u64,u64>lS", format!("{c} i={i} j={j} (String elements)"), vec![la.clone(), u(i), u(j)], Some(format!("c10 {PW} hl swap {tok} {i} {j}")));
        }
        let mut items: Vec<(&str, &str)> = vec![("zz", "absent"), ("", "empty-string")];
        if let Some(x) = l.first() {
            items.push((x, "first"));
        }
        if let Some(x) = l.last() {
            items.push((x, "last"));
        }
        for (x, xl) in items {
            t.add("List.index", &[], "List.index.host.String", "fn main(l: List[String], x: String) -> u64? { l.index(x) }", "lS,S>ou64",
                format!("{c} item={xl} (String elements)"), vec![la.clone(), s(x)], Some(format!("c10 {PW} hl index {tok} {}", xs(x))));
            t.add("List.contains", &[], "List.contains.host.String", "fn main(l: List[String], x: String) -> bool { l.contains(x) }", "lS,S>b",
                format!("{c} item={xl} (String elements)"), vec![la.clone(), s(x)], Some(format!("c10 {PW} hl contains {tok} {}", xs(x))));
        }
        t.add("List.push", &[], "List.push.host.String", "fn main(l: List[String], x: String) -> List[String] { l.push(x); l }", "lS,S>lS",
            format!("{c} (String elements)"), vec![la.clone(), s("new")], Some(format!("c10 {PW} hl push {tok} {}", xs("new"))));
        for (mc, m) in &sl {
            let mt = ls_tok(m);
            t.add("List.concat", &[], "List.concat.host.String", "fn main(l: List[String], m: List[String]) -> List[String] { l.concat(m) }", "lS,lS>lS",
                format!("{c} other={mc} (String elements)"), vec![la.clone(), ls(m)], Some(format!("c10 {PW} hl concat {tok} {mt}")));
            t.add("List.get", &[], "List.eq.host.String", "fn main(l: List[String], m: List[String]) -> bool { l == m }", "lS,lS>b",
                format!("{c} =={mc} (String elements)"), vec![la.clone(), ls(m)], Some(format!("c10 {PW} hl eq {tok} {mt}")));
        }
    }
    // ---- lists created inside the script: empty (`List.new()`), literal, filtered down to nothing
    for (sep, sc) in SEPARATORS {
        t.add("List.join", &["List.new"], "List.join.fresh", "fn main(sep: String) -> String { let l: List[String] = List.new(); l.join(sep) }", "S>S",
            format!("script-list empty {sc}"), vec![s(sep)], Some(format!("c10 {PW} hl join ls: {}", xs(sep))));
        t.add("List.join", &["List.new", "List.push"], "List.join.literal1", "fn main(sep: String) -> String { [sep].join(sep) }", "S>S",
            format!("script-list singleton {sc}"), vec![s(sep)], Some(format!("c10 {PW} hl join {} {}", ls_tok(&[sep]), xs(sep))));
        t.add("List.join", &["List.new", "List.push"], "List.join.literal3", "fn main(sep: String) -> String { [\"a\", sep, \"\"].join(sep) }", "S>S",
            format!("script-list many {sc}"), vec![s(sep)], Some(format!("c10 {PW} hl join {} {}", ls_tok(&["a", sep, ""]), xs(sep))));
    }
    // ---- List[char] built by the host: String.from_chars
    let cls: [(&str, Vec<char>); 4] = [("empty", vec![]), ("singleton", vec!['a']), ("many", vec!['a', '\u{e9}', '\u{1f600}', '\0']), ("singleton-max", vec!['\u{10ffff}'])];
    for (lc, l) in cls {
        let tok = Arg::LC(l.clone()).encode();
        t.add("String.from_chars", &[], "String.from_chars.host", "fn main(l: List[char]) -> String { String.from_chars(l) }", "lc>S",
            format!("host-list {lc}"), vec![Arg::LC(l.clone())], Some(format!("c10 {PW} hl from_chars {tok}")));
        t.add("List.len", &[], "List.len.host.char", "fn main(l: List[char]) -> u64 { l.len() }", "lc>u64",
            format!("host-list {lc} (char elements)"), vec![Arg::LC(l.clone())], Some(format!("c10 {PW} hl len {tok}")));
    }
}

// ------------------------------------------------------------------- to_string


// ------------------------------------- lists of every class of element type

/// An element type of the alphabet: `List[T]`'s Rust code is type-erased and sees
/// `T` only through the vtable the *lowerer* builds (size, align, clone/drop/eq
/// callbacks), so the element type is an argument class of every list built-in.
pub struct ElemTy {
    pub name: &'static str,
    /// declarations the script needs
    pub decl: &'static str,
    /// the Roto type
    pub ty: &'static str,
    /// distinct values `v(0) … v(K-1)` (a zero-sized type has one value)
    pub vals: &'static [&'static str],
    /// element size class for the model: 0 (zero-sized), 1, or 8 (anything in 2..=1024 bytes)
    pub size: u32,
    pub needs_clone: bool,
    pub needs_drop: bool,
}

pub const ELEM_TYPES: &[ElemTy] = &[
    // zero-sized: no IR type, nothing to copy, one value
    ElemTy { name: "unit", decl: "", ty: "()", vals: &["()"], size: 0, needs_clone: false, needs_drop: false },
    ElemTy { name: "record-of-units", decl: "record M { seen: (), done: () }\n", ty: "M", vals: &["M { seen: (), done: () }"], size: 0, needs_clone: false, needs_drop: false },
    ElemTy { name: "empty-record", decl: "record E {}\n", ty: "E", vals: &["E {}"], size: 0, needs_clone: false, needs_drop: false },
    ElemTy { name: "nested-record-of-units", decl: "record M { seen: (), done: () }\nrecord MM { m: M, u: () }\n", ty: "MM",
             vals: &["MM { m: M { seen: (), done: () }, u: () }"], size: 0, needs_clone: false, needs_drop: false },
    // one byte
    ElemTy { name: "bool", decl: "", ty: "bool", vals: &["false", "true"], size: 1, needs_clone: false, needs_drop: false },
    ElemTy { name: "u8", decl: "", ty: "u8", vals: &["0", "1", "255", "7"], size: 1, needs_clone: false, needs_drop: false },
    ElemTy { name: "single-variant-enum", decl: "enum One { Only }\n", ty: "One", vals: &["One.Only"], size: 1, needs_clone: false, needs_drop: false },
    ElemTy { name: "option-of-unit", decl: "", ty: "()?", vals: &["None", "Some(())"], size: 1, needs_clone: false, needs_drop: false },
    // plain data
    ElemTy { name: "i32", decl: "", ty: "i32", vals: &["0", "-1", "2147483647", "7"], size: 8, needs_clone: false, needs_drop: false },
    ElemTy { name: "u64", decl: "", ty: "u64", vals: &["0", "1", "9223372036854775807", "7"], size: 8, needs_clone: false, needs_drop: false },
    ElemTy { name: "f64", decl: "", ty: "f64", vals: &["0.0", "1.5", "-2.25", "1000000.0"], size: 8, needs_clone: false, needs_drop: false },
    ElemTy { name: "char", decl: "", ty: "char", vals: &["'a'", "'\u{e9}'", "'\u{65e5}'", "'z'"], size: 8, needs_clone: false, needs_drop: false },
    ElemTy { name: "IpAddr", decl: "", ty: "IpAddr", vals: &["1.1.1.1", "::1", "10.0.0.1", "2001:db8::1"], size: 8, needs_clone: false, needs_drop: false },
    ElemTy { name: "Prefix", decl: "", ty: "Prefix", vals: &["10.0.0.0/8", "::/0", "1.1.1.1/32", "2001:db8::/32"], size: 8, needs_clone: false, needs_drop: false },
    ElemTy { name: "Asn", decl: "", ty: "Asn", vals: &["AS0", "AS1", "AS65536", "AS4294967295"], size: 8, needs_clone: false, needs_drop: false },
    ElemTy { name: "option-of-u64", decl: "", ty: "u64?", vals: &["None", "Some(0)", "Some(1)", "Some(7)"], size: 8, needs_clone: false, needs_drop: false },
    // owning: clone and drop callbacks
    ElemTy { name: "String", decl: "", ty: "String", vals: &["\"\"", "\"a\"", "\"\u{65e5}\u{672c}\"", "\"a longer string that is not stored inline anywhere\""],
             size: 8, needs_clone: true, needs_drop: true },
    ElemTy { name: "option-of-String", decl: "", ty: "String?", vals: &["None", "Some(\"\")", "Some(\"a\")", "Some(\"bcd\")"], size: 8, needs_clone: true, needs_drop: true },
    ElemTy { name: "record", decl: "record R { a: u8, b: u64, c: String }\n", ty: "R",
             vals: &["R { a: 0, b: 0, c: \"\" }", "R { a: 1, b: 0, c: \"\" }", "R { a: 0, b: 0, c: \"x\" }", "R { a: 0, b: 9, c: \"\" }"], size: 8, needs_clone: true, needs_drop: true },
    ElemTy { name: "enum", decl: "enum Col { Red, Green(u64), Blue(String) }\n", ty: "Col",
             vals: &["Col.Red", "Col.Green(1)", "Col.Green(2)", "Col.Blue(\"b\")"], size: 8, needs_clone: true, needs_drop: true },
    // lists of lists: the element callbacks are list operations themselves, with their own vtable
    ElemTy { name: "List[u64]", decl: "", ty: "List[u64]", vals: &["[]", "[1]", "[1, 2]", "[2]"], size: 8, needs_clone: true, needs_drop: true },
    ElemTy { name: "List[String]", decl: "", ty: "List[String]", vals: &["[]", "[\"a\"]", "[\"a\", \"b\"]", "[\"\"]"], size: 8, needs_clone: true, needs_drop: true },
    ElemTy { name: "List[()]", decl: "", ty: "List[()]", vals: &["[]", "[()]", "[(), ()]", "[(), (), ()]"], size: 8, needs_clone: true, needs_drop: true },
];

/// One script per element type, one entry function per operation.  Elements travel as
/// codes: `v(k)` is the k-th value of the type, `code(e)` its inverse (through `==` on `T`).
pub fn elem_script(t: &ElemTy) -> String {
    let k = t.vals.len();
    let mut v = String::new();
    for (i, x) in t.vals.iter().enumerate() {
        if i + 1 < k {
            v.push_str(&format!("if k == {i} {{ {x} }} else "));
        } else if k > 1 {
            v.push_str(&format!("{{ {x} }}"));
        } else {
            v.push_str(x);
        }
    }
    let mut code = String::new();
    for i in 0..k {
        code.push_str(&format!("if e == v({i}) {{ {i} }} else "));
    }
    code.push_str("{ 99 }");
    let ty = t.ty;
    let last = k - 1;
    format!(
        "{decl}fn v(k: u64) -> {ty} {{ {v} }}\n\
         fn code(e: {ty}) -> u64 {{ {code} }}\n\
         fn mk(s: List[u64]) -> List[{ty}] {{ let l: List[{ty}] = List.new(); for k in s {{ l.push(v(k)); }} l }}\n\
         fn codes(l: List[{ty}]) -> List[u64] {{ let r: List[u64] = List.new(); for e in l {{ r.push(code(e)); }} r }}\n\
         fn op_len(s: List[u64]) -> u64 {{ mk(s).len() }}\n\
         fn op_capacity(s: List[u64]) -> u64 {{ mk(s).capacity() }}\n\
         fn op_is_empty(s: List[u64]) -> bool {{ mk(s).is_empty() }}\n\
         fn op_codes(s: List[u64]) -> List[u64] {{ codes(mk(s)) }}\n\
         fn op_literal() -> List[u64] {{ codes([v(0), v({last}), v(0)]) }}\n\
         fn op_get(s: List[u64], i: u64) -> u64? {{ match mk(s).get(i) {{ Some(e) => Some(code(e)), None => None }} }}\n\
         fn op_contains(s: List[u64], x: u64) -> bool {{ mk(s).contains(v(x)) }}\n\
         fn op_index(s: List[u64], x: u64) -> u64? {{ mk(s).index(v(x)) }}\n\
         fn op_push(s: List[u64], x: u64) -> List[u64] {{ let l = mk(s); l.push(v(x)); codes(l) }}\n\
         fn op_swap(s: List[u64], i: u64, j: u64) -> List[u64] {{ let l = mk(s); l.swap(i, j); codes(l) }}\n\
         fn op_concat(s: List[u64], t: List[u64]) -> List[u64] {{ codes(mk(s).concat(mk(t))) }}\n\
         fn op_plus(s: List[u64], t: List[u64]) -> List[u64] {{ codes(mk(s) + mk(t)) }}\n\
         fn op_eq(s: List[u64], t: List[u64]) -> bool {{ mk(s) == mk(t) }}\n\
         fn op_ne(s: List[u64], t: List[u64]) -> bool {{ mk(s) != mk(t) }}\n\
         fn op_eq_alias(s: List[u64]) -> bool {{ let l = mk(s); l == l }}\n\
         fn op_concat_alias(s: List[u64]) -> List[u64] {{ let l = mk(s); codes(l.concat(l)) }}\n\
         fn op_nested_index(s: List[u64], t: List[u64]) -> u64? {{ let ll = [mk(s), mk(t)]; ll.index(mk(t)) }}\n",
        decl = t.decl,
    )
}

/// Lists created by compiled code (`List.new()`, literals) of every element-type class × every
/// list built-in × list shapes (empty / singleton / duplicates+distinct / growth boundary).
/// The model (`c10 <pw> el <size> <needs_clone> <needs_drop> <op> <codes> …`) gives the result on
/// the codes and, from the generated vtable facts, whether a callback the operation calls is null.
fn elem_lists(t: &mut Tab, thorough: bool) {
    for et in ELEM_TYPES {
        let src = elem_script(et);
        let k = et.vals.len() as u64;
        let last = k - 1;
        // codes the script produces: a one-valued type maps every code to 0
        let mut shapes: Vec<(&'static str, Vec<u64>)> = vec![
            ("empty", vec![]),
            ("singleton", vec![0]),
            ("many-dups", vec![0, last, 0]),
            ("many-5", vec![last, last.min(1), 0, last, last]),
        ];
        if thorough {
            shapes.push(("many-33", (0..33).map(|i| i % k).collect()));
            if k > 2 {
                shapes.push(("many-distinct", (0..k).collect()));
            }
        }
        let tok = |l: &[u64]| lu_tok(l);
        let base = format!("c10 {PW} el {} {} {}", et.size, et.needs_clone as u8, et.needs_drop as u8);
        let mut add = |name: &'static str, covers: &[&'static str], entry: &'static str, sig: &'static str, class: String, args: Vec<Arg>, lean: String| {
            t.out.push(Case {
                name, covers: covers.to_vec(), id: format!("List[{}].{entry}", et.name), src: src.clone(), entry, sig,
                class: format!("elem={} {class}", et.name), args, lean: Some(format!("{base} {lean}")), solo: false,
            });
        };
        let mk: &[&'static str] = &["List.new", "List.push"];
        add("List.new", &["List.push", "List.get"], "op_literal", ">lu", "literal [v0, vK, v0]".into(), vec![],
            format!("codes {}", tok(&[0, last, 0])));
        for (sc, l) in &shapes {
            let n = l.len() as u64;
            let la = Arg::LU(l.clone());
            let lt = tok(l);
            add("List.len", mk, "op_len", "lu>u64", format!("{sc}"), vec![la.clone()], format!("len {lt}"));
            add("List.capacity", mk, "op_capacity", "lu>u64", format!("{sc}"), vec![la.clone()], format!("capacity {lt}"));
            add("List.is_empty", mk, "op_is_empty", "lu>b", format!("{sc}"), vec![la.clone()], format!("is_empty {lt}"));
            add("List.push", &["List.new", "List.get"], "op_codes", "lu>lu", format!("{sc} build+for-loop"), vec![la.clone()], format!("codes {lt}"));
            add("List.get", mk, "op_eq_alias", "lu>b", format!("{sc} ==same-list"), vec![la.clone()], format!("eq_alias {lt}"));
            add("List.concat", mk, "op_concat_alias", "lu>lu", format!("{sc} other=same-list"), vec![la.clone()], format!("concat {lt} {lt}"));
            let mut idx: Vec<(u64, &str)> = vec![(0, "0")];
            for (i, il) in [(n.wrapping_sub(1), "len-1"), (n, "len"), (u64::MAX, "u64max")] {
                if !idx.iter().any(|(j, _)| *j == i) {
                    idx.push((i, il));
                }
            }
            for (i, il) in &idx {
                add("List.get", mk, "op_get", "lu,u64>ou64", format!("{sc} idx={il}"), vec![la.clone(), u(*i)], format!("get {lt} {i}"));
            }
            let xs: Vec<u64> = if k == 1 { vec![0] } else if k == 2 { vec![0, 1] } else { vec![0, last, 1] };
            for x in &xs {
                let present = if l.contains(x) { "present" } else { "absent" };
                add("List.contains", mk, "op_contains", "lu,u64>b", format!("{sc} item={present}"), vec![la.clone(), u(*x)], format!("contains {lt} {x}"));
                add("List.index", mk, "op_index", "lu,u64>ou64", format!("{sc} item={present}"), vec![la.clone(), u(*x)], format!("index {lt} {x}"));
            }
            add("List.push", mk, "op_push", "lu,u64>lu", format!("{sc}"), vec![la.clone(), u(last)], format!("push {lt} {last}"));
            for (i, j, cl) in [(0u64, 0u64, "i=j=0"), (0, n.wrapping_sub(1), "i=0 j=len-1"), (n.wrapping_sub(1), n, "i=len-1 j=len"), (1, 1, "i=j=1")] {
                add("List.swap", mk, "op_swap", "lu,u64,u64>lu", format!("{sc} {cl}"), vec![la.clone(), u(i), u(j)], format!("swap {lt} {i} {j}"));
            }
            for (mc, m) in &shapes {
                let ma = Arg::LU(m.clone());
                let mt = tok(m);
                add("List.concat", mk, "op_concat", "lu,lu>lu", format!("{sc} other={mc}"), vec![la.clone(), ma.clone()], format!("concat {lt} {mt}"));
                add("List.concat", mk, "op_plus", "lu,lu>lu", format!("{sc} + {mc}"), vec![la.clone(), ma.clone()], format!("concat {lt} {mt}"));
                add("List.get", mk, "op_eq", "lu,lu>b", format!("{sc} == {mc}"), vec![la.clone(), ma.clone()], format!("eq {lt} {mt}"));
                add("List.get", mk, "op_ne", "lu,lu>b", format!("{sc} != {mc}"), vec![la.clone(), ma.clone()], format!("ne {lt} {mt}"));
                add("List.index", &["List.new", "List.push"], "op_nested_index", "lu,lu>ou64", format!("list-of-lists [{sc}, {mc}].index({mc})"),
                    vec![la.clone(), ma.clone()], format!("nested_index {lt} {mt}"));
            }
        }
    }
}

fn to_strings(t: &mut Tab, prng: &mut Prng, thorough: bool) {
    let table: [(STy, &'static str, &'static str); 11] = [
        (STy::U8, "u8.to_string", "u8>S"), (STy::U16, "u16.to_string", "u16>S"), (STy::U32, "u32.to_string", "u32>S"),
        (STy::U64, "u64.to_string", "u64>S"), (STy::I8, "i8.to_string", "i8>S"), (STy::I16, "i16.to_string", "i16>S"),
        (STy::I32, "i32.to_string", "i32>S"), (STy::I64, "i64.to_string", "i64>S"), (STy::F32, "f32.to_string", "f32>S"),
        (STy::F64, "f64.to_string", "f64>S"), (STy::Bool, "bool.to_string", "bool>S"),
    ];
    for (ty, name, sig) in table {
        let src = format!("fn main(x: {}) -> String {{ x.to_string() }}", ty.name());
        let mut vals = ty.boundary();
        for _ in 0..(if thorough { 40 } else { 4 }) {
            vals.push(ty.random(prng));
        }
        for v in vals {
            let lean = if ty.is_int() { Some(format!("c10 {PW} int_to_string {} {v}", ty.name())) } else { None };
            t.add(name, &[], name, &src, sig, "boundary-or-random", vec![Arg::N(ty, v)], lean);
        }
        // the f-string path calls the same runtime function
        let fsrc = format!("fn main(x: {}) -> String {{ f\"<{{x}}>\" }}", ty.name());
        for v in ty.boundary().into_iter().take(6) {
            t.add(name, &[], &format!("{name}.fstring"), &fsrc, sig, "f-string", vec![Arg::N(ty, v)], None);
        }
    }
    for c in ['a', '\0', '\u{7f}', '\u{80}', '\u{e9}', '\u{7ff}', '\u{800}', '\u{d7ff}', '\u{e000}', '\u{ffff}', '\u{10000}', '\u{10ffff}', '\n', '"'] {
        t.add("char.to_string", &[], "char.to_string", "fn main(x: char) -> String { x.to_string() }", "c>S",
            format!("utf8-len{}", c.len_utf8()), vec![Arg::Ch(c)], Some(format!("c10 {PW} char_to_string {}", c as u32)));
    }
    for asn in ["AS0", "AS1", "AS65535", "AS65536", "AS4294967295"] {
        t.add("Asn.to_string", &[], &format!("Asn.to_string.{asn}"), &format!("fn main() -> String {{ {asn}.to_string() }}"), ">S", asn, vec![], None);
    }
}

// ---------------------------------------------------------------------- floats

fn floats(t: &mut Tab, prng: &mut Prng, thorough: bool) {
    for (ty, tn, s1, s2, sb) in [(STy::F32, "f32", "f32>f32", "f32,f32>f32", "f32>b"), (STy::F64, "f64", "f64>f64", "f64,f64>f64", "f64>b")] {
        let mut vals = ty.boundary();
        for _ in 0..(if thorough { 60 } else { 6 }) {
            vals.push(prng.next() & ty.mask());
        }
        let names1: [(&'static str, &'static str); 10] = [
            ("f32.floor", "f64.floor"), ("f32.ceil", "f64.ceil"), ("f32.round", "f64.round"), ("f32.abs", "f64.abs"), ("f32.sqrt", "f64.sqrt"),
            ("f32.is_nan", "f64.is_nan"), ("f32.is_infinite", "f64.is_infinite"), ("f32.is_finite", "f64.is_finite"), ("f32.pow", "f64.pow"), ("", ""),
        ];
        for (i, m) in ["floor", "ceil", "round", "abs", "sqrt", "is_nan", "is_infinite", "is_finite"].iter().enumerate() {
            let name = if tn == "f32" { names1[i].0 } else { names1[i].1 };
            let (ret, sig) = if i < 5 { (tn, s1) } else { ("bool", sb) };
            let src = format!("fn main(x: {tn}) -> {ret} {{ x.{m}() }}");
            for v in &vals {
                t.add(name, &[], name, &src, sig, float_class(ty, *v), vec![Arg::N(ty, *v)], None);
            }
        }
        let name = if tn == "f32" { "f32.pow" } else { "f64.pow" };
        let src = format!("fn main(x: {tn}, y: {tn}) -> {tn} {{ x.pow(y) }}");
        for a in ty.boundary() {
            for b in ty.boundary() {
                t.add(name, &[], name, &src, s2, format!("{}^{}", float_class(ty, a), float_class(ty, b)), vec![Arg::N(ty, a), Arg::N(ty, b)], None);
            }
        }
    }
}

fn float_class(ty: STy, bits: u64) -> &'static str {
    let f = if ty == STy::F32 { f32::from_bits(bits as u32) as f64 } else { f64::from_bits(bits) };
    if f.is_nan() { "nan" } else if f.is_infinite() { "inf" } else if f == 0.0 { "zero" } else if f < 0.0 { "negative" } else { "positive" }
}
