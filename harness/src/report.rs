//! What a harness run hands back to `./check` (one JSON object on the last
//! stdout line, prefixed with `HARNESS-REPORT `).

use serde_json::{Value, json};
use std::collections::BTreeMap;

#[derive(Default)]
pub struct Report {
    /// cases executed
    pub evaluations: u64,
    /// distinct non-trivial classes hit (keys are the class signature)
    pub classes: BTreeMap<String, u64>,
    /// property violated on the real code: (what, replay input)
    pub impl_violations: Vec<Value>,
    /// model and implementation disagree: (what, replay input)
    pub model_mismatches: Vec<Value>,
    /// a few cases written out
    pub samples: Vec<Value>,
    /// input distribution histograms
    pub histograms: BTreeMap<String, BTreeMap<String, u64>>,
    pub notes: Vec<String>,
}

impl Report {
    pub fn class(&mut self, key: impl Into<String>) {
        *self.classes.entry(key.into()).or_insert(0) += 1;
    }
    pub fn hist(&mut self, name: &str, bucket: impl Into<String>) {
        *self
            .histograms
            .entry(name.to_string())
            .or_default()
            .entry(bucket.into())
            .or_insert(0) += 1;
    }
    pub fn sample(&mut self, v: Value) {
        if self.samples.len() < 8 {
            self.samples.push(v);
        }
    }
    pub fn violation(&mut self, what: &str, key: &str, input: Value) {
        if self.impl_violations.len() < 200 {
            self.impl_violations
                .push(json!({"what": what, "key": key, "input": input}));
        }
    }
    pub fn mismatch(&mut self, what: &str, input: Value) {
        if self.model_mismatches.len() < 200 {
            self.model_mismatches.push(json!({"what": what, "input": input}));
        }
    }
    /// Fold a worker's report (parsed from its `HARNESS-REPORT` line) into this one.
    pub fn merge_json(&mut self, v: &Value) {
        self.evaluations += v["evaluations"].as_u64().unwrap_or(0);
        if let Some(m) = v["classes"].as_object() {
            for (k, n) in m {
                *self.classes.entry(k.clone()).or_insert(0) += n.as_u64().unwrap_or(0);
            }
        }
        for (field, dst) in [("impl_violations", 0), ("model_mismatches", 1), ("samples", 2)] {
            if let Some(a) = v[field].as_array() {
                for x in a {
                    match dst {
                        0 if self.impl_violations.len() < 200 => self.impl_violations.push(x.clone()),
                        1 if self.model_mismatches.len() < 200 => self.model_mismatches.push(x.clone()),
                        2 if self.samples.len() < 8 => self.samples.push(x.clone()),
                        _ => {}
                    }
                }
            }
        }
        if let Some(h) = v["histograms"].as_object() {
            for (name, buckets) in h {
                if let Some(b) = buckets.as_object() {
                    for (k, n) in b {
                        *self
                            .histograms
                            .entry(name.clone())
                            .or_default()
                            .entry(k.clone())
                            .or_insert(0) += n.as_u64().unwrap_or(0);
                    }
                }
            }
        }
        if let Some(a) = v["notes"].as_array() {
            for n in a {
                if let Some(s) = n.as_str() {
                    if !self.notes.iter().any(|x| x == s) {
                        self.notes.push(s.to_string());
                    }
                }
            }
        }
    }

    /// Parse the report out of a worker's stdout.
    pub fn parse_stdout(out: &str) -> Option<Value> {
        out.lines()
            .rev()
            .find_map(|l| l.strip_prefix("HARNESS-REPORT "))
            .and_then(|j| serde_json::from_str(j).ok())
    }

    pub fn emit(&self) {
        let v = json!({
            "evaluations": self.evaluations,
            "distinct_nontrivial": self.classes.len(),
            "classes": self.classes,
            "impl_violations": self.impl_violations,
            "model_mismatches": self.model_mismatches,
            "samples": self.samples,
            "histograms": self.histograms,
            "notes": self.notes,
        });
        println!("HARNESS-REPORT {v}");
    }
}
