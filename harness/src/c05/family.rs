//! C05: the static family of boundary types. Every type has a run-time
//! description (`D`, mirrored by `RotoV.Boundary.BTy`), a value generator with
//! edge values first, a canonical rendering (floats by bit pattern), and
//! measured facts about its transformed representation.

use inetnum::{addr::Prefix, asn::Asn};
use roto::{List, RotoString, Val, Value, Verdict};
use rotov_harness::Prng;
use std::net::{IpAddr, Ipv4Addr, Ipv6Addr};

/// Description of a boundary type.
#[derive(Clone, Debug, PartialEq, Eq, Hash)]
pub enum D {
    Prim(&'static str),
    Unit,
    /// registered type: (script name, size, align)
    Val(&'static str, usize, usize),
    Opt(Box<D>),
    Res(Box<D>, Box<D>),
    Ver(Box<D>, Box<D>),
    List(Box<D>),
}

impl D {
    /// Roto syntax of the type
    pub fn roto(&self) -> String {
        match self {
            D::Prim(n) => n.to_string(),
            D::Unit => "()".into(),
            D::Val(n, _, _) => n.to_string(),
            D::Opt(t) => format!("Option[{}]", t.roto()),
            D::Res(a, b) => format!("Result[{}, {}]", a.roto(), b.roto()),
            D::Ver(a, b) => format!("Verdict[{}, {}]", a.roto(), b.roto()),
            D::List(t) => format!("List[{}]", t.roto()),
        }
    }
    /// prefix notation for the Lean driver
    pub fn lean(&self) -> String {
        match self {
            D::Prim(n) => format!("p {n}"),
            D::Unit => "u".into(),
            D::Val(_, s, a) => format!("v {s} {a}"),
            D::Opt(t) => format!("o {}", t.lean()),
            D::Res(a, b) => format!("r {} {}", a.lean(), b.lean()),
            D::Ver(a, b) => format!("d {} {}", a.lean(), b.lean()),
            D::List(t) => format!("l {}", t.lean()),
        }
    }
    /// shape for `c05 roundtrip`
    pub fn shape(&self) -> String {
        match self {
            D::Prim(_) | D::Val(..) => "f".into(),
            D::Unit => "u".into(),
            D::Opt(t) => format!("o {}", t.shape()),
            D::Res(a, b) => format!("r {} {}", a.shape(), b.shape()),
            D::Ver(a, b) => format!("d {} {}", a.shape(), b.shape()),
            D::List(t) => format!("l {}", t.shape()),
        }
    }
    /// (size, align) class of the payloads, for the class signature
    pub fn class(&self) -> String {
        match self {
            D::Prim(n) => n.to_string(),
            D::Unit => "unit".into(),
            D::Val(_, s, a) => format!("val{s}a{a}"),
            D::Opt(t) => format!("O<{}>", t.class()),
            D::Res(a, b) => format!("R<{},{}>", a.class(), b.class()),
            D::Ver(a, b) => format!("V<{},{}>", a.class(), b.class()),
            D::List(t) => format!("L<{}>", t.class()),
        }
    }
    pub fn depth(&self) -> usize {
        match self {
            D::Opt(t) | D::List(t) => 1 + t.depth(),
            D::Res(a, b) | D::Ver(a, b) => 1 + a.depth().max(b.depth()),
            _ => 0,
        }
    }
    pub fn is_zst_val(&self) -> bool {
        matches!(self, D::Val(_, 0, _))
    }
}

/// Measured facts about `T::Transformed`.
#[derive(Clone, Debug, PartialEq)]
pub struct Probe {
    pub size: usize,
    pub align: usize,
    /// for the three enums: per variant (in Rust declaration order) the
    /// discriminant byte of the real transformed value and the payload offset
    /// of a `#[repr(u8)]` mirror declared here with the same variants
    pub variants: Vec<(u8, Option<usize>)>,
}

pub trait BT: Value<Transformed: PartialEq> + Clone + Send + Sync + 'static {
    fn desc() -> D;
    /// `k`-th value: the edge values first (cyclically for `k < 16`), then random
    fn gen_val(p: &mut Prng, k: u32) -> Self;
    /// canonical rendering, floats by bit pattern; also the abstract value for the Lean driver
    fn show(&self) -> String;
    /// abstract value in the driver's notation (leaves numbered by hash)
    fn abs(&self) -> String;
    fn probe() -> Probe {
        Probe {
            size: std::mem::size_of::<Self::Transformed>(),
            align: std::mem::align_of::<Self::Transformed>(),
            variants: vec![],
        }
    }
    /// size and name of the type `RotoFunc::invoke` / the trampolines pass for this type
    fn asparam() -> (usize, &'static str) {
        (std::mem::size_of::<<Self as Value>::AsParam>(), std::any::type_name::<<Self as Value>::AsParam>())
    }
    /// the bytes of the real transformed value at these offsets (the caller only asks for
    /// discriminant bytes, which are always initialised)
    fn peek(&self, offs: &[usize]) -> Vec<u8> {
        let t = self.clone().transform();
        let p = &t as *const Self::Transformed as *const u8;
        let v = offs
            .iter()
            .map(|o| {
                assert!(*o < std::mem::size_of::<Self::Transformed>());
                unsafe { *p.add(*o) }
            })
            .collect();
        drop(Self::untransform(t));
        v
    }
}

fn h(s: &str) -> u64 {
    // FNV-1a, for abstract leaf numbering only
    let mut x = 0xcbf29ce484222325u64;
    for b in s.bytes() {
        x ^= b as u64;
        x = x.wrapping_mul(0x100000001b3);
    }
    x % 1_000_000
}

macro_rules! int_bt {
    ($($t:ty => $n:literal),*) => { $(
        impl BT for $t {
            fn desc() -> D { D::Prim($n) }
            fn gen_val(p: &mut Prng, k: u32) -> Self {
                const E: [$t; 8] = [0, 1, <$t>::MAX, <$t>::MIN, <$t>::MAX / 2, <$t>::MAX - 1, 0x55 as $t, (0xAAu8 as i8) as $t];
                if k < 16 { E[(k % 8) as usize] } else { p.next() as $t }
            }
            fn show(&self) -> String { format!("{}{}", self, $n) }
            fn abs(&self) -> String { h(&self.show()).to_string() }
        }
    )* };
}
int_bt!(u8 => "u8", u16 => "u16", u32 => "u32", u64 => "u64", i8 => "i8", i16 => "i16", i32 => "i32", i64 => "i64");

impl BT for bool {
    fn desc() -> D { D::Prim("bool") }
    fn gen_val(p: &mut Prng, k: u32) -> Self { if k < 16 { k % 2 == 0 } else { p.chance(1, 2) } }
    fn show(&self) -> String { format!("{self}") }
    fn abs(&self) -> String { h(&self.show()).to_string() }
}
impl BT for f32 {
    fn desc() -> D { D::Prim("f32") }
    fn gen_val(p: &mut Prng, k: u32) -> Self {
        const E: [u32; 8] = [0, 0x8000_0000, 0x3f80_0000, 0x7f80_0000, 0xff80_0000, 0x7fc0_0001, 0x0000_0001, 0x7f7f_ffff];
        f32::from_bits(if k < 16 { E[(k % 8) as usize] } else { p.next() as u32 })
    }
    fn show(&self) -> String { format!("f32#{:08x}", self.to_bits()) }
    fn abs(&self) -> String { h(&self.show()).to_string() }
}
impl BT for f64 {
    fn desc() -> D { D::Prim("f64") }
    fn gen_val(p: &mut Prng, k: u32) -> Self {
        const E: [u64; 8] = [0, 1 << 63, 0x3ff0 << 48, 0x7ff0 << 48, 0xfff0 << 48, (0x7ff8 << 48) | 1, 1, 0x7fef_ffff_ffff_ffff];
        f64::from_bits(if k < 16 { E[(k % 8) as usize] } else { p.next() })
    }
    fn show(&self) -> String { format!("f64#{:016x}", self.to_bits()) }
    fn abs(&self) -> String { h(&self.show()).to_string() }
}
impl BT for char {
    fn desc() -> D { D::Prim("char") }
    fn gen_val(p: &mut Prng, k: u32) -> Self {
        const E: [char; 8] = ['\0', 'a', '\u{7f}', '\u{80}', '\u{d7ff}', '\u{e000}', '\u{10ffff}', 'é'];
        if k < 16 { E[(k % 8) as usize] } else { char::from_u32(p.below(0xd800) as u32).unwrap() }
    }
    fn show(&self) -> String { format!("char#{:x}", *self as u32) }
    fn abs(&self) -> String { h(&self.show()).to_string() }
}
impl BT for Asn {
    fn desc() -> D { D::Prim("Asn") }
    fn gen_val(p: &mut Prng, k: u32) -> Self {
        const E: [u32; 4] = [0, 1, u32::MAX, 65536];
        Asn::from_u32(if k < 16 { E[(k % 4) as usize] } else { p.next() as u32 })
    }
    fn show(&self) -> String { format!("AS{}", self.into_u32()) }
    fn abs(&self) -> String { h(&self.show()).to_string() }
}
fn gen_ip(p: &mut Prng, k: u32) -> IpAddr {
    match if k < 16 { k % 6 } else { 6 + p.below(2) as u32 } {
        0 => IpAddr::V4(Ipv4Addr::new(0, 0, 0, 0)),
        1 => IpAddr::V4(Ipv4Addr::new(255, 255, 255, 255)),
        2 => IpAddr::V6(Ipv6Addr::from(0u128)),
        3 => IpAddr::V6(Ipv6Addr::from(u128::MAX)),
        4 => IpAddr::V4(Ipv4Addr::new(1, 2, 3, 4)),
        5 => IpAddr::V6(Ipv6Addr::from(0x0102_0304_0506_0708_090a_0b0c_0d0e_0f10u128)),
        6 => IpAddr::V4(Ipv4Addr::from(p.next() as u32)),
        _ => IpAddr::V6(Ipv6Addr::from(((p.next() as u128) << 64) | p.next() as u128)),
    }
}
impl BT for IpAddr {
    fn desc() -> D { D::Prim("IpAddr") }
    fn gen_val(p: &mut Prng, k: u32) -> Self { gen_ip(p, k) }
    fn show(&self) -> String { format!("ip:{self}") }
    fn abs(&self) -> String { h(&self.show()).to_string() }
}
impl BT for Prefix {
    fn desc() -> D { D::Prim("Prefix") }
    fn gen_val(p: &mut Prng, k: u32) -> Self {
        let ip = gen_ip(p, k);
        let max = if ip.is_ipv4() { 32 } else { 128 };
        let len = if k < 16 { [0, max, 8, 1][(k % 4) as usize] } else { p.below(max as u64 + 1) as u8 };
        Prefix::new_relaxed(ip, len).unwrap()
    }
    fn show(&self) -> String { format!("pfx:{self}") }
    fn abs(&self) -> String { h(&self.show()).to_string() }
}
impl BT for RotoString {
    fn desc() -> D { D::Prim("String") }
    fn gen_val(p: &mut Prng, k: u32) -> Self {
        const E: [&str; 6] = ["", "a", "héllo wörld", "\0", "0123456789abcdef0123456789abcdef", "\u{10ffff}x"];
        if k < 16 {
            RotoString::new(E[(k % 6) as usize])
        } else {
            let n = p.below(40) as usize;
            RotoString::new((0..n).map(|_| char::from(b'a' + p.below(26) as u8)).collect::<String>())
        }
    }
    fn show(&self) -> String { format!("s:{:?}", &**self) }
    fn abs(&self) -> String { h(&self.show()).to_string() }
}
impl BT for () {
    fn desc() -> D { D::Unit }
    fn gen_val(_: &mut Prng, _: u32) -> Self {}
    fn show(&self) -> String { "()".into() }
    fn abs(&self) -> String { "u".into() }
}

// ------------------------------------------------------------ registered types

/// A registered payload type of a given size/alignment class.
pub trait Reg: Clone + PartialEq + Send + Sync + std::fmt::Debug + 'static {
    const NAME: &'static str;
    const COPY: bool;
    fn make(p: &mut Prng, k: u32) -> Self;
}

macro_rules! reg {
    ($name:ident, $copy:literal, $(#[$m:meta])* { $($body:tt)* }, |$p:ident, $k:ident| $mk:expr) => {
        #[derive(Clone, PartialEq, Debug)]
        $(#[$m])*
        pub struct $name $($body)*
        impl Reg for $name {
            const NAME: &'static str = stringify!($name);
            const COPY: bool = $copy;
            fn make($p: &mut Prng, $k: u32) -> Self { $mk }
        }
    };
}
fn w(p: &mut Prng, k: u32) -> u64 {
    const E: [u64; 4] = [0, u64::MAX, 0x0102_0304_0506_0708, 0x8000_0000_8000_0080];
    if k < 16 { E[(k % 4) as usize] } else { p.next() }
}
reg!(Z0, true, #[derive(Copy)] { ; }, |_p, _k| Z0);
reg!(Zc, false, { {} }, |_p, _k| Zc {});
reg!(Za8, true, #[derive(Copy)] #[repr(align(8))] { ; }, |_p, _k| Za8);
reg!(B1, true, #[derive(Copy)] { (pub u8); }, |p, k| B1(w(p, k) as u8));
reg!(B3, true, #[derive(Copy)] { (pub [u8; 3]); }, |p, k| { let x = w(p, k); B3([x as u8, (x >> 8) as u8, (x >> 16) as u8]) });
reg!(H2, true, #[derive(Copy)] { (pub u16); }, |p, k| H2(w(p, k) as u16));
reg!(W4, true, #[derive(Copy)] { (pub u32); }, |p, k| W4(w(p, k) as u32));
reg!(Q8, true, #[derive(Copy)] { (pub u64); }, |p, k| Q8(w(p, k)));
reg!(P12, true, #[derive(Copy)] { (pub u32, pub u32, pub u32); }, |p, k| { let x = w(p, k); P12(x as u32, (x >> 32) as u32, !(x as u32)) });
reg!(T24, false, { (pub [u64; 3]); }, |p, k| { let x = w(p, k); T24([x, !x, x.rotate_left(13)]) });
reg!(X16, true, #[derive(Copy)] { (pub u128); }, |p, k| { let x = w(p, k); X16(((x as u128) << 64) | (!x) as u128) });
reg!(A32, true, #[derive(Copy)] #[repr(align(32))] { (pub u64); }, |p, k| A32(w(p, k)));
reg!(A64, true, #[derive(Copy)] #[repr(align(64))] { (pub u8, pub u64); }, |p, k| { let x = w(p, k); A64(x as u8, !x) });
reg!(Hs, false, { (pub String, pub u8); }, |p, k| Hs(format!("heap-{}", w(p, k)), k as u8));

impl<T: Reg> BT for Val<T> {
    fn desc() -> D { D::Val(T::NAME, std::mem::size_of::<T>(), std::mem::align_of::<T>()) }
    fn gen_val(p: &mut Prng, k: u32) -> Self { Val(T::make(p, k)) }
    fn show(&self) -> String { format!("{:?}", self.0) }
    fn abs(&self) -> String { h(&self.show()).to_string() }
}

// ------------------------------------------------------------ constructors

/// `#[repr(u8)]` mirrors declared exactly like `RotoOption`, `RotoResult`,
/// `Verdict`, to measure where rustc puts the payload.
#[repr(u8)]
#[allow(dead_code)]
enum MOpt<T> { Some(T), None }
#[repr(u8)]
#[allow(dead_code)]
enum MRes<T, E> { Ok(T), Err(E) }

fn off<A, B>(outer: &A, inner: &B) -> usize {
    inner as *const B as usize - outer as *const A as usize
}
/// first byte (the tag) of a transformed value
fn tag_of<T>(t: &T) -> u8 {
    assert!(std::mem::size_of::<T>() >= 1);
    unsafe { *(t as *const T as *const u8) }
}

impl<T: BT> BT for Option<T> {
    fn desc() -> D { D::Opt(Box::new(T::desc())) }
    fn gen_val(p: &mut Prng, k: u32) -> Self {
        let none = if k < 16 { k % 3 == 2 } else { p.chance(1, 3) };
        if none { None } else { Some(T::gen_val(p, k)) }
    }
    fn show(&self) -> String {
        match self { Some(x) => format!("Some({})", x.show()), None => "None".into() }
    }
    fn abs(&self) -> String {
        match self { Some(x) => format!("S {}", x.abs()), None => "N".into() }
    }
    fn probe() -> Probe {
        let mut p = Prng::new(1);
        let some = Some(T::gen_val(&mut p, 1)).transform();
        let none = Option::<T>::None.transform();
        let m = MOpt::Some(T::gen_val(&mut p, 1).transform());
        let o = match &m { MOpt::Some(x) => off(&m, x), MOpt::None => unreachable!() };
        assert_eq!(std::mem::size_of::<MOpt<T::Transformed>>(), std::mem::size_of::<Self::Transformed>());
        assert_eq!(std::mem::align_of::<MOpt<T::Transformed>>(), std::mem::align_of::<Self::Transformed>());
        let pr = Probe {
            size: std::mem::size_of::<Self::Transformed>(),
            align: std::mem::align_of::<Self::Transformed>(),
            variants: vec![(tag_of(&some), Some(o)), (tag_of(&none), None)],
        };
        std::mem::forget(m);
        drop(Self::untransform(some));
        pr
    }
}
impl<T: BT, E: BT> BT for Result<T, E> {
    fn desc() -> D { D::Res(Box::new(T::desc()), Box::new(E::desc())) }
    fn gen_val(p: &mut Prng, k: u32) -> Self {
        let err = if k < 16 { k % 2 == 1 } else { p.chance(1, 2) };
        if err { Err(E::gen_val(p, k)) } else { Ok(T::gen_val(p, k)) }
    }
    fn show(&self) -> String {
        match self { Ok(x) => format!("Ok({})", x.show()), Err(x) => format!("Err({})", x.show()) }
    }
    fn abs(&self) -> String {
        match self { Ok(x) => format!("O {}", x.abs()), Err(x) => format!("E {}", x.abs()) }
    }
    fn probe() -> Probe {
        let mut p = Prng::new(1);
        let ok = Result::<T, E>::Ok(T::gen_val(&mut p, 1)).transform();
        let err = Result::<T, E>::Err(E::gen_val(&mut p, 1)).transform();
        let m1: MRes<T::Transformed, E::Transformed> = MRes::Ok(T::gen_val(&mut p, 1).transform());
        let m2: MRes<T::Transformed, E::Transformed> = MRes::Err(E::gen_val(&mut p, 1).transform());
        let o1 = match &m1 { MRes::Ok(x) => off(&m1, x), _ => unreachable!() };
        let o2 = match &m2 { MRes::Err(x) => off(&m2, x), _ => unreachable!() };
        assert_eq!(std::mem::size_of::<MRes<T::Transformed, E::Transformed>>(), std::mem::size_of::<Self::Transformed>());
        assert_eq!(std::mem::align_of::<MRes<T::Transformed, E::Transformed>>(), std::mem::align_of::<Self::Transformed>());
        let pr = Probe {
            size: std::mem::size_of::<Self::Transformed>(),
            align: std::mem::align_of::<Self::Transformed>(),
            variants: vec![(tag_of(&ok), Some(o1)), (tag_of(&err), Some(o2))],
        };
        std::mem::forget(m1);
        std::mem::forget(m2);
        drop(Self::untransform(ok));
        drop(Self::untransform(err));
        pr
    }
}
impl<A: BT, R: BT> BT for Verdict<A, R> {
    fn desc() -> D { D::Ver(Box::new(A::desc()), Box::new(R::desc())) }
    fn gen_val(p: &mut Prng, k: u32) -> Self {
        let rej = if k < 16 { k % 2 == 1 } else { p.chance(1, 2) };
        if rej { Verdict::Reject(R::gen_val(p, k)) } else { Verdict::Accept(A::gen_val(p, k)) }
    }
    fn show(&self) -> String {
        match self { Verdict::Accept(x) => format!("Accept({})", x.show()), Verdict::Reject(x) => format!("Reject({})", x.show()) }
    }
    fn abs(&self) -> String {
        match self { Verdict::Accept(x) => format!("A {}", x.abs()), Verdict::Reject(x) => format!("R {}", x.abs()) }
    }
    fn probe() -> Probe {
        let mut p = Prng::new(1);
        let acc = Verdict::<A, R>::Accept(A::gen_val(&mut p, 1)).transform();
        let rej = Verdict::<A, R>::Reject(R::gen_val(&mut p, 1)).transform();
        // `Verdict<A::Transformed, R::Transformed>` is its own mirror (public variants)
        let o1 = match &acc { Verdict::Accept(x) => off(&acc, x), _ => unreachable!() };
        let o2 = match &rej { Verdict::Reject(x) => off(&rej, x), _ => unreachable!() };
        let pr = Probe {
            size: std::mem::size_of::<Self::Transformed>(),
            align: std::mem::align_of::<Self::Transformed>(),
            variants: vec![(tag_of(&acc), Some(o1)), (tag_of(&rej), Some(o2))],
        };
        drop(Self::untransform(acc));
        drop(Self::untransform(rej));
        pr
    }
}
impl<T: BT> BT for List<T> {
    fn desc() -> D { D::List(Box::new(T::desc())) }
    fn gen_val(p: &mut Prng, k: u32) -> Self {
        let n = if k < 16 { [0usize, 1, 3, 17][(k % 4) as usize] } else { p.below(9) as usize };
        let l = List::new();
        for i in 0..n {
            l.push(T::gen_val(p, k.wrapping_add(i as u32)));
        }
        l
    }
    fn show(&self) -> String {
        format!("[{}]", self.to_vec().iter().map(|x| x.show()).collect::<Vec<_>>().join(", "))
    }
    fn abs(&self) -> String {
        let v = self.to_vec();
        format!("L {}{}", v.len(), v.iter().map(|x| format!(" {}", x.abs())).collect::<String>())
    }
}
