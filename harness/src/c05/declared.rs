// Script-declared types in exported signatures (round 4).
//
// The family of boundary types consists of built-in and registered types. A script may
// declare types of its own, and it may give them the NAME of a built-in generic type
// (`enum Option[T] { None, Some(T) }` in the script's own scope shadows the global
// `Option`). Such a type has no counterpart in Rust: its variants are laid out in the
// script's declaration order. For every exported function whose signature mentions such a
// type, and for the Rust signature that spells the same names (`Option<T>` for `Option[T]`):
//
//   * either `get_function` refuses the signature — then nothing crosses, or
//   * the value crosses unchanged: what the script constructs as `Some(x)` is `Some(x)` in
//     Rust, what Rust passes as `None` the script matches as `None`, an identity function
//     returns what it was given.
//
// Both outcomes satisfy the property; a value that arrives reinterpreted does not. The
// declarations vary: variant order (swapped / as in Rust / a third variant in front),
// the declared name (a built-in name or a fresh one), the arity, an enum or a record,
// the payload type, and the built-in types nested around the declared one.

fn declared_violation(rep: &mut Report, case: &str, g: &str, shape: &str, func: &str, t: &D, script: &str, sent: String, got: String, want: String) {
    rep.violation(
        "a value of a script-declared type crossed the boundary reinterpreted",
        &format!("declared:{g}:{shape}:{func}:{}", t.class()),
        json!({"case": case, "type": t.roto(), "script": script, "function": func, "sent": sent, "arrived": got, "expected": want}),
    );
}

/// Compile a script that only declares types and functions over them. A script that does
/// not compile sends nothing across the boundary.
fn declared_compile(src: &str) -> Option<Package<NoCtx>> {
    let rt = base_runtime();
    FileTree::test_file("c05.roto", src, 0).compile(&rt).ok()
}

/// (shape id, declaration with `{N}` for the declared name)
const OPTION_SHAPES: &[(&str, &str)] = &[
    ("swapped", "enum {N}[T] { None, Some(T) }"),
    ("same-order", "enum {N}[T] { Some(T), None }"),
    ("third-first", "enum {N}[T] { Other, Some(T), None }"),
    ("third-last", "enum {N}[T] { Some(T), None, Other }"),
];
const RESULT_SHAPES: &[(&str, &str)] = &[
    ("swapped", "enum {N}[T, E] { Err(E), Ok(T) }"),
    ("same-order", "enum {N}[T, E] { Ok(T), Err(E) }"),
    ("third-last", "enum {N}[T, E] { Ok(T), Err(E), Other }"),
    ("third-first", "enum {N}[T, E] { Other, Ok(T), Err(E) }"),
];
const VERDICT_SHAPES: &[(&str, &str)] = &[
    ("swapped", "enum {N}[A, R] { Reject(R), Accept(A) }"),
    ("same-order", "enum {N}[A, R] { Accept(A), Reject(R) }"),
    ("third-first", "enum {N}[A, R] { Other, Accept(A), Reject(R) }"),
];
const LIST_SHAPES: &[(&str, &str)] = &[
    ("enum", "enum {N}[T] { Nil, One(T) }"),
    ("enum-two", "enum {N}[T] { One(T), Two(T, T) }"),
];

fn declared_outcome(rep: &mut Report, g: &str, name: &str, shape: &str, crossed: u32, refused: u32, compiled: bool) {
    let what = if !compiled {
        "does-not-compile"
    } else if crossed == 0 {
        "refused"
    } else if refused == 0 {
        "crossed-unchanged"
    } else {
        "partly-refused"
    };
    if crossed > 0 {
        // the model's gate (generated name tests of check_roto_type) refuses every type a script
        // declares (Props/C05Gate.script_declared_refused): an admitted one breaks the tie even
        // where the values happened to arrive unchanged
        rep.mismatch(
            "get_function admitted a signature over a script-declared type; the model's gate refuses every one",
            json!({"declared": format!("{g} as {name}, {shape}"), "functions admitted": crossed, "refused": refused}),
        );
    }
    rep.class(format!("declared:{g}:{name}:{shape}:{what}"));
    rep.hist("declared", format!("{g}:{what}"));
}

/// `Option[T]` declared by the script (under the built-in name and under a fresh one),
/// asked for as Rust's `Option<T>`.
fn sc_declared_option<T: BT>(env: &Env, rep: &mut Report, name: &str) {
    let d = T::desc();
    let t = d.roto();
    for n in ["Option", "Maybe"] {
        for (shape, decl) in OPTION_SHAPES {
            let src = format!(
                "{decl}\n\
                 fn wrap(x: {t}) -> {n}[{t}] {{ {n}.Some(x) }}\n\
                 fn nothing() -> {n}[{t}] {{ {n}.None }}\n\
                 fn is_some(v: {n}[{t}]) -> u8 {{ match v {{ Some(_) => 1, None => 0, _ => 2 }} }}\n\
                 fn get_or(v: {n}[{t}], dflt: {t}) -> {t} {{ match v {{ Some(x) => x, _ => dflt }} }}\n\
                 fn id(v: {n}[{t}]) -> {n}[{t}] {{ v }}\n\
                 fn deep(v: List[{n}[{t}]?]) -> List[{n}[{t}]?] {{ v }}\n",
                decl = decl.replace("{N}", n)
            );
            let Some(mut pkg) = declared_compile(&src) else {
                declared_outcome(rep, "Option", n, shape, 0, 0, false);
                continue;
            };
            let (mut crossed, mut refused) = (0, 0);
            let mut p = Prng::for_case(env.seed, h64(name));
            macro_rules! bad {
                ($f:expr, $sent:expr, $got:expr, $want:expr) => {{
                    declared_violation(rep, name, "Option", shape, $f, &d, &src, $sent, $got, $want);
                    return;
                }};
            }
            match pkg.get_function::<fn(T) -> Option<T>>("wrap") {
                Ok(f) => {
                    crossed += 1;
                    for k in 0..env.rounds {
                        let v = T::gen_val(&mut p, k);
                        let want = Some(v.clone()).show();
                        let got = f.call(v.clone()).show();
                        rep.evaluations += 1;
                        if got != want {
                            bad!("wrap", v.show(), got, want);
                        }
                    }
                }
                Err(_) => refused += 1,
            }
            match pkg.get_function::<fn() -> Option<T>>("nothing") {
                Ok(f) => {
                    crossed += 1;
                    let got = f.call().show();
                    rep.evaluations += 1;
                    if got != "None" {
                        bad!("nothing", "()".into(), got, "None".into());
                    }
                }
                Err(_) => refused += 1,
            }
            match pkg.get_function::<fn(Option<T>) -> u8>("is_some") {
                Ok(f) => {
                    crossed += 1;
                    for k in 0..env.rounds {
                        let v = Option::<T>::gen_val(&mut p, k);
                        let want = if v.is_some() { 1u8 } else { 0 };
                        let got = f.call(v.clone());
                        rep.evaluations += 1;
                        if got != want {
                            bad!("is_some", v.show(), got.to_string(), want.to_string());
                        }
                    }
                }
                Err(_) => refused += 1,
            }
            match pkg.get_function::<fn(Option<T>, T) -> T>("get_or") {
                Ok(f) => {
                    crossed += 1;
                    for k in 0..env.rounds {
                        let v = Option::<T>::gen_val(&mut p, k);
                        let dflt = T::gen_val(&mut p, k + 1);
                        let want = v.clone().unwrap_or(dflt.clone()).show();
                        let got = f.call(v.clone(), dflt.clone()).show();
                        rep.evaluations += 1;
                        if got != want {
                            bad!("get_or", format!("{}, {}", v.show(), dflt.show()), got, want);
                        }
                    }
                }
                Err(_) => refused += 1,
            }
            match pkg.get_function::<fn(Option<T>) -> Option<T>>("id") {
                Ok(f) => {
                    crossed += 1;
                    for k in 0..env.rounds {
                        let v = Option::<T>::gen_val(&mut p, k);
                        let want = v.show();
                        let got = f.call(v.clone()).show();
                        rep.evaluations += 1;
                        if got != want {
                            bad!("id", v.show(), got, want);
                        }
                    }
                }
                Err(_) => refused += 1,
            }
            // the declared type nested inside built-in ones: List[Option[N[T]]] as List<Option<Option<T>>>
            match pkg.get_function::<fn(List<Option<Option<T>>>) -> List<Option<Option<T>>>>("deep") {
                Ok(f) => {
                    crossed += 1;
                    for k in 0..env.rounds.min(8) {
                        let v = List::<Option<Option<T>>>::gen_val(&mut p, k);
                        let want = v.show();
                        let got = f.call(v.clone()).show();
                        rep.evaluations += 1;
                        if got != want {
                            bad!("deep", v.show(), got, want);
                        }
                    }
                }
                Err(_) => refused += 1,
            }
            declared_outcome(rep, "Option", n, shape, crossed, refused, true);
        }
    }
}

/// `Result[T, E]` / `Verdict[A, R]` declared by the script, asked for as Rust's
/// `Result<T, E>` / `Verdict<A, R>`.
macro_rules! declared_two {
    ($fname:ident, $g:literal, $fresh:literal, $shapes:ident, $rust:ident, $first:ident, $second:ident) => {
        fn $fname<T: BT, E: BT>(env: &Env, rep: &mut Report, name: &str) {
            let d = <$rust<T, E> as BT>::desc();
            let (t, e) = (T::desc().roto(), E::desc().roto());
            for n in [$g, $fresh] {
                for (shape, decl) in $shapes {
                    let (c1, c2) = (stringify!($first), stringify!($second));
                    let src = format!(
                        "{decl}\n\
                         fn first(x: {t}) -> {n}[{t}, {e}] {{ {n}.{c1}(x) }}\n\
                         fn second(y: {e}) -> {n}[{t}, {e}] {{ {n}.{c2}(y) }}\n\
                         fn which(v: {n}[{t}, {e}]) -> u8 {{ match v {{ {c1}(_) => 1, {c2}(_) => 2, _ => 3 }} }}\n\
                         fn id(v: {n}[{t}, {e}]) -> {n}[{t}, {e}] {{ v }}\n\
                         fn deep(v: {n}[{t}, {e}]?) -> {n}[{t}, {e}]? {{ v }}\n",
                        decl = decl.replace("{N}", n)
                    );
                    let Some(mut pkg) = declared_compile(&src) else {
                        declared_outcome(rep, $g, n, shape, 0, 0, false);
                        continue;
                    };
                    let (mut crossed, mut refused) = (0, 0);
                    let mut p = Prng::for_case(env.seed, h64(name));
                    match pkg.get_function::<fn(T) -> $rust<T, E>>("first") {
                        Ok(f) => {
                            crossed += 1;
                            for k in 0..env.rounds {
                                let v = T::gen_val(&mut p, k);
                                let want = <$rust<T, E>>::$first(v.clone()).show();
                                let got = f.call(v.clone()).show();
                                rep.evaluations += 1;
                                if got != want {
                                    { declared_violation(rep, name, $g, shape, "first", &d, &src, v.show(), got, want); return; }
                                }
                            }
                        }
                        Err(_) => refused += 1,
                    }
                    match pkg.get_function::<fn(E) -> $rust<T, E>>("second") {
                        Ok(f) => {
                            crossed += 1;
                            for k in 0..env.rounds {
                                let v = E::gen_val(&mut p, k);
                                let want = <$rust<T, E>>::$second(v.clone()).show();
                                let got = f.call(v.clone()).show();
                                rep.evaluations += 1;
                                if got != want {
                                    { declared_violation(rep, name, $g, shape, "second", &d, &src, v.show(), got, want); return; }
                                }
                            }
                        }
                        Err(_) => refused += 1,
                    }
                    match pkg.get_function::<fn($rust<T, E>) -> u8>("which") {
                        Ok(f) => {
                            crossed += 1;
                            for k in 0..env.rounds {
                                let v = <$rust<T, E> as BT>::gen_val(&mut p, k);
                                let want = match &v {
                                    $rust::$first(_) => 1u8,
                                    $rust::$second(_) => 2,
                                };
                                let got = f.call(v.clone());
                                rep.evaluations += 1;
                                if got != want {
                                    { declared_violation(rep, name, $g, shape, "which", &d, &src, v.show(), got.to_string(), want.to_string()); return; }
                                }
                            }
                        }
                        Err(_) => refused += 1,
                    }
                    match pkg.get_function::<fn($rust<T, E>) -> $rust<T, E>>("id") {
                        Ok(f) => {
                            crossed += 1;
                            for k in 0..env.rounds {
                                let v = <$rust<T, E> as BT>::gen_val(&mut p, k);
                                let want = v.show();
                                let got = f.call(v.clone()).show();
                                rep.evaluations += 1;
                                if got != want {
                                    { declared_violation(rep, name, $g, shape, "id", &d, &src, v.show(), got, want); return; }
                                }
                            }
                        }
                        Err(_) => refused += 1,
                    }
                    match pkg.get_function::<fn(Option<$rust<T, E>>) -> Option<$rust<T, E>>>("deep") {
                        Ok(f) => {
                            crossed += 1;
                            for k in 0..env.rounds {
                                let v = <Option<$rust<T, E>> as BT>::gen_val(&mut p, k);
                                let want = v.show();
                                let got = f.call(v.clone()).show();
                                rep.evaluations += 1;
                                if got != want {
                                    { declared_violation(rep, name, $g, shape, "deep", &d, &src, v.show(), got, want); return; }
                                }
                            }
                        }
                        Err(_) => refused += 1,
                    }
                    declared_outcome(rep, $g, n, shape, crossed, refused, true);
                }
            }
        }
    };
}
declared_two!(sc_declared_result, "Result", "Outcome", RESULT_SHAPES, Result, Ok, Err);
declared_two!(sc_declared_verdict, "Verdict", "Ruling", VERDICT_SHAPES, Verdict, Accept, Reject);

/// A type the script declares under the name `List` (or a fresh name), asked for as Rust's
/// `List<T>`; and script-declared records / enums asked for as the type of their only
/// field / as an integer.
fn sc_declared_list<T: BT>(env: &Env, rep: &mut Report, name: &str) {
    let d = T::desc();
    let t = d.roto();
    for n in ["List", "Seq"] {
        for (shape, decl) in LIST_SHAPES {
            let src = format!("{decl}\nfn id(v: {n}[{t}]) -> {n}[{t}] {{ v }}\nfn one(x: {t}) -> {n}[{t}] {{ {n}.One(x) }}\n", decl = decl.replace("{N}", n));
            let Some(mut pkg) = declared_compile(&src) else {
                declared_outcome(rep, "List", n, shape, 0, 0, false);
                continue;
            };
            let (mut crossed, mut refused) = (0, 0);
            let mut p = Prng::for_case(env.seed, h64(name));
            match pkg.get_function::<fn(List<T>) -> List<T>>("id") {
                Ok(f) => {
                    crossed += 1;
                    for k in 0..env.rounds.min(8) {
                        let v = List::<T>::gen_val(&mut p, k);
                        let want = v.show();
                        let got = f.call(v.clone()).show();
                        rep.evaluations += 1;
                        if got != want {
                            declared_violation(rep, name, "List", shape, "id", &d, &src, v.show(), got, want);
                            return;
                        }
                    }
                }
                Err(_) => refused += 1,
            }
            declared_outcome(rep, "List", n, shape, crossed, refused, true);
        }
    }
    // a record around one value asked for as that value; an enum without payloads asked for as u8
    let src = format!(
        "record Rec {{ x: {t} }}\nenum Two {{ A, B }}\n\
         fn mk(x: {t}) -> Rec {{ Rec {{ x: x }} }}\nfn unmk(r: Rec) -> {t} {{ r.x }}\n\
         fn second() -> Two {{ Two.B }}\n"
    );
    let Some(mut pkg) = declared_compile(&src) else {
        declared_outcome(rep, "record", "Rec", "one-field", 0, 0, false);
        return;
    };
    let (mut crossed, mut refused) = (0, 0);
    let mut p = Prng::for_case(env.seed, h64(name));
    match pkg.get_function::<fn(T) -> T>("mk") {
        Ok(f) => {
            crossed += 1;
            for k in 0..env.rounds {
                let v = T::gen_val(&mut p, k);
                let (want, got) = (v.show(), f.call(v.clone()).show());
                rep.evaluations += 1;
                if got != want {
                    declared_violation(rep, name, "record", "one-field", "mk", &d, &src, v.show(), got, want);
                    return;
                }
            }
        }
        Err(_) => refused += 1,
    }
    match pkg.get_function::<fn(T) -> T>("unmk") {
        Ok(f) => {
            crossed += 1;
            for k in 0..env.rounds {
                let v = T::gen_val(&mut p, k);
                let (want, got) = (v.show(), f.call(v.clone()).show());
                rep.evaluations += 1;
                if got != want {
                    declared_violation(rep, name, "record", "one-field", "unmk", &d, &src, v.show(), got, want);
                    return;
                }
            }
        }
        Err(_) => refused += 1,
    }
    match pkg.get_function::<fn() -> u8>("second") {
        Ok(f) => {
            crossed += 1;
            let got = f.call();
            rep.evaluations += 1;
            if got != 1 {
                declared_violation(rep, name, "enum", "no-payload", "second", &d, &src, "()".into(), got.to_string(), "1".into());
                return;
            }
        }
        Err(_) => refused += 1,
    }
    declared_outcome(rep, "record", "Rec", "one-field", crossed, refused, true);
}

/// A record / enum the script declares under the name of a primitive or of a registered type
/// (`record u32 { x: u64 }`, `enum W4 { A, B(u64) }`), asked for as that Rust type: the `Leaf` and
/// `Val` arms of the gate. A value handed through an identity function must come back as sent.
fn sc_declared_leaf<T: BT>(env: &Env, rep: &mut Report, name: &str) {
    let d = T::desc();
    let n = d.roto();
    for (shape, decl) in [("record", "record {N} { x: u64 }"), ("record-wide", "record {N} { x: u64, y: u64, z: u8 }"), ("enum", "enum {N} { A, B(u64) }")] {
        let src = format!("{decl}\nfn id(r: {n}) -> {n} {{ r }}\nfn twice(r: {n}) -> {n} {{ let a = r; a }}\n", decl = decl.replace("{N}", &n));
        let Some(mut pkg) = declared_compile(&src) else {
            declared_outcome(rep, "leaf", &n, shape, 0, 0, false);
            continue;
        };
        let (mut crossed, mut refused) = (0, 0);
        let mut p = Prng::for_case(env.seed, h64(name));
        for func in ["id", "twice"] {
            match pkg.get_function::<fn(T) -> T>(func) {
                Ok(f) => {
                    crossed += 1;
                    for k in 0..env.rounds {
                        let v = T::gen_val(&mut p, k);
                        let (want, got) = (v.show(), f.call(v.clone()).show());
                        rep.evaluations += 1;
                        if got != want {
                            declared_violation(rep, name, "leaf", shape, func, &d, &src, v.show(), got, want);
                            return;
                        }
                    }
                }
                Err(_) => refused += 1,
            }
        }
        declared_outcome(rep, "leaf", &n, shape, crossed, refused, true);
    }
}

/// Class representatives: they run first, with a fixed seed.
fn declared_cases(cases: &mut Vec<Case>) {
    fn rep1<T: BT>(scen: &str, run: Run) -> Case {
        Case { name: format!("rep:declared-{scen} {}", T::desc().roto()), run }
    }
    macro_rules! one { ($($t:ty);* $(;)?) => { $(
        cases.push(rep1::<$t>("option", sc_declared_option::<$t>));
        cases.push(rep1::<$t>("list", sc_declared_list::<$t>));
    )* } }
    one!(u32; u8; u64; bool; f64; IpAddr; RotoString; Val<W4>; Val<Hs>);
    macro_rules! leaf { ($($t:ty);* $(;)?) => { $( cases.push(rep1::<$t>("leaf", sc_declared_leaf::<$t>)); )* } }
    leaf!(u32; u8; i64; bool; f64; char; Asn; IpAddr; Prefix; RotoString; Val<Z0>; Val<W4>; Val<X16>; Val<Hs>);
    macro_rules! two { ($(($t:ty, $e:ty));* $(;)?) => { $(
        cases.push(rep1::<Result<$t, $e>>("result", sc_declared_result::<$t, $e>));
        cases.push(rep1::<Verdict<$t, $e>>("verdict", sc_declared_verdict::<$t, $e>));
    )* } }
    two!((u32, u32); (u8, u64); (u64, u8); (IpAddr, u8); (RotoString, u32); (bool, Val<W4>));
}

// ------------------------------------------------------------------ the gate, tied
//
// The model's gate (`Model/BoundaryGate.gate` over the generated arms of `check_roto_type`)
// against the real `get_function`, on the signature types the real type checker resolved
// (hook `Module::verif_c05_signature_types`: scope, identifier, what the name denotes,
// arguments): for every asked (function, Rust function type) the driver's answer per
// position (`c05 gate`) must be the real answer, and every resolved type must satisfy the
// well-formedness the theorems assume of name resolution (`STy.WF`). No script code runs.

fn rty(d: &D) -> String {
    match d {
        D::Prim(n) => format!("p {n}"),
        D::Unit => "u".into(),
        D::Val(n, _, _) => format!("v {n}"),
        D::Opt(t) => format!("o {}", rty(t)),
        D::Res(a, b) => format!("r {} {}", rty(a), rty(b)),
        D::Ver(a, b) => format!("d {} {}", rty(a), rty(b)),
        D::List(t) => format!("l {}", rty(t)),
    }
}

type SigTypes = Vec<(String, Vec<String>, String)>;

fn gate_compare(drv: &mut Driver, rep: &mut Report, sigs: &SigTypes, src: &str, func: &str, rust_params: &[String], rust_ret: &str, real: bool) {
    let Some((_, ps, ret)) = sigs.iter().find(|(k, _, _)| k == &format!("pkg.{func}")) else {
        rep.mismatch("gate tie: the hook does not list a function of the script", json!({"function": func, "script": src}));
        return;
    };
    let mut model = ps.len() == rust_params.len();
    let mut declared = false;
    let mut pairs: Vec<(&str, &str)> = rust_params.iter().map(|s| s.as_str()).zip(ps.iter().map(|s| s.as_str())).collect();
    pairs.push((rust_ret, ret.as_str()));
    for (r, s) in pairs {
        let ans = drv.ask(&format!("c05 gate {r} | {s}"));
        rep.evaluations += 1;
        let w: Vec<&str> = ans.split(' ').collect();
        let [_, g, _, wf, _, decl] = w[..] else {
            rep.mismatch("gate tie: the driver could not read a resolved signature type", json!({"rust": r, "roto": s, "answer": ans, "script": src}));
            return;
        };
        if wf != "true" {
            rep.mismatch(
                "a resolved signature type violates what the gate theorems assume of name resolution (STy.WF)",
                json!({"roto": s, "function": func, "script": src}),
            );
        }
        model &= g == "true";
        declared |= decl == "true";
    }
    if model != real {
        rep.mismatch(
            "the model's gate and get_function disagree",
            json!({"function": func, "rust parameters": rust_params, "rust return": rust_ret, "roto parameters": ps, "roto return": ret, "model": model, "real": real, "script": src}),
        );
    }
    rep.class(format!("gate:{}:{}", if real { "admitted" } else { "refused" }, if declared { "declared" } else { "host-types" }));
}

macro_rules! gate_ask {
    ($pkg:ident, $sigs:ident, $drv:ident, $rep:ident, $src:ident, $f:literal, fn($($a:ty),*) -> $r:ty) => {{
        let real = $pkg.get_function::<fn($($a),*) -> $r>($f).is_ok();
        let rust_params: Vec<String> = vec![$(rty(&<$a as BT>::desc())),*];
        let rust_ret = rty(&<$r as BT>::desc());
        gate_compare($drv, $rep, &$sigs, &$src, $f, &rust_params, &rust_ret, real);
    }};
}

fn gate_tie_type<T: BT>(drv: &mut Driver, rep: &mut Report) {
    let t = T::desc().roto();
    // the built-in spellings: admitted as written, refused with a component swapped, a
    // parameter missing, another nesting
    let src = format!(
        "fn a(x: {t}?) -> {t}? {{ x }}\nfn b(x: Result[{t}, u8]) -> Verdict[u8, {t}] {{ match x {{ Ok(v) => Verdict.Reject(v), Err(e) => Verdict.Accept(e) }} }}\n\
         fn c(x: List[{t}?], y: u8) -> List[{t}?] {{ x }}\nfn e(x: {t}) -> {t} {{ x }}\n"
    );
    if let Some(mut pkg) = declared_compile(&src) {
        let sigs = pkg.verif_c05_signature_types();
        gate_ask!(pkg, sigs, drv, rep, src, "a", fn(Option<T>) -> Option<T>);
        gate_ask!(pkg, sigs, drv, rep, src, "a", fn(T) -> Option<T>);
        gate_ask!(pkg, sigs, drv, rep, src, "a", fn(Option<Option<T>>) -> Option<T>);
        gate_ask!(pkg, sigs, drv, rep, src, "b", fn(Result<T, u8>) -> Verdict<u8, T>);
        gate_ask!(pkg, sigs, drv, rep, src, "b", fn(Result<u8, T>) -> Verdict<u8, T>);
        gate_ask!(pkg, sigs, drv, rep, src, "b", fn(Result<T, u8>) -> Verdict<T, u8>);
        gate_ask!(pkg, sigs, drv, rep, src, "b", fn(Verdict<T, u8>) -> Verdict<u8, T>);
        gate_ask!(pkg, sigs, drv, rep, src, "c", fn(List<Option<T>>, u8) -> List<Option<T>>);
        gate_ask!(pkg, sigs, drv, rep, src, "c", fn(List<Option<T>>) -> List<Option<T>>);
        gate_ask!(pkg, sigs, drv, rep, src, "c", fn(List<T>, u8) -> List<Option<T>>);
        gate_ask!(pkg, sigs, drv, rep, src, "e", fn(T) -> T);
        gate_ask!(pkg, sigs, drv, rep, src, "e", fn(T, T) -> T);
        gate_ask!(pkg, sigs, drv, rep, src, "e", fn(Option<T>) -> T);
    } else {
        rep.mismatch("gate tie: a script over built-in types did not compile", json!({"script": src}));
    }
    // types the script declares, under built-in names and fresh ones
    for n in ["Option", "Maybe"] {
        for (_, decl) in OPTION_SHAPES {
            let src = format!("{decl}\nfn wrap(x: {t}) -> {n}[{t}] {{ {n}.Some(x) }}\nfn id(v: {n}[{t}]) -> {n}[{t}] {{ v }}\nfn deep(v: List[{n}[{t}]?]) -> {n}[{t}]? {{ v.get(0)? }}\n", decl = decl.replace("{N}", n));
            let Some(mut pkg) = declared_compile(&src) else { continue };
            let sigs = pkg.verif_c05_signature_types();
            gate_ask!(pkg, sigs, drv, rep, src, "wrap", fn(T) -> Option<T>);
            gate_ask!(pkg, sigs, drv, rep, src, "id", fn(Option<T>) -> Option<T>);
            gate_ask!(pkg, sigs, drv, rep, src, "deep", fn(List<Option<Option<T>>>) -> Option<Option<T>>);
        }
    }
    for (n, shapes, c1) in [("Result", RESULT_SHAPES, "Ok"), ("Outcome", RESULT_SHAPES, "Ok"), ("Verdict", VERDICT_SHAPES, "Accept"), ("Ruling", VERDICT_SHAPES, "Accept")] {
        for (_, decl) in shapes {
            let src = format!("{decl}\nfn first(x: {t}) -> {n}[{t}, u8] {{ {n}.{c1}(x) }}\nfn id(v: {n}[{t}, u8]) -> {n}[{t}, u8] {{ v }}\n", decl = decl.replace("{N}", n));
            let Some(mut pkg) = declared_compile(&src) else { continue };
            let sigs = pkg.verif_c05_signature_types();
            gate_ask!(pkg, sigs, drv, rep, src, "first", fn(T) -> Result<T, u8>);
            gate_ask!(pkg, sigs, drv, rep, src, "first", fn(T) -> Verdict<T, u8>);
            gate_ask!(pkg, sigs, drv, rep, src, "id", fn(Result<T, u8>) -> Result<T, u8>);
            gate_ask!(pkg, sigs, drv, rep, src, "id", fn(Verdict<T, u8>) -> Verdict<T, u8>);
        }
    }
    for n in ["List", "Seq"] {
        for (_, decl) in LIST_SHAPES {
            let src = format!("{decl}\nfn id(v: {n}[{t}]) -> {n}[{t}] {{ v }}\n", decl = decl.replace("{N}", n));
            let Some(mut pkg) = declared_compile(&src) else { continue };
            let sigs = pkg.verif_c05_signature_types();
            gate_ask!(pkg, sigs, drv, rep, src, "id", fn(List<T>) -> List<T>);
            gate_ask!(pkg, sigs, drv, rep, src, "id", fn(Option<T>) -> Option<T>);
        }
    }
    if matches!(T::desc(), D::Prim(_) | D::Val(..)) {
        for decl in ["record {N} { x: u64 }", "enum {N} { A, B(u64) }"] {
            let src = format!("{decl}\nfn id(r: {t}) -> {t} {{ r }}\n", decl = decl.replace("{N}", &t));
            let Some(mut pkg) = declared_compile(&src) else { continue };
            let sigs = pkg.verif_c05_signature_types();
            gate_ask!(pkg, sigs, drv, rep, src, "id", fn(T) -> T);
            gate_ask!(pkg, sigs, drv, rep, src, "id", fn(u64) -> u64);
        }
    }
}

fn gate_tie(rep: &mut Report) {
    let mut drv = Driver::spawn().expect("spawn rotov-driver");
    macro_rules! t { ($($t:ty);* $(;)?) => { $( gate_tie_type::<$t>(&mut drv, rep); )* } }
    t!(u32; u8; i64; bool; f64; char; Asn; IpAddr; Prefix; RotoString; (); Val<Z0>; Val<W4>; Val<X16>; Val<Hs>;
        Option<u32>; Result<u8, u64>; Verdict<IpAddr, u32>; List<u8>);
}
