// C05: read sites and private copies (included by `bin/c05.rs`).
//
// A value the host hands over (registered constant, context field, argument) must
// be the same value at EVERY place a script reads it — not only at the first read
// in straight-line code — and what a script then does with its copy must never
// reach the host's storage.
//
//  * `sites-*`: one script per (source, type) in which the same boundary read is
//    made at every control-flow position of `SITES` (twice in a row; inside a
//    branch and after it; in both arms; after an early return; inside a `while` /
//    `for` body and after a zero-iteration loop; inside a match arm and after the
//    match; in two functions; behind `accept` / `reject`). A selector `s` chooses
//    the path, so each function is called on the path that executes the earlier
//    read and on the path that skips it. Every read inside a block is emitted
//    through the registered function `note`, the last one is returned: all of
//    them must equal what the host holds.
//  * `alias-*`: the script binds a boundary read to a local and then assigns to
//    that local (whole assignment on a path, in a loop, through a parameter of a
//    callee, through a second local, field assignment of a record holding it, a
//    local `Option` around it). A script has no way to assign to a constant or a
//    context field: afterwards the host's context struct is unchanged, and a
//    re-read of the constant / field in the same function, in another function and
//    in a later call still gives the original.

/// one read-site shape: the body of `fn <name>(<P>s: u8) -> T` over `{R}` (the
/// boundary read) and `{A}` (arguments handed on to `inner` / `fm`), and for every
/// selector value the number of values the body emits through `note`
struct Site {
    name: &'static str,
    body: &'static str,
    sel: &'static [(u8, usize)],
}

const SITES: &[Site] = &[
    Site { name: "twice", body: "note({R}); {R}", sel: &[(0, 1)] },
    Site { name: "two_lets", body: "let a = {R}; let b = {R}; note(a); b", sel: &[(0, 1)] },
    Site { name: "br_after", body: "if s == 1 { note({R}); } {R}", sel: &[(0, 0), (1, 1)] },
    Site { name: "br_else_after", body: "if s == 1 { note({R}); } else { note({R}); note({R}); } {R}", sel: &[(0, 2), (1, 1)] },
    Site { name: "arms", body: "if s == 1 { {R} } else { {R} }", sel: &[(0, 0), (1, 0)] },
    Site { name: "early", body: "if s == 1 { return {R}; } {R}", sel: &[(0, 0), (1, 0)] },
    Site { name: "nested", body: "if s > 0 { if s > 1 { note({R}); } note({R}); } {R}", sel: &[(0, 0), (1, 1), (2, 2)] },
    Site { name: "while_after", body: "let i = 0; while i < s { note({R}); i = i + 1; } {R}", sel: &[(0, 0), (1, 1), (3, 3)] },
    Site { name: "for_after", body: "let l = [s]; if s == 0 { l = []; } for y in l { note({R}); } {R}", sel: &[(0, 0), (1, 1)] },
    Site {
        name: "match_after",
        body: "let o = if s == 1 { Option.Some(s) } else { Option.None }; match o { Some(y) => { note({R}); } None => {} } {R}",
        sel: &[(0, 0), (1, 1)],
    },
    Site {
        name: "match_arms",
        body: "let o = if s == 1 { Option.Some(s) } else { Option.None }; match o { Some(y) => {R}, None => {R} }",
        sel: &[(0, 0), (1, 0)],
    },
    Site { name: "outer", body: "note({R}); inner({A}s)", sel: &[(0, 1), (1, 2)] },
    Site { name: "verdict", body: "match fm({A}s) { Accept(a) => a, Reject(r) => r }", sel: &[(0, 0), (1, 0), (2, 1)] },
];

/// the script of a `sites-*` case: `read` is the boundary read, `params` / `args`
/// the leading parameter(s) of every function (`x: T, ` for the argument source)
fn sites_script(t: &str, read: &str, params: &str, args: &str) -> String {
    let mut src = String::new();
    let sub = |s: &str| s.replace("{R}", read).replace("{A}", args);
    src.push_str(&format!("fn inner({params}s: u8) -> {t} {{ {} }}\n", sub("if s == 1 { note({R}); } {R}")));
    src.push_str(&format!("filtermap fm({params}s: u8) {{ {} }}\n", sub("if s == 1 { reject {R} } if s == 2 { note({R}); } accept {R}")));
    for site in SITES {
        src.push_str(&format!("fn {}({params}s: u8) -> {t} {{ {} }}\n", site.name, sub(site.body)));
    }
    src
}

/// Call every site function on every selector: the returned value and every value
/// emitted through `note` must be `want`.
#[allow(clippy::too_many_arguments)]
fn check_sites(rep: &mut Report, name: &str, d: &D, src: &str, source: &str, want: &str, round: u32, call: &mut dyn FnMut(usize, u8) -> String) -> bool {
    for (i, site) in SITES.iter().enumerate() {
        for &(s, n) in site.sel {
            clear_log();
            let got = call(i, s);
            let lg = take_log();
            rep.evaluations += 1;
            if got != want || lg.len() != n || lg.iter().any(|x| x != want) {
                rep.violation(
                    "a value read from the host differs at a later read site from what the host holds",
                    &format!("site-read:{source}:{}:{}", site.name, d.class()),
                    json!({"case": name, "types": [d.roto()], "script": src, "fn": site.name, "selector": s, "host_value": want,
                           "returned": got, "emitted_by_earlier_reads": lg, "expected_emissions": n, "round": round}),
                );
                return false;
            }
        }
    }
    true
}

fn site_classes(rep: &mut Report, source: &str, d: &D) {
    for site in SITES {
        rep.class(format!("site:{source}:{}:{}", site.name, d.class()));
    }
}

fn quick_rounds(env: &Env, quick: u32, thorough: u32) -> u32 {
    if env.rounds > 100 { thorough } else { quick }
}

/// registered constant read at every site shape
fn sc_sites_const<T: BT>(env: &Env, rep: &mut Report, name: &str) {
    let d = T::desc();
    let mut p = Prng::for_case(env.seed, h64(name));
    let src = sites_script(&d.roto(), "K", "", "");
    for k in 0..quick_rounds(env, 3, 10) {
        // round 0 takes the second edge value: a zero would hide a read that yields 0
        let v = T::gen_val(&mut p, k + 1);
        let want = v.show();
        let mut rt = base_runtime();
        rt.add(Constant::new("K", "", v, location!()).unwrap()).unwrap();
        rt.add(Function::new("note", "", vec!["x"], note::<T>, location!()).unwrap()).unwrap();
        let Some(mut pkg) = compile_noctx(&rt, &src, rep, name) else { return };
        let mut fs = vec![];
        for site in SITES {
            match pkg.get_function::<fn(u8) -> T>(site.name) {
                Ok(f) => fs.push(f),
                Err(e) => {
                    rep.mismatch("get_function refused a boundary signature", json!({"case": name, "script": src, "fn": site.name, "error": format!("{e:?}")}));
                    return;
                }
            }
        }
        // every function twice: a later call must read the same value again
        for _ in 0..2 {
            if !check_sites(rep, name, &d, &src, "constant", &want, k, &mut |i, s| fs[i].call(s).show()) {
                return;
            }
        }
    }
    site_classes(rep, "constant", &d);
}

/// context field read at every site shape (the struct changes between the calls)
fn sc_sites_ctx<T: BT>(env: &Env, rep: &mut Report, name: &str) {
    let d = T::desc();
    let _ = <T as Value>::resolve();
    let mut rt0 = base_runtime();
    rt0.add(Function::new("note", "", vec!["x"], note::<T>, location!()).unwrap()).unwrap();
    let rt = match rt0.with_context_type::<CtxC<T>>() {
        Ok(rt) => rt,
        Err(e) => {
            rep.mismatch("a boundary type was refused as a context field", json!({"case": name, "error": e}));
            return;
        }
    };
    let src = sites_script(&d.roto(), "f", "", "");
    let Some(mut pkg) = compile(&rt, &src, rep, name) else { return };
    let mut fs = vec![];
    for site in SITES {
        match pkg.get_function::<fn(u8) -> T>(site.name) {
            Ok(f) => fs.push(f),
            Err(e) => {
                rep.mismatch("get_function refused a boundary signature", json!({"case": name, "script": src, "fn": site.name, "error": format!("{e:?}")}));
                return;
            }
        }
    }
    let mut p = Prng::for_case(env.seed, h64(name));
    for k in 0..quick_rounds(env, 8, 60) {
        let v = T::gen_val(&mut p, k + 1);
        let want = v.show();
        let mut ctx = CtxC { tail: p.next() as u16, pad: p.next() as u8, mid: p.next(), f: v };
        if !check_sites(rep, name, &d, &src, "context", &want, k, &mut |i, s| fs[i].call(&mut ctx, s).show()) {
            return;
        }
    }
    site_classes(rep, "context", &d);
}

/// argument read at every site shape
fn sc_sites_arg<T: BT>(env: &Env, rep: &mut Report, name: &str) {
    let d = T::desc();
    let t = d.roto();
    let mut rt = base_runtime();
    rt.add(Function::new("note", "", vec!["x"], note::<T>, location!()).unwrap()).unwrap();
    let src = sites_script(&t, "x", &format!("x: {t}, "), "x, ");
    let Some(mut pkg) = compile_noctx(&rt, &src, rep, name) else { return };
    let mut fs = vec![];
    for site in SITES {
        match pkg.get_function::<fn(T, u8) -> T>(site.name) {
            Ok(f) => fs.push(f),
            Err(e) => {
                rep.mismatch("get_function refused a boundary signature", json!({"case": name, "script": src, "fn": site.name, "error": format!("{e:?}")}));
                return;
            }
        }
    }
    let mut p = Prng::for_case(env.seed, h64(name));
    for k in 0..quick_rounds(env, 8, 60) {
        let v = T::gen_val(&mut p, k + 1);
        let want = v.show();
        if !check_sites(rep, name, &d, &src, "argument", &want, k, &mut |i, s| fs[i].call(v.clone(), s).show()) {
            return;
        }
    }
    site_classes(rep, "argument", &d);
}

// ------------------------------------------------------------------ private copies

/// what a function of the `alias-*` script returns / emits: the host's value `R` or
/// the argument `X`
#[derive(Clone, Copy, PartialEq)]
enum Who {
    R,
    X,
}

/// one shape of "bind a boundary read to a local, then change the local": the body
/// of `fn <name>(x: T, s: u8) -> T`, and per selector (returned, emitted…)
struct Alias {
    name: &'static str,
    body: &'static str,
    sel: &'static [(u8, Who, &'static [Who])],
}

const ALIASES: &[Alias] = &[
    Alias { name: "asg", body: "let a = {R}; if s == 1 { a = x; } a", sel: &[(0, Who::R, &[]), (1, Who::X, &[]), (0, Who::R, &[])] },
    Alias { name: "asg_reread", body: "let a = {R}; a = x; note(a); {R}", sel: &[(0, Who::R, &[Who::X])] },
    Alias { name: "asg_else", body: "let a = {R}; if s == 1 { note(a); } else { a = x; } note({R}); a", sel: &[(1, Who::R, &[Who::R, Who::R]), (0, Who::X, &[Who::R])] },
    Alias {
        name: "asg_loop",
        body: "let a = {R}; let i = 0; while i < s { a = x; i = i + 1; } note(a); {R}",
        sel: &[(0, Who::R, &[Who::R]), (2, Who::R, &[Who::X]), (0, Who::R, &[Who::R])],
    },
    Alias { name: "pass", body: "note(callee({R}, x)); {R}", sel: &[(0, Who::R, &[Who::X])] },
    Alias { name: "pass_local", body: "let a = {R}; note(callee(a, x)); note({R}); a", sel: &[(0, Who::R, &[Who::X, Who::R])] },
    Alias { name: "chain", body: "let a = {R}; let b = a; b = x; note(b); note(a); {R}", sel: &[(0, Who::R, &[Who::X, Who::R])] },
    Alias { name: "swap", body: "let a = {R}; let b = x; let c = a; a = b; b = c; note(a); note(b); {R}", sel: &[(0, Who::R, &[Who::X, Who::R])] },
    Alias {
        name: "rec_field",
        body: "let r = Rec { v: {R}, n: s }; r.v = x; note(r.v); {R}",
        sel: &[(0, Who::R, &[Who::X])],
    },
    Alias {
        name: "rec_copy",
        body: "let r = Rec { v: {R}, n: s }; let q = r; q.v = x; note(q.v); note({R}); r.v",
        sel: &[(0, Who::R, &[Who::X, Who::R])],
    },
    Alias {
        name: "rec_local",
        body: "let a = {R}; let r = Rec { v: a, n: s }; a = x; note(a); note({R}); r.v",
        sel: &[(0, Who::R, &[Who::X, Who::R])],
    },
    Alias {
        name: "opt_local",
        body: "let o = Option.Some({R}); if s == 1 { o = Option.Some(x); } note({R}); match o { Some(y) => y, None => x }",
        sel: &[(0, Who::R, &[Who::R]), (1, Who::X, &[Who::R])],
    },
    Alias {
        name: "match_bind",
        body: "let o = Option.Some({R}); match o { Some(y) => { y = x; note(y); } None => {} } {R}",
        sel: &[(0, Who::R, &[Who::X])],
    },
];

fn alias_script(t: &str, read: &str) -> String {
    let mut src = format!(
        "record Rec {{ v: {t}, n: u8 }}\nfn reread() -> {t} {{ {read} }}\n\
         fn callee(a: {t}, x: {t}) -> {t} {{ a = x; a }}\n"
    );
    for a in ALIASES {
        src.push_str(&format!("fn {}(x: {t}, s: u8) -> {t} {{ {} }}\n", a.name, a.body.replace("{R}", read)));
    }
    src
}

/// Runs every alias function; `after` is asked after every call whether the host's
/// storage still holds the original (it returns a description of what changed).
#[allow(clippy::too_many_arguments)]
fn check_aliases(
    rep: &mut Report, name: &str, d: &D, src: &str, source: &str, host: &str, x: &str, round: u32,
    call: &mut dyn FnMut(usize, u8) -> String, after: &mut dyn FnMut() -> Option<J>,
) -> bool {
    let pick = |w: Who| if w == Who::R { host } else { x };
    for (i, a) in ALIASES.iter().enumerate() {
        for &(s, ret, emitted) in a.sel {
            clear_log();
            let got = call(i, s);
            let lg = take_log();
            rep.evaluations += 1;
            let want_log: Vec<&str> = emitted.iter().map(|w| pick(*w)).collect();
            let changed = after();
            if got != pick(ret) || lg != want_log || changed.is_some() {
                let what = if changed.is_some() {
                    "an assignment to a script's local changed the host's storage (context field / registered constant)"
                } else {
                    "a local bound to a value read from the host does not behave as a private copy"
                };
                rep.violation(
                    what,
                    &format!("host-storage:{source}:{}:{}", a.name, d.class()),
                    json!({"case": name, "types": [d.roto()], "script": src, "fn": a.name, "selector": s, "host_value": host, "argument": x,
                           "returned": got, "expected_return": pick(ret), "emitted": lg, "expected_emitted": want_log,
                           "host_storage_afterwards": changed, "round": round}),
                );
                return false;
            }
        }
    }
    true
}

/// registered constant bound to a local that is then assigned to
fn sc_alias_const<T: BT>(env: &Env, rep: &mut Report, name: &str) {
    let d = T::desc();
    let mut p = Prng::for_case(env.seed, h64(name));
    let src = alias_script(&d.roto(), "K");
    for k in 0..quick_rounds(env, 2, 8) {
        let v = T::gen_val(&mut p, k + 1);
        let host = v.show();
        let mut rt = base_runtime();
        rt.add(Constant::new("K", "", v, location!()).unwrap()).unwrap();
        rt.add(Function::new("note", "", vec!["x"], note::<T>, location!()).unwrap()).unwrap();
        let Some(mut pkg) = compile_noctx(&rt, &src, rep, name) else { return };
        // a second package of the same runtime shares the constant's storage
        let Some(mut pkg2) = compile_noctx(&rt, &format!("fn reread() -> {} {{ K }}\n", d.roto()), rep, name) else { return };
        let mut fs = vec![];
        for a in ALIASES {
            match pkg.get_function::<fn(T, u8) -> T>(a.name) {
                Ok(f) => fs.push(f),
                Err(e) => {
                    rep.mismatch("get_function refused a boundary signature", json!({"case": name, "script": src, "fn": a.name, "error": format!("{e:?}")}));
                    return;
                }
            }
        }
        let reread = pkg.get_function::<fn() -> T>("reread").unwrap();
        let reread2 = pkg2.get_function::<fn() -> T>("reread").unwrap();
        for j in 0..3 {
            let x = T::gen_val(&mut p, k + 2 + j);
            let xs = x.show();
            let host2 = host.clone();
            let mut after = || {
                let now = [reread.call().show(), reread2.call().show()];
                if now.iter().any(|s| *s != host2) {
                    Some(json!({"registered": host2, "reread()": now[0], "reread() of a second package": now[1]}))
                } else {
                    None
                }
            };
            if !check_aliases(rep, name, &d, &src, "constant", &host, &xs, k, &mut |i, s| fs[i].call(x.clone(), s).show(), &mut after) {
                return;
            }
        }
    }
    for a in ALIASES {
        rep.class(format!("alias:constant:{}:{}", a.name, d.class()));
    }
}

macro_rules! sc_alias_ctx {
    ($fname:ident, $s:ident, $mk:expr, $label:literal) => {
        /// context field bound to a local that is then assigned to: the struct the host
        /// passed is unchanged afterwards
        fn $fname<T: BT>(env: &Env, rep: &mut Report, name: &str) {
            let d = T::desc();
            let _ = <T as Value>::resolve();
            let mut rt0 = base_runtime();
            rt0.add(Function::new("note", "", vec!["x"], note::<T>, location!()).unwrap()).unwrap();
            let rt = match rt0.with_context_type::<$s<T>>() {
                Ok(rt) => rt,
                Err(e) => {
                    rep.mismatch("a boundary type was refused as a context field", json!({"case": name, "error": e}));
                    return;
                }
            };
            let src = alias_script(&d.roto(), "f");
            let Some(mut pkg) = compile(&rt, &src, rep, name) else { return };
            let mut fs = vec![];
            for a in ALIASES {
                match pkg.get_function::<fn(T, u8) -> T>(a.name) {
                    Ok(f) => fs.push(f),
                    Err(e) => {
                        rep.mismatch("get_function refused a boundary signature", json!({"case": name, "script": src, "fn": a.name, "error": format!("{e:?}")}));
                        return;
                    }
                }
            }
            let reread = pkg.get_function::<fn() -> T>("reread").unwrap();
            let mut p = Prng::for_case(env.seed, h64(name));
            for k in 0..quick_rounds(env, 6, 40) {
                let v = T::gen_val(&mut p, k + 1);
                let x = T::gen_val(&mut p, k + 2);
                let (host, xs) = (v.show(), x.show());
                let (pad, tail) = (p.next() as u8, p.next() as u16);
                #[allow(clippy::redundant_closure_call)]
                let ctx: std::cell::RefCell<$s<T>> = std::cell::RefCell::new(($mk)(v, pad, tail));
                let mut after = || {
                    let mut c = ctx.borrow_mut();
                    let now = (c.f.show(), c.pad, c.tail);
                    let again = reread.call(&mut *c).show();
                    if now.0 != host || now.1 != pad || now.2 != tail || again != host {
                        Some(json!({"context_before": {"f": host, "pad": pad, "tail": tail}, "context_after": {"f": now.0, "pad": now.1, "tail": now.2}, "reread()": again}))
                    } else {
                        None
                    }
                };
                let mut call = |i: usize, s: u8| {
                    let mut c = ctx.borrow_mut();
                    fs[i].call(&mut *c, x.clone(), s).show()
                };
                if !check_aliases(rep, name, &d, &src, concat!("context", $label), &host, &xs, k, &mut call, &mut after) {
                    return;
                }
            }
            for a in ALIASES {
                rep.class(format!("alias:context{}:{}:{}", $label, a.name, d.class()));
            }
        }
    };
}
sc_alias_ctx!(sc_alias_ctx_a, CtxA, |v, pad, tail| CtxA { pad, f: v, tail }, "A");
sc_alias_ctx!(sc_alias_ctx_c, CtxC, |v, pad, tail| CtxC { tail, pad, mid: 0x1122_3344_5566_7788, f: v }, "C");

fn record_const_script(t: &str) -> String {
    format!(
        "record Rec {{ v: {t}, n: u8 }}\nconst CR: Rec = Rec {{ v: K, n: 7 }};\n\
         fn field(x: {t}, s: u8) -> {t} {{ if s == 1 {{ note(CR.v); }} CR.v }}\n\
         fn copy_field(x: {t}, s: u8) -> {t} {{ let r = CR; if s == 1 {{ r.v = x; }} note(r.v); CR.v }}\n\
         fn whole(x: {t}, s: u8) -> {t} {{ let r = CR; r = Rec {{ v: x, n: s }}; note(r.v); note(CR.v); K }}\n\
         fn n_(x: {t}, s: u8) -> u8 {{ let r = CR; r.n = s; CR.n }}\n"
    )
}

/// a script-defined record constant holding a registered constant: reads of its
/// fields, a copy of it whose field is assigned to, and the registered constant
/// itself afterwards
fn sc_alias_record_const<T: BT>(env: &Env, rep: &mut Report, name: &str) {
    let d = T::desc();
    let t = d.roto();
    let mut p = Prng::for_case(env.seed, h64(name));
    let src = record_const_script(&t);
    for k in 0..quick_rounds(env, 2, 8) {
        let v = T::gen_val(&mut p, k + 1);
        let x = T::gen_val(&mut p, k + 2);
        let (host, xs) = (v.show(), x.show());
        let mut rt = base_runtime();
        rt.add(Constant::new("K", "", v, location!()).unwrap()).unwrap();
        rt.add(Function::new("note", "", vec!["x"], note::<T>, location!()).unwrap()).unwrap();
        let Some(mut pkg) = compile_noctx(&rt, &src, rep, name) else { return };
        let f_field = pkg.get_function::<fn(T, u8) -> T>("field").unwrap();
        let f_copy = pkg.get_function::<fn(T, u8) -> T>("copy_field").unwrap();
        let f_whole = pkg.get_function::<fn(T, u8) -> T>("whole").unwrap();
        let f_n = pkg.get_function::<fn(T, u8) -> u8>("n_").unwrap();
        let mut bad: Option<J> = None;
        let mut chk = |what: &str, s: u8, got: String, want_ret: &str, want_log: Vec<&str>| {
            let lg = take_log();
            if bad.is_none() && (got != want_ret || lg != want_log) {
                bad = Some(json!({"fn": what, "selector": s, "returned": got, "expected_return": want_ret, "emitted": lg, "expected_emitted": want_log}));
            }
        };
        for s in [0u8, 1, 0] {
            clear_log();
            chk("field", s, f_field.call(x.clone(), s).show(), &host, if s == 1 { vec![&host] } else { vec![] });
            chk("copy_field", s, f_copy.call(x.clone(), s).show(), &host, vec![if s == 1 { &xs } else { &host }]);
            chk("whole", s, f_whole.call(x.clone(), s).show(), &host, vec![&xs, &host]);
            chk("n_", s, f_n.call(x.clone(), s).to_string(), "7", vec![]);
            rep.evaluations += 4;
        }
        if let Some(mut input) = bad {
            let key = format!("host-storage:record-constant:{}:{}", input["fn"].as_str().unwrap_or(""), d.class());
            input["case"] = json!(name);
            input["types"] = json!([d.roto()]);
            input["script"] = json!(src);
            input["host_value"] = json!(host);
            input["argument"] = json!(xs);
            input["round"] = json!(k);
            rep.violation("a record constant holding a registered constant changed, or its field read differs from the registered value", &key, input);
            return;
        }
    }
    rep.class(format!("alias:record-constant:{}", d.class()));
}

// ------------------------------------------------------------------ provenance (tie of Props/C05Store)

/// The real LIR of every generated script (hook `verif_hooks::c05::mem_ops`) against the
/// provenance check of `Model/BoundaryStore.lean` (`Func.check` with the certificate
/// `computeTaint`, driver `c05 prov`): pointers derived from `ConstantAddress` / `$context`
/// are only read through. `Props/C05Store.host_cells_unchanged` then says no execution of
/// that LIR changes a host cell.
fn prov_script<C: roto::Context + 'static>(drv: &mut Driver, rep: &mut Report, rt: &Runtime<roto::Ctx<C>>, what: &str, d: &D, src: &str) -> bool {
    let fns = match std::panic::catch_unwind(std::panic::AssertUnwindSafe(|| roto::verif_hooks::c05::mem_ops(FileTree::test_file("c05.roto", src, 0), rt))) {
        Ok(Ok(f)) => f,
        Ok(Err(e)) => {
            rep.mismatch("a script over boundary types did not compile", json!({"script": src, "error": format!("{e:?}").chars().take(400).collect::<String>()}));
            return false;
        }
        Err(_) => {
            rep.violation("the compiler panicked on a generated script", &format!("compile-panic:{what}:{}", d.class()), json!({"script": src}));
            return false;
        }
    };
    let a = prov_fns(drv, rep, &fns, what, d, src);
    let b = defuse_fns(drv, rep, &fns, what, d, src);
    a && b
}
fn prov_script0(drv: &mut Driver, rep: &mut Report, rt: &Runtime<NoCtx>, what: &str, d: &D, src: &str) -> bool {
    let fns = match std::panic::catch_unwind(std::panic::AssertUnwindSafe(|| roto::verif_hooks::c05::mem_ops(FileTree::test_file("c05.roto", src, 0), rt))) {
        Ok(Ok(f)) => f,
        Ok(Err(e)) => {
            rep.mismatch("a script over boundary types did not compile", json!({"script": src, "error": format!("{e:?}").chars().take(400).collect::<String>()}));
            return false;
        }
        Err(_) => {
            rep.violation("the compiler panicked on a generated script", &format!("compile-panic:{what}:{}", d.class()), json!({"script": src}));
            return false;
        }
    };
    let a = prov_fns(drv, rep, &fns, what, d, src);
    let b = defuse_fns(drv, rep, &fns, what, d, src);
    a && b
}

/// The blocks of every lowered item against the definite-assignment check of
/// `Model/BoundaryDefUse.lean` (`Cfg.check` with the certificate `certify`, driver `c05 defuse`):
/// on no path is a variable read before it was assigned (`Props/C05DefUse.no_read_of_unassigned`).
/// A read of the host lowered once and re-used where its definition does not reach fails here.
fn defuse_fns(drv: &mut Driver, rep: &mut Report, fns: &[roto::verif_hooks::c05::MemFn], what: &str, d: &D, src: &str) -> bool {
    let mut all_ok = true;
    for f in fns {
        let mut names: Vec<String> = vec![];
        let mut num = |n: &str| -> usize {
            match names.iter().position(|x| x == n) {
                Some(i) => i,
                None => {
                    names.push(n.to_string());
                    names.len() - 1
                }
            }
        };
        let mut q = String::from("c05 defuse");
        for v in &f.initial {
            q.push_str(&format!(" {}", num(v)));
        }
        for (_, range, succs) in &f.blocks {
            q.push_str(" |");
            for sl in succs {
                match f.blocks.iter().position(|b| &b.0 == sl) {
                    Some(i) => q.push_str(&format!(" {i}")),
                    // a jump to a block that does not exist: index out of range, the check rejects it
                    None => q.push_str(&format!(" {}", f.blocks.len())),
                }
            }
            for o in &f.ops[range.clone()] {
                q.push_str(" ;");
                for x in o.operands.iter().flatten() {
                    q.push_str(&format!(" {}", num(x)));
                }
                q.push_str(" >");
                match &o.to {
                    Some(t) => q.push_str(&format!(" {}", num(t))),
                    None => q.push_str(" -"),
                }
            }
        }
        let ans = drv.ask(&q);
        rep.evaluations += 1;
        rep.hist("defuse_blocks_per_function", f.blocks.len().min(12).to_string());
        if ans.starts_with("ok") {
            continue;
        }
        all_ok = false;
        let w: Vec<&str> = ans.split(' ').collect();
        let blk = w.get(1).and_then(|s| s.parse::<usize>().ok());
        let idx = w.get(2).and_then(|s| s.parse::<usize>().ok());
        let var = w.get(3).and_then(|s| s.parse::<usize>().ok()).and_then(|i| names.get(i));
        let ins = blk.and_then(|b| f.blocks.get(b)).and_then(|b| idx.map(|i| b.1.start + i)).and_then(|i| f.ops.get(i));
        rep.mismatch(
            "the LIR of a generated script reads a variable that is not assigned on every path to the read (the code generator supplies 0 there): outside the fragment for which every read is proved to see an assigned value",
            json!({"source": what, "type": d.roto(), "function": f.name, "block": blk.and_then(|b| f.blocks.get(b)).map(|b| b.0.clone()),
                   "instruction": ins.map(|o| format!("{o:?}")), "unassigned_variable": var, "model": ans, "script": src}),
        );
    }
    all_ok
}

fn prov_fns(drv: &mut Driver, rep: &mut Report, fns: &[roto::verif_hooks::c05::MemFn], what: &str, d: &D, src: &str) -> bool {
    let mut q = String::from("c05 prov");
    let mut all_names: Vec<Vec<String>> = vec![];
    for (fi, f) in fns.iter().enumerate() {
        // number the variables of this function; `$context` is 0
        let mut names: Vec<String> = vec!["$context".to_string()];
        let mut num = |n: &str| -> usize {
            match names.iter().position(|x| x == n) {
                Some(i) => i,
                None => {
                    names.push(n.to_string());
                    names.len() - 1
                }
            }
        };
        if fi > 0 {
            q.push_str(" |");
        }
        q.push_str(&format!(" {fi}"));
        for p in &f.params {
            q.push_str(&format!(" {}", num(p)));
        }
        for o in &f.ops {
            q.push_str(" ; ");
            q.push_str(o.op);
            let opnd = |x: &Option<String>, num: &mut dyn FnMut(&str) -> usize, absent: &str| match x {
                Some(n) => format!("v{}", num(n)),
                None => absent.to_string(),
            };
            let to = |num: &mut dyn FnMut(&str) -> usize| match &o.to {
                Some(t) => format!(" {}", num(t)),
                None => " -".to_string(),
            };
            match o.op {
                "as" | "ca" | "of" | "rd" | "cm" | "rt" => {
                    q.push_str(&to(&mut num));
                    for x in &o.operands {
                        q.push(' ');
                        q.push_str(&opnd(x, &mut num, "l"));
                    }
                }
                "cs" => {
                    q.push_str(&to(&mut num));
                    let callee = o.callee.as_ref().and_then(|c| fns.iter().position(|g| &g.name == c));
                    // ctx, callee, return pointer, arguments
                    q.push(' ');
                    q.push_str(&opnd(&o.operands.first().cloned().flatten(), &mut num, "l"));
                    q.push_str(&match callee { Some(i) => format!(" {i}"), None => " -".to_string() });
                    q.push(' ');
                    q.push_str(&opnd(&o.operands.get(1).cloned().flatten(), &mut num, "-"));
                    for x in o.operands.iter().skip(2) {
                        q.push(' ');
                        q.push_str(&opnd(x, &mut num, "l"));
                    }
                }
                "re" => {
                    q.push(' ');
                    q.push_str(&opnd(&o.operands.first().cloned().flatten(), &mut num, "-"));
                }
                "ct" => {}
                _ => {
                    for x in &o.operands {
                        q.push(' ');
                        q.push_str(&opnd(x, &mut num, "l"));
                    }
                }
            }
        }
        all_names.push(names);
    }
    let ans = drv.ask(&q);
    if std::env::var("C05_PROV_DEBUG").is_ok_and(|v| v == what || v == format!("{what}:{}", d.roto())) {
        eprintln!("PROV {what} {}\n  names {:?}\n  {q}\n  -> {ans}", d.roto(), fns.iter().map(|f| (&f.name, &f.params)).collect::<Vec<_>>());
    }
    rep.evaluations += 1;
    if let Some(n) = ans.split(' ').nth(2) {
        // functions whose certificate lists one of their parameters: a pointer into host cells is handed on to them
        rep.hist("prov_functions_given_host_pointers", n.to_string());
    }
    rep.hist("prov_functions_per_script", (fns.len() / 5 * 5).to_string());
    if ans.starts_with("ok") {
        return true;
    }
    let w: Vec<&str> = ans.split(' ').collect();
    let bad_fn = w.get(1).and_then(|s| s.parse::<usize>().ok());
    let bad_idx = w.get(2).and_then(|s| s.parse::<usize>().ok());
    let f = bad_fn.and_then(|i| fns.get(i));
    let tainted: Vec<&String> = match bad_fn.and_then(|i| all_names.get(i)) {
        Some(names) => {
            let mut t: Vec<&String> = w.iter().skip(3).filter_map(|s| s.parse::<usize>().ok()).filter_map(|i| names.get(i)).collect();
            t.dedup();
            t
        }
        None => vec![],
    };
    rep.mismatch(
        "the LIR of a generated script is outside the fragment for which the host's cells are proved unchanged: a pointer derived from a constant's address / the context pointer is written through, stored, handed to Rust code, dropped or returned",
        json!({"source": what, "type": d.roto(), "function": f.map(|f| f.name.clone()), "instruction_index": bad_idx,
               "instruction": f.and_then(|f| bad_idx.and_then(|i| f.ops.get(i))).map(|o| format!("{o:?}")), "may_point_into_host_cells": tainted,
               "model": ans.chars().take(200).collect::<String>(), "script": src}),
    );
    false
}

/// all generated scripts of one type over the constant / argument sources
fn prov_type<T: BT>(drv: &mut Driver, rep: &mut Report) {
    let d = T::desc();
    let t = d.roto();
    let mut p = Prng::new(7);
    let mut rt = base_runtime();
    rt.add(Constant::new("K", "", T::gen_val(&mut p, 1), location!()).unwrap()).unwrap();
    rt.add(Function::new("note", "", vec!["x"], note::<T>, location!()).unwrap()).unwrap();
    let mut ok = true;
    ok &= prov_script0(drv, rep, &rt, "sites-const", &d, &sites_script(&t, "K", "", ""));
    ok &= prov_script0(drv, rep, &rt, "sites-arg", &d, &sites_script(&t, "x", &format!("x: {t}, "), "x, "));
    ok &= prov_script0(drv, rep, &rt, "alias-const", &d, &alias_script(&t, "K"));
    ok &= prov_script0(drv, rep, &rt, "alias-rec", &d, &record_const_script(&t));
    if ok {
        rep.class(format!("prov:constant:{}", d.class()));
    }
}

/// … and over the context source
fn prov_ctx_type<T: BT>(drv: &mut Driver, rep: &mut Report) {
    let d = T::desc();
    let t = d.roto();
    let _ = <T as Value>::resolve();
    let mut rt0 = base_runtime();
    rt0.add(Function::new("note", "", vec!["x"], note::<T>, location!()).unwrap()).unwrap();
    let Ok(rt) = rt0.with_context_type::<CtxA<T>>() else { return };
    let mut ok = true;
    ok &= prov_script(drv, rep, &rt, "sites-ctx", &d, &sites_script(&t, "f", "", ""));
    ok &= prov_script(drv, rep, &rt, "alias-ctx", &d, &alias_script(&t, "f"));
    if ok {
        rep.class(format!("prov:context:{}", d.class()));
    }
}

fn provenance(rep: &mut Report) {
    let mut drv = Driver::spawn().expect("spawn rotov-driver");
    macro_rules! a { ($($t:ty);* $(;)?) => { $( prov_type::<$t>(&mut drv, rep); )* } }
    all_types!(a);
    macro_rules! c { ($($t:ty);* $(;)?) => { $( prov_ctx_type::<$t>(&mut drv, rep); )* } }
    ctx_types!(c);
}
