//! Line protocol to the compiled Lean driver (`rotov-driver`): one request per
//! line in, one answer per line out.

use std::io::{BufRead, BufReader, Write};
use std::process::{Child, ChildStdin, ChildStdout, Command, Stdio};

pub struct Driver {
    child: Child,
    stdin: ChildStdin,
    stdout: BufReader<ChildStdout>,
    pub requests: u64,
}

impl Driver {
    /// `path` defaults to `$ROTOV_DRIVER` or `/verif/lean/.lake/build/bin/rotov-driver`.
    pub fn spawn() -> std::io::Result<Driver> {
        let path = std::env::var("ROTOV_DRIVER").unwrap_or_else(|_| {
            "/verif/lean/.lake/build/bin/rotov-driver".to_string()
        });
        let mut child = Command::new(path)
            .stdin(Stdio::piped())
            .stdout(Stdio::piped())
            .spawn()?;
        let stdin = child.stdin.take().unwrap();
        let stdout = BufReader::new(child.stdout.take().unwrap());
        Ok(Driver {
            child,
            stdin,
            stdout,
            requests: 0,
        })
    }

    /// Send one request line, read one answer line.
    pub fn ask(&mut self, line: &str) -> String {
        debug_assert!(!line.contains('\n'));
        self.requests += 1;
        writeln!(self.stdin, "{line}").expect("driver stdin");
        self.stdin.flush().expect("driver flush");
        let mut out = String::new();
        self.stdout.read_line(&mut out).expect("driver stdout");
        if out.is_empty() {
            panic!("Lean driver closed its output on request: {line}");
        }
        out.trim_end().to_string()
    }

    /// Send many requests, read as many answers (pipelined in chunks).
    pub fn ask_all(&mut self, lines: &[String]) -> Vec<String> {
        let mut out = Vec::with_capacity(lines.len());
        for chunk in lines.chunks(256) {
            for l in chunk {
                writeln!(self.stdin, "{l}").expect("driver stdin");
            }
            self.stdin.flush().expect("driver flush");
            for l in chunk {
                let mut s = String::new();
                self.stdout.read_line(&mut s).expect("driver stdout");
                if s.is_empty() {
                    panic!("Lean driver closed its output on request: {l}");
                }
                out.push(s.trim_end().to_string());
            }
            self.requests += chunk.len() as u64;
        }
        out
    }
}

impl Drop for Driver {
    fn drop(&mut self) {
        let _ = self.child.kill();
        let _ = self.child.wait();
    }
}

pub fn hex(s: &str) -> String {
    s.bytes().map(|b| format!("{b:02x}")).collect()
}
