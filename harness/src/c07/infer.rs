//! Phase `infer`: the Lean model of the inference pass (`RotoV.TcInfer.checkProgM`,
//! request `c07 infer <sexp>`) against the real type checker (hook
//! `typecheck_only`) on the SAME scripts: class representatives first (one
//! minimal script per construct and per kind of report, independent of the
//! seed), then generated well-typed programs and their type-breaking edits
//! (all 31 kinds in rotation). Compared: accept / reject, and — when both
//! reject and the model's error is one `TypeChecker::expr` produces — the class
//! of the report.

use super::mutate::{KINDS, mutate};
use crate::{Outcome, compile, generate};
use roto::{NoCtx, Runtime};
use rotov_harness::Report;
use rotov_harness::driver::Driver;
use serde_json::json;

/// class of a type error report, by its description line (the classes of
/// `TcInfer.Err.show`)
pub fn real_class(line: &str) -> &'static str {
    let table: [(&str, &str); 27] = [
        ("mismatched types", "mismatched-types"),
        ("declared multiple times", "declared-twice"),
        ("cannot find value", "not-found"),
        ("arguments were given", "arity"),
        ("not exhaustive", "non-exhaustive"),
        ("unreachable", "unreachable"),
        ("does not exist on", "unknown-variant"),
        ("doesn't have one", "pattern-has-fields"),
        ("does have arguments", "pattern-needs-arguments"),
        ("only matching on enums", "match-needs-enum"),
        ("cannot match on", "match-needs-enum"),
        ("cannot apply `-`", "negate-unsigned"),
        ("expected a numeric value", "not-numeric"),
        ("expected an integer value", "not-integer"),
        ("field mismatch", "field-mismatch"),
        ("field: mismatch", "field-mismatch"),
        ("no field", "no-field"),
        ("no method", "no-method"),
        ("does not have the right signature", "no-method"),
        ("requires arguments", "ctor-needs-arguments"),
        ("xpected a record type", "not-a-record"),
        ("can only use `?`", "try-forbidden"),
        ("` here", "cannot-diverge-here"),
        ("cannot assign", "cannot-assign"),
        ("expected a value", "expected-value"),
        ("recursively defined", "item"),
        ("cycle detected", "item"),
    ];
    for (needle, cat) in table {
        if line.contains(needle) {
            return cat;
        }
    }
    "other"
}

/// (name, Roto source, s-expression): one minimal script per construct / per report
pub const REPS: &[(&str, &str, &str)] = &[
    ("int-literal", "fn f0() -> i32 { 1 }\n", "(prog (fn 0 () i32 (blk () (int _))))"),
    ("int-literal-suffix", "fn f0() -> u8 { 1u8 }\n", "(prog (fn 0 () u8 (blk () (int u8))))"),
    ("int-literal-as-bool", "fn f0() -> bool { 1 }\n", "(prog (fn 0 () bool (blk () (int _))))"),
    ("int-suffix-mismatch", "fn f0() -> u8 { 1i8 }\n", "(prog (fn 0 () u8 (blk () (int i8))))"),
    ("float-literal", "fn f0() -> f32 { 1.5 }\n", "(prog (fn 0 () f32 (blk () (float _))))"),
    ("float-literal-as-int", "fn f0() -> i32 { 1.5 }\n", "(prog (fn 0 () i32 (blk () (float _))))"),
    ("int-literal-as-float", "fn f0() -> f64 { 1 }\n", "(prog (fn 0 () f64 (blk () (int _))))"),
    ("bool-str-unit", "fn f0() { let v0: bool = true; let v1: String = \"s\"; () }\n",
     "(prog (fn 0 () unit (blk ((let 0 bool (bool)) (let 1 str (str))) (unitlit))))"),
    ("let-infers", "fn f0() -> u16 { let v0 = 1; v0 }\n", "(prog (fn 0 () u16 (blk ((let 0 _ (int _))) (var 0))))"),
    ("let-literal-two-uses", "fn f0() -> u16 { let v0 = 1; let v1: i8 = v0; v0 }\n",
     "(prog (fn 0 () u16 (blk ((let 0 _ (int _)) (let 1 i8 (var 0))) (var 0))))"),
    ("let-annotation-mismatch", "fn f0() { let v0: bool = \"s\"; }\n", "(prog (fn 0 () unit (blk ((let 0 bool (str))))))"),
    ("let-unknown-type", "fn f0() { let v0: T9 = 1; }\n", "(prog (fn 0 () unit (blk ((let 0 (t 9) (int _))))))"),
    ("let-redeclared", "fn f0() { let v0 = 1; let v0 = 2; }\n", "(prog (fn 0 () unit (blk ((let 0 _ (int _)) (let 0 _ (int _))))))"),
    ("let-shadow-inner", "fn f0() { let v0 = 1; if true { let v0 = true; } }\n",
     "(prog (fn 0 () unit (blk ((let 0 _ (int _))) (if (bool) (blk ((let 0 _ (bool))))))))"),
    ("param-redeclared", "fn f0(v0: i32) { let v0 = 2; }\n", "(prog (fn 0 ((0 i32)) unit (blk ((let 0 _ (int _))))))"),
    ("unknown-variable", "fn f0() -> i32 { v9 }\n", "(prog (fn 0 () i32 (blk () (var 9))))"),
    ("out-of-scope", "fn f0() -> i32 { if true { let v1 = 1; } v1 }\n",
     "(prog (fn 0 () i32 (blk ((do (if (bool) (blk ((let 1 _ (int _))))))) (var 1))))"),
    // a name used where it is not in scope: one per way a scope ends
    ("scope-let-after-block", "fn f0() -> i32 { ({ let v1 = 1; }); v1 }\n",
     "(prog (fn 0 () i32 (blk ((do (block (blk ((let 1 _ (int _))))))) (var 1))))"),
    ("scope-let-before-declaration", "fn f0() -> i32 { let v2 = v1; let v1 = 1; v2 }\n",
     "(prog (fn 0 () i32 (blk ((let 2 _ (var 1)) (let 1 _ (int _))) (var 2))))"),
    ("scope-let-of-then-in-else", "fn f0(v0: bool) -> i32 { if v0 { let v1 = 1; v1 } else { v1 } }\n",
     "(prog (fn 0 ((0 bool)) i32 (blk () (if (var 0) (blk ((let 1 _ (int _))) (var 1)) (blk () (var 1))))))"),
    ("scope-binder-after-match", "fn f0(v0: Option[i32]) -> i32 { match v0 { Some(v1) => { v1 } None => { 0 } }; v1 }\n",
     "(prog (fn 0 ((0 (opt i32))) i32 (blk ((do (match (var 0) (arm (p some b 1) _ (blk () (var 1))) (arm (p none n) _ (blk () (int _)))))) (var 1))))"),
    ("scope-binder-in-sibling-arm", "fn f0(v0: Option[i32]) -> i32 { match v0 { Some(v1) => { v1 } None => { v1 } } }\n",
     "(prog (fn 0 ((0 (opt i32))) i32 (blk () (match (var 0) (arm (p some b 1) _ (blk () (var 1))) (arm (p none n) _ (blk () (var 1)))))))"),
    ("scope-binder-in-guard-of-sibling-arm", "fn f0(v0: Option[bool]) -> i32 { match v0 { Some(v1) => { 1 } None if v1 => { 0 } None => { 2 } } }\n",
     "(prog (fn 0 ((0 (opt bool))) i32 (blk () (match (var 0) (arm (p some b 1) _ (blk () (int _))) (arm (p none n) (var 1) (blk () (int _))) (arm (p none n) _ (blk () (int _)))))))"),
    ("scope-parameter-of-another-function", "fn f1(v1: i32) -> i32 { v1 }\nfn f0() -> i32 { v1 }\n",
     "(prog (fn 1 ((1 i32)) i32 (blk () (var 1))) (fn 0 () i32 (blk () (var 1))))"),
    ("scope-local-of-another-function", "fn f1() -> i32 { let v1 = 1; v1 }\nfn f0() -> i32 { v1 }\n",
     "(prog (fn 1 () i32 (blk ((let 1 _ (int _))) (var 1))) (fn 0 () i32 (blk () (var 1))))"),
    ("scope-parameter-in-constant", "fn f1(v1: i32) -> i32 { v1 }\nconst C0: i32 = v1;\n",
     "(prog (fn 1 ((1 i32)) i32 (blk () (var 1))) (const 0 i32 (var 1)))"),
    ("scope-for-variable-after-loop", "fn f0(v0: List[i32]) -> i32 { for v1 in v0 { (); }; v1 }\n",
     "(prog (fn 0 ((0 (list i32))) i32 (blk ((do (for 1 (var 0) (blk ((do (unitlit))))))) (var 1))))"),
    ("scope-while-body-let-after-loop", "fn f0() -> i32 { while false { let v1 = 1; }; v1 }\n",
     "(prog (fn 0 () i32 (blk ((do (while (bool) (blk ((let 1 _ (int _))))))) (var 1))))"),
    ("scope-assign-after-block", "fn f0() { ({ let v1 = 1; }); v1 = 2; }\n",
     "(prog (fn 0 () unit (blk ((do (block (blk ((let 1 _ (int _)))))) (do (set 0 1 () (int _)))))))"),
    ("constant", "const C0: i32 = 5;\nfn f0() -> i32 { C0 }\n", "(prog (const 0 i32 (int _)) (fn 0 () i32 (blk () (const 0))))"),
    ("constant-mismatch", "const C0: i32 = true;\n", "(prog (const 0 i32 (bool)))"),
    ("return-in-constant", "const C0: i32 = return 1;\n", "(prog (const 0 i32 (ret ret (int _))))"),
    ("neg-signed", "fn f0(v0: i8) -> i8 { -v0 }\n", "(prog (fn 0 ((0 i8)) i8 (blk () (neg (var 0)))))"),
    ("neg-unsigned", "fn f0(v0: u8) -> u8 { -v0 }\n", "(prog (fn 0 ((0 u8)) u8 (blk () (neg (var 0)))))"),
    ("neg-bool", "fn f0(v0: bool) -> bool { -v0 }\n", "(prog (fn 0 ((0 bool)) bool (blk () (neg (var 0)))))"),
    ("neg-literal-then-unsigned", "fn f0() -> u8 { let v0 = 1; let v1 = -v0; v0 }\n",
     "(prog (fn 0 () u8 (blk ((let 0 _ (int _)) (let 1 _ (neg (var 0)))) (var 0))))"),
    ("neg-literal-then-signed", "fn f0() -> i64 { let v0 = 1; let v1 = -v0; v0 }\n",
     "(prog (fn 0 () i64 (blk ((let 0 _ (int _)) (let 1 _ (neg (var 0)))) (var 0))))"),
    ("neg-float", "fn f0() -> f64 { -1.5 }\n", "(prog (fn 0 () f64 (blk () (neg (float _)))))"),
    ("not-bool", "fn f0(v0: bool) -> bool { !v0 }\n", "(prog (fn 0 ((0 bool)) bool (blk () (not (var 0)))))"),
    ("not-int", "fn f0(v0: i32) -> bool { !v0 }\n", "(prog (fn 0 ((0 i32)) bool (blk () (not (var 0)))))"),
    ("not-as-int", "fn f0() -> i32 { !true }\n", "(prog (fn 0 () i32 (blk () (not (bool)))))"),
    ("if-without-else-as-value", "fn f0(v0: bool) -> i32 { if v0 { } }\n", "(prog (fn 0 ((0 bool)) i32 (blk () (if (var 0) (blk ())))))"),
    ("while-as-value", "fn f0(v0: bool) -> i32 { while v0 { } }\n", "(prog (fn 0 ((0 bool)) i32 (blk () (while (var 0) (blk ())))))"),
    ("call-too-many", "fn f1(v0: i32) -> bool { true }\nfn f0() -> bool { f1(1, 2) }\n",
     "(prog (fn 1 ((0 i32)) bool (blk () (bool))) (fn 0 () bool (blk () (call 1 (int _) (int _)))))"),
    ("neg-as-bool", "fn f0(v0: i8) -> bool { -v0 }\n", "(prog (fn 0 ((0 i8)) bool (blk () (neg (var 0)))))"),
    ("add-ints", "fn f0(v0: i32) -> i32 { v0 + 1 }\n", "(prog (fn 0 ((0 i32)) i32 (blk () (bin add (var 0) (int _)))))"),
    ("add-strings", "fn f0(v0: String) -> String { v0 + \"s\" }\n", "(prog (fn 0 ((0 str)) str (blk () (bin add (var 0) (str)))))"),
    ("add-string-int", "fn f0(v0: String) -> String { v0 + 1 }\n", "(prog (fn 0 ((0 str)) str (blk () (bin add (var 0) (int _)))))"),
    ("add-lists", "fn f0(v0: List[i32]) -> List[i32] { v0 + [1] }\n",
     "(prog (fn 0 ((0 (list i32))) (list i32) (blk () (bin add (var 0) (list (int _))))))"),
    ("add-bools", "fn f0(v0: bool) -> bool { v0 + v0 }\n", "(prog (fn 0 ((0 bool)) bool (blk () (bin add (var 0) (var 0)))))"),
    ("add-mixed", "fn f0(v0: i32, v1: u8) -> i32 { v0 + v1 }\n", "(prog (fn 0 ((0 i32) (1 u8)) i32 (blk () (bin add (var 0) (var 1)))))"),
    ("sub-result-type", "fn f0(v0: i32) -> u8 { v0 - v0 }\n", "(prog (fn 0 ((0 i32)) u8 (blk () (bin sub (var 0) (var 0)))))"),
    ("div-ints", "fn f0(v0: i32) -> i32 { v0 / 2 }\n", "(prog (fn 0 ((0 i32)) i32 (blk () (bin div (var 0) (int _)))))"),
    ("mod-ints", "fn f0(v0: u32) -> u32 { v0 % 2 }\n", "(prog (fn 0 ((0 u32)) u32 (blk () (bin mod (var 0) (int _)))))"),
    ("mod-floats", "fn f0(v0: f64) -> f64 { v0 % v0 }\n", "(prog (fn 0 ((0 f64)) f64 (blk () (bin mod (var 0) (var 0)))))"),
    ("lt-ints", "fn f0(v0: i32) -> bool { v0 < 2 }\n", "(prog (fn 0 ((0 i32)) bool (blk () (bin lt (var 0) (int _)))))"),
    ("lt-strings", "fn f0(v0: String) -> bool { v0 < v0 }\n", "(prog (fn 0 ((0 str)) bool (blk () (bin lt (var 0) (var 0)))))"),
    ("lt-as-int", "fn f0(v0: i32) -> i32 { v0 < 2 }\n", "(prog (fn 0 ((0 i32)) i32 (blk () (bin lt (var 0) (int _)))))"),
    ("eq-strings", "fn f0(v0: String) -> bool { v0 == \"s\" }\n", "(prog (fn 0 ((0 str)) bool (blk () (bin eq (var 0) (str)))))"),
    ("eq-mixed", "fn f0(v0: String) -> bool { v0 == 1 }\n", "(prog (fn 0 ((0 str)) bool (blk () (bin eq (var 0) (int _)))))"),
    ("and-bools", "fn f0(v0: bool) -> bool { v0 && true }\n", "(prog (fn 0 ((0 bool)) bool (blk () (bin and (var 0) (bool)))))"),
    ("or-int", "fn f0(v0: bool) -> bool { v0 || 1 }\n", "(prog (fn 0 ((0 bool)) bool (blk () (bin or (var 0) (int _)))))"),
    ("and-right-returns", "fn f0(v0: bool) -> i64 { v0 && (return 1); }\n",
     "(prog (fn 0 ((0 bool)) i64 (blk ((do (bin and (var 0) (ret ret (int _))))))))"),
    ("if-else", "fn f0(v0: bool) -> i32 { if v0 { 1 } else { 2 } }\n",
     "(prog (fn 0 ((0 bool)) i32 (blk () (if (var 0) (blk () (int _)) (blk () (int _))))))"),
    ("if-else-branches-differ", "fn f0(v0: bool) -> i32 { if v0 { 1 } else { true } }\n",
     "(prog (fn 0 ((0 bool)) i32 (blk () (if (var 0) (blk () (int _)) (blk () (bool))))))"),
    ("if-condition-int", "fn f0() { if 1 { } }\n", "(prog (fn 0 () unit (blk () (if (int _) (blk ())))))"),
    ("if-without-else-value", "fn f0(v0: bool) -> i32 { if v0 { 1 } }\n", "(prog (fn 0 ((0 bool)) i32 (blk () (if (var 0) (blk () (int _))))))"),
    ("if-both-return", "fn f0(v0: bool) -> i32 { if v0 { return 1; } else { return 2; } }\n",
     "(prog (fn 0 ((0 bool)) i32 (blk () (if (var 0) (blk ((do (ret ret (int _))))) (blk ((do (ret ret (int _)))))))))"),
    ("while", "fn f0(v0: bool) { while v0 { } }\n", "(prog (fn 0 ((0 bool)) unit (blk () (while (var 0) (blk ())))))"),
    ("while-body-value", "fn f0(v0: bool) { while v0 { 1 } }\n", "(prog (fn 0 ((0 bool)) unit (blk () (while (var 0) (blk () (int _))))))"),
    ("while-returns-only-inside", "fn f0() -> i64 { while false { return 1; } }\n",
     "(prog (fn 0 () i64 (blk () (while (bool) (blk ((do (ret ret (int _)))))))))"),
    ("for-list", "fn f0(v0: List[i32]) { for v1 in v0 { let v2: i32 = v1; } }\n",
     "(prog (fn 0 ((0 (list i32))) unit (blk () (for 1 (var 0) (blk ((let 2 i32 (var 1))))))))"),
    ("for-non-list", "fn f0(v0: i32) { for v1 in v0 { } }\n", "(prog (fn 0 ((0 i32)) unit (blk () (for 1 (var 0) (blk ())))))"),
    ("block-value", "fn f0() -> i32 { let v0 = { let v1 = 1; v1 }; v0 }\n",
     "(prog (fn 0 () i32 (blk ((let 0 _ (block (blk ((let 1 _ (int _))) (var 1))))) (var 0))))"),
    ("value-dropped", "fn f0() -> i32 { 1; }\n", "(prog (fn 0 () i32 (blk ((do (int _))))))"),
    ("return-value", "fn f0() -> i32 { return 1; }\n", "(prog (fn 0 () i32 (blk ((do (ret ret (int _)))))))"),
    ("return-mismatch", "fn f0() -> i32 { return true; }\n", "(prog (fn 0 () i32 (blk ((do (ret ret (bool)))))))"),
    ("return-nothing", "fn f0() -> i32 { return; }\n", "(prog (fn 0 () i32 (blk ((do (ret ret))))))"),
    ("accept-in-verdict", "fn f0() -> Verdict[i32, bool] { accept 1 }\n", "(prog (fn 0 () (verdict i32 bool) (blk () (ret accept (int _)))))"),
    ("reject-mismatch", "fn f0() -> Verdict[i32, bool] { reject 1 }\n", "(prog (fn 0 () (verdict i32 bool) (blk () (ret reject (int _)))))"),
    ("accept-in-plain-function", "fn f0() -> i32 { accept 1 }\n", "(prog (fn 0 () i32 (blk () (ret accept (int _)))))"),
    ("call", "fn f1(v0: i32) -> bool { true }\nfn f0() -> bool { f1(1) }\n",
     "(prog (fn 1 ((0 i32)) bool (blk () (bool))) (fn 0 () bool (blk () (call 1 (int _)))))"),
    ("call-arity", "fn f1(v0: i32) -> bool { true }\nfn f0() -> bool { f1() }\n",
     "(prog (fn 1 ((0 i32)) bool (blk () (bool))) (fn 0 () bool (blk () (call 1))))"),
    ("call-argument-type", "fn f1(v0: i32) -> bool { true }\nfn f0() -> bool { f1(true) }\n",
     "(prog (fn 1 ((0 i32)) bool (blk () (bool))) (fn 0 () bool (blk () (call 1 (bool)))))"),
    ("call-result-type", "fn f1(v0: i32) -> bool { true }\nfn f0() -> i32 { f1(1) }\n",
     "(prog (fn 1 ((0 i32)) bool (blk () (bool))) (fn 0 () i32 (blk () (call 1 (int _)))))"),
    ("call-unknown", "fn f0() -> bool { f7(1) }\n", "(prog (fn 0 () bool (blk () (call 7 (int _)))))"),
    ("unknown-parameter-type", "fn f0(v0: T9) { }\n", "(prog (fn 0 ((0 (t 9))) unit (blk ())))"),
    ("record-literal", "record T0 { a0: i32, a1: bool }\nfn f0() -> T0 { T0 { a1: true, a0: 1 } }\n",
     "(prog (rec 0 ((0 i32) (1 bool))) (fn 0 () (t 0) (blk () (record 0 (1 (bool)) (0 (int _))))))"),
    ("record-missing-field", "record T0 { a0: i32, a1: bool }\nfn f0() -> T0 { T0 { a0: 1 } }\n",
     "(prog (rec 0 ((0 i32) (1 bool))) (fn 0 () (t 0) (blk () (record 0 (0 (int _))))))"),
    ("record-duplicate-field", "record T0 { a0: i32 }\nfn f0() -> T0 { T0 { a0: 1, a0: 2 } }\n",
     "(prog (rec 0 ((0 i32))) (fn 0 () (t 0) (blk () (record 0 (0 (int _)) (0 (int _))))))"),
    ("record-unknown-field", "record T0 { a0: i32 }\nfn f0() -> T0 { T0 { a0: 1, a5: 2 } }\n",
     "(prog (rec 0 ((0 i32))) (fn 0 () (t 0) (blk () (record 0 (0 (int _)) (5 (int _))))))"),
    ("record-field-type", "record T0 { a0: i32 }\nfn f0() -> T0 { T0 { a0: true } }\n",
     "(prog (rec 0 ((0 i32))) (fn 0 () (t 0) (blk () (record 0 (0 (bool))))))"),
    ("record-unknown-type", "fn f0() { let v0 = T9 { a0: 1 }; }\n", "(prog (fn 0 () unit (blk ((let 0 _ (record 9 (0 (int _))))))))"),
    ("record-of-enum-type", "enum T0 { K0 }\nfn f0() { let v0 = T0 { a0: 1 }; }\n",
     "(prog (enum 0 ((0))) (fn 0 () unit (blk ((let 0 _ (record 0 (0 (int _))))))))"),
    ("field-path", "record T0 { a0: i32 }\nfn f0(v0: T0) -> i32 { v0.a0 }\n",
     "(prog (rec 0 ((0 i32))) (fn 0 ((0 (t 0))) i32 (blk () (field (var 0) 0))))"),
    ("field-path-unknown", "record T0 { a0: i32 }\nfn f0(v0: T0) -> i32 { v0.a3 }\n",
     "(prog (rec 0 ((0 i32))) (fn 0 ((0 (t 0))) i32 (blk () (field (var 0) 3))))"),
    ("field-of-int", "fn f0(v0: i32) -> i32 { v0.a0 }\n", "(prog (fn 0 ((0 i32)) i32 (blk () (field (var 0) 0))))"),
    ("field-access-expression", "record T0 { a0: i32 }\nfn f1() -> T0 { T0 { a0: 1 } }\nfn f0() -> i32 { f1().a0 }\n",
     "(prog (rec 0 ((0 i32))) (fn 1 () (t 0) (blk () (record 0 (0 (int _))))) (fn 0 () i32 (blk () (field (call 1) 0))))"),
    ("field-access-expression-unknown", "record T0 { a0: i32 }\nfn f1() -> T0 { T0 { a0: 1 } }\nfn f0() -> i32 { f1().a4 }\n",
     "(prog (rec 0 ((0 i32))) (fn 1 () (t 0) (blk () (record 0 (0 (int _))))) (fn 0 () i32 (blk () (field (call 1) 4))))"),
    ("field-of-none", "fn f0() -> i32 { Option.None.a0 }\n", "(prog (fn 0 () i32 (blk () (field (none) 0))))"),
    ("list-literal", "fn f0() -> List[u8] { [1, 2] }\n", "(prog (fn 0 () (list u8) (blk () (list (int _) (int _)))))"),
    ("list-literal-empty", "fn f0() -> List[u8] { [] }\n", "(prog (fn 0 () (list u8) (blk () (list))))"),
    ("list-literal-mixed", "fn f0() -> List[u8] { [1, true] }\n", "(prog (fn 0 () (list u8) (blk () (list (int _) (bool)))))"),
    ("list-literal-as-int", "fn f0() -> u8 { [1] }\n", "(prog (fn 0 () u8 (blk () (list (int _)))))"),
    ("constructor", "enum T0 { K0, K1(i32) }\nfn f0() -> T0 { T0.K1(1) }\n",
     "(prog (enum 0 ((0) (1 i32))) (fn 0 () (t 0) (blk () (ctor 0 1 (int _)))))"),
    ("constructor-no-arguments", "enum T0 { K0, K1(i32) }\nfn f0() -> T0 { T0.K0 }\n",
     "(prog (enum 0 ((0) (1 i32))) (fn 0 () (t 0) (blk () (ctor 0 0))))"),
    ("constructor-needs-arguments", "enum T0 { K0, K1(i32) }\nfn f0() -> T0 { T0.K1 }\n",
     "(prog (enum 0 ((0) (1 i32))) (fn 0 () (t 0) (blk () (ctor 0 1))))"),
    ("constructor-arity", "enum T0 { K0, K1(i32) }\nfn f0() -> T0 { T0.K1(1, 2) }\n",
     "(prog (enum 0 ((0) (1 i32))) (fn 0 () (t 0) (blk () (ctor 0 1 (int _) (int _)))))"),
    ("constructor-argument-type", "enum T0 { K0, K1(i32) }\nfn f0() -> T0 { T0.K1(true) }\n",
     "(prog (enum 0 ((0) (1 i32))) (fn 0 () (t 0) (blk () (ctor 0 1 (bool)))))"),
    ("constructor-unknown-variant", "enum T0 { K0, K1(i32) }\nfn f0() -> T0 { T0.K7(1) }\n",
     "(prog (enum 0 ((0) (1 i32))) (fn 0 () (t 0) (blk () (ctor 0 7 (int _)))))"),
    ("constructor-of-record-type", "record T0 { a0: i32 }\nfn f0() -> T0 { T0.K1(1) }\n",
     "(prog (rec 0 ((0 i32))) (fn 0 () (t 0) (blk () (ctor 0 1 (int _)))))"),
    ("option-some", "fn f0() -> Option[i32] { Option.Some(1) }\n", "(prog (fn 0 () (opt i32) (blk () (some (int _)))))"),
    ("option-some-mismatch", "fn f0() -> Option[i32] { Option.Some(true) }\n", "(prog (fn 0 () (opt i32) (blk () (some (bool)))))"),
    ("option-none", "fn f0() -> Option[i32] { Option.None }\n", "(prog (fn 0 () (opt i32) (blk () (none))))"),
    ("option-none-as-int", "fn f0() -> i32 { Option.None }\n", "(prog (fn 0 () i32 (blk () (none))))"),
    ("match-option", "fn f0(v0: Option[i32]) -> i32 { match v0 { Some(v1) => { v1 } None => { 0 } } }\n",
     "(prog (fn 0 ((0 (opt i32))) i32 (blk () (match (var 0) (arm (p some b 1) _ (blk () (var 1))) (arm (p none n) _ (blk () (int _)))))))"),
    ("match-guard-and-default", "fn f0(v0: Option[i32]) -> i32 { match v0 { Some(v1) if v1 > 1 => { v1 } _ => { 0 } } }\n",
     "(prog (fn 0 ((0 (opt i32))) i32 (blk () (match (var 0) (arm (p some b 1) (bin gt (var 1) (int _)) (blk () (var 1))) (arm _ _ (blk () (int _)))))))"),
    ("match-guard-only", "fn f0(v0: Option[i32]) -> i32 { match v0 { Some(v1) if v1 > 1 => { v1 } None => { 0 } } }\n",
     "(prog (fn 0 ((0 (opt i32))) i32 (blk () (match (var 0) (arm (p some b 1) (bin gt (var 1) (int _)) (blk () (var 1))) (arm (p none n) _ (blk () (int _)))))))"),
    ("match-non-exhaustive", "fn f0(v0: Option[i32]) -> i32 { match v0 { Some(v1) => { v1 } } }\n",
     "(prog (fn 0 ((0 (opt i32))) i32 (blk () (match (var 0) (arm (p some b 1) _ (blk () (var 1)))))))"),
    ("match-after-default", "fn f0(v0: Option[i32]) -> i32 { match v0 { _ => { 1 } None => { 0 } } }\n",
     "(prog (fn 0 ((0 (opt i32))) i32 (blk () (match (var 0) (arm _ _ (blk () (int _))) (arm (p none n) _ (blk () (int _)))))))"),
    ("match-duplicate-variant", "fn f0(v0: Option[i32]) -> i32 { match v0 { None => { 1 } None => { 0 } Some(v1) => { v1 } } }\n",
     "(prog (fn 0 ((0 (opt i32))) i32 (blk () (match (var 0) (arm (p none n) _ (blk () (int _))) (arm (p none n) _ (blk () (int _))) (arm (p some b 1) _ (blk () (var 1)))))))"),
    ("match-unknown-variant", "fn f0(v0: Option[i32]) -> i32 { match v0 { K3 => { 1 } _ => { 0 } } }\n",
     "(prog (fn 0 ((0 (opt i32))) i32 (blk () (match (var 0) (arm (p 3 n) _ (blk () (int _))) (arm _ _ (blk () (int _)))))))"),
    ("match-pattern-has-fields", "fn f0(v0: Option[i32]) -> i32 { match v0 { None(v1) => { 1 } _ => { 0 } } }\n",
     "(prog (fn 0 ((0 (opt i32))) i32 (blk () (match (var 0) (arm (p none b 1) _ (blk () (int _))) (arm _ _ (blk () (int _)))))))"),
    ("match-pattern-needs-arguments", "fn f0(v0: Option[i32]) -> i32 { match v0 { Some => { 1 } _ => { 0 } } }\n",
     "(prog (fn 0 ((0 (opt i32))) i32 (blk () (match (var 0) (arm (p some n) _ (blk () (int _))) (arm _ _ (blk () (int _)))))))"),
    ("match-pattern-arity", "fn f0(v0: Option[i32]) -> i32 { match v0 { Some(v1, v2) => { 1 } _ => { 0 } } }\n",
     "(prog (fn 0 ((0 (opt i32))) i32 (blk () (match (var 0) (arm (p some b 1 2) _ (blk () (int _))) (arm _ _ (blk () (int _)))))))"),
    ("match-binder-twice", "enum T0 { K0(i32, i32) }\nfn f0(v0: T0) -> i32 { match v0 { K0(v1, v1) => { 1 } } }\n",
     "(prog (enum 0 ((0 i32 i32))) (fn 0 ((0 (t 0))) i32 (blk () (match (var 0) (arm (p 0 b 1 1) _ (blk () (int _)))))))"),
    ("match-on-int", "fn f0(v0: i32) -> i32 { match v0 { _ => { 0 } } }\n",
     "(prog (fn 0 ((0 i32)) i32 (blk () (match (var 0) (arm _ _ (blk () (int _)))))))"),
    ("match-user-enum", "enum T0 { K0, K1(bool) }\nfn f0(v0: T0) -> bool { match v0 { K0 => { true } K1(v1) => { v1 } } }\n",
     "(prog (enum 0 ((0) (1 bool))) (fn 0 ((0 (t 0))) bool (blk () (match (var 0) (arm (p 0 n) _ (blk () (bool))) (arm (p 1 b 1) _ (blk () (var 1)))))))"),
    ("match-arm-types-differ", "fn f0(v0: Option[i32]) -> i32 { match v0 { Some(v1) => { true } None => { 0 } } }\n",
     "(prog (fn 0 ((0 (opt i32))) i32 (blk () (match (var 0) (arm (p some b 1) _ (blk () (bool))) (arm (p none n) _ (blk () (int _)))))))"),
    ("match-guard-int", "fn f0(v0: Option[i32]) -> i32 { match v0 { Some(v1) if v1 => { 1 } _ => { 0 } } }\n",
     "(prog (fn 0 ((0 (opt i32))) i32 (blk () (match (var 0) (arm (p some b 1) (var 1) (blk () (int _))) (arm _ _ (blk () (int _)))))))"),
    ("try", "fn f0(v0: Option[i32]) -> Option[i32] { Option.Some(v0? + 1) }\n",
     "(prog (fn 0 ((0 (opt i32))) (opt i32) (blk () (some (bin add (try (var 0)) (int _))))))"),
    ("try-forbidden", "fn f0(v0: Option[i32]) -> i32 { v0? }\n", "(prog (fn 0 ((0 (opt i32))) i32 (blk () (try (var 0)))))"),
    ("try-on-int", "fn f0(v0: i32) -> Option[i32] { Option.Some(v0?) }\n", "(prog (fn 0 ((0 i32)) (opt i32) (blk () (some (try (var 0))))))"),
    ("assign", "fn f0() { let v0 = 1; v0 = 2; }\n", "(prog (fn 0 () unit (blk ((let 0 _ (int _)) (do (set 0 0 () (int _)))))))"),
    ("assign-mismatch", "fn f0() { let v0 = 1; v0 = true; }\n", "(prog (fn 0 () unit (blk ((let 0 _ (int _)) (do (set 0 0 () (bool)))))))"),
    ("assign-field", "record T0 { a0: i32 }\nfn f0(v0: T0) { v0.a0 = 2; }\n",
     "(prog (rec 0 ((0 i32))) (fn 0 ((0 (t 0))) unit (blk ((do (set 0 0 (0) (int _)))))))"),
    ("assign-constant", "const C0: i32 = 5;\nfn f0() { C0 = 2; }\n", "(prog (const 0 i32 (int _)) (fn 0 () unit (blk ((do (set 1 0 () (int _)))))))"),
    ("assign-as-value", "fn f0() -> i32 { let v0 = 1; v0 = 2 }\n", "(prog (fn 0 () i32 (blk ((let 0 _ (int _))) (set 0 0 () (int _)))))"),
    ("compound-assign", "fn f0() { let v0 = 1; v0 += 2; }\n", "(prog (fn 0 () unit (blk ((let 0 _ (int _)) (do (cset add 0 0 () (int _)))))))"),
    ("compound-assign-bool", "fn f0() { let v0 = true; v0 += true; }\n", "(prog (fn 0 () unit (blk ((let 0 _ (bool)) (do (cset add 0 0 () (bool)))))))"),
    ("compound-assign-constant", "const C0: i32 = 5;\nfn f0() { C0 += 2; }\n", "(prog (const 0 i32 (int _)) (fn 0 () unit (blk ((do (cset add 1 0 () (int _)))))))"),
    ("f-string", "fn f0(v0: i32) -> String { (f\"x{v0}-{1}-{1.5}-\") }\n",
     "(prog (fn 0 ((0 i32)) str (blk () (fstr (var 0) (int _) (float _)))))"),
    ("f-string-record", "record T0 { a0: i32 }\nfn f0(v0: T0) -> String { (f\"x{v0}-\") }\n",
     "(prog (rec 0 ((0 i32))) (fn 0 ((0 (t 0))) str (blk () (fstr (var 0)))))"),
    ("f-string-list", "fn f0(v0: List[i32]) -> String { (f\"x{v0}-\") }\n", "(prog (fn 0 ((0 (list i32))) str (blk () (fstr (var 0)))))"),
    ("f-string-as-int", "fn f0() -> i32 { (f\"x{1}-\") }\n", "(prog (fn 0 () i32 (blk () (fstr (int _)))))"),
    ("method-path", "fn f0(v0: List[i32]) { v0.push(1); }\n", "(prog (fn 0 ((0 (list i32))) unit (blk ((do (mcall (var 0) 1 (int _)))))))"),
    ("method-path-argument-type", "fn f0(v0: List[i32]) { v0.push(true); }\n", "(prog (fn 0 ((0 (list i32))) unit (blk ((do (mcall (var 0) 1 (bool)))))))"),
    ("method-path-unknown", "fn f0(v0: List[i32]) { v0.no_such_method(); }\n", "(prog (fn 0 ((0 (list i32))) unit (blk ((do (mcall (var 0) 99))))))"),
    ("method-path-arity", "fn f0(v0: List[i32]) { v0.push(); }\n", "(prog (fn 0 ((0 (list i32))) unit (blk ((do (mcall (var 0) 1))))))"),
    ("method-expression", "fn f0() -> u64 { [1, 2].len() }\n", "(prog (fn 0 () u64 (blk () (mcall (list (int _) (int _)) 0))))"),
    ("method-expression-unknown", "fn f0() -> u64 { [1, 2].no_such_method() }\n", "(prog (fn 0 () u64 (blk () (mcall (list (int _) (int _)) 99))))"),
    ("method-string", "fn f0(v0: String) -> bool { v0.contains(\"s\") }\n", "(prog (fn 0 ((0 str)) bool (blk () (mcall (var 0) 3 (str)))))"),
    ("method-get-result", "fn f0(v0: List[i32]) -> Option[bool] { v0.get(0) }\n", "(prog (fn 0 ((0 (list i32))) (opt bool) (blk () (mcall (var 0) 2 (int _)))))"),
    ("match-unknown-examinee-arms-return",
     "fn f0() -> Option[i32] { let v0 = Option.None; v0 = Option.Some(Option.Some(1)); match (v0?) { Some(v1) => { return Option.Some(v1); } None => { return Option.None; } }; }\n",
     "(prog (fn 0 () (opt i32) (blk ((let 0 _ (none)) (do (set 0 0 () (some (some (int _))))) (do (match (try (var 0)) (arm (p some b 1) _ (blk ((do (ret ret (some (var 1))))))) (arm (p none n) _ (blk ((do (ret ret (none))))))))))))"),
    ("match-all-arms-return", "fn f0(v0: Option[i32]) -> i32 { match v0 { Some(v1) => { return v1; } None => { return 0; } }; }\n",
     "(prog (fn 0 ((0 (opt i32))) i32 (blk ((do (match (var 0) (arm (p some b 1) _ (blk ((do (ret ret (var 1)))))) (arm (p none n) _ (blk ((do (ret ret (int _))))))))))))"),
    ("method-on-int", "fn f0(v0: i32) -> u64 { v0.len() }\n", "(prog (fn 0 ((0 i32)) u64 (blk () (mcall (var 0) 0))))"),    // rules special-cased for a built-in type, applied to a type the script declares itself (phase `shadow`
    // runs each of them again with `T0` spelled as every built-in type name the script does not mention)
    ("own-enum-try-in-fn-returning-it", "enum T0 { K0, K1(i32) }\nfn f0(v0: i32?) -> T0 { let v1 = v0?; T0.K1(v1) }\n",
     "(prog (enum 0 ((0) (1 i32))) (fn 0 ((0 (opt i32))) (t 0) (blk ((let 1 _ (try (var 0)))) (ctor 0 1 (var 1)))))"),
    ("own-record-try-in-fn-returning-it", "record T0 { a0: i32 }\nfn f0(v0: i32?) -> T0 { T0 { a0: v0? } }\n",
     "(prog (rec 0 ((0 i32))) (fn 0 ((0 (opt i32))) (t 0) (blk () (record 0 (0 (try (var 0)))))))"),
    ("own-enum-try-on-its-value", "enum T0 { K0, K1(i32) }\nfn f0(v0: T0, v1: i32?) -> i32? { let v2: i32 = v0?; v1 }\n",
     "(prog (enum 0 ((0) (1 i32))) (fn 0 ((0 (t 0)) (1 (opt i32))) (opt i32) (blk ((let 2 i32 (try (var 0)))) (var 1))))"),
    ("own-record-add", "record T0 { a0: i32 }\nfn f0(v0: T0, v1: T0) -> T0 { v0 + v1 }\n",
     "(prog (rec 0 ((0 i32))) (fn 0 ((0 (t 0)) (1 (t 0))) (t 0) (blk () (bin add (var 0) (var 1)))))"),
    ("own-enum-add", "enum T0 { K0, K1(i32) }\nfn f0(v0: T0, v1: T0) -> T0 { v0 + v1 }\n",
     "(prog (enum 0 ((0) (1 i32))) (fn 0 ((0 (t 0)) (1 (t 0))) (t 0) (blk () (bin add (var 0) (var 1)))))"),
    ("own-record-add-unused", "record T0 { a0: i32 }\nfn f0(v0: T0, v1: T0) { let v2 = v0 + v1; }\n",
     "(prog (rec 0 ((0 i32))) (fn 0 ((0 (t 0)) (1 (t 0))) unit (blk ((let 2 _ (bin add (var 0) (var 1)))))))"),
    ("own-record-sub", "record T0 { a0: i32 }\nfn f0(v0: T0, v1: T0) -> T0 { v0 - v1 }\n",
     "(prog (rec 0 ((0 i32))) (fn 0 ((0 (t 0)) (1 (t 0))) (t 0) (blk () (bin sub (var 0) (var 1)))))"),
    ("own-record-mul", "record T0 { a0: i32 }\nfn f0(v0: T0, v1: T0) -> T0 { v0 * v1 }\n",
     "(prog (rec 0 ((0 i32))) (fn 0 ((0 (t 0)) (1 (t 0))) (t 0) (blk () (bin mul (var 0) (var 1)))))"),
    ("own-record-mod", "record T0 { a0: i32 }\nfn f0(v0: T0, v1: T0) -> T0 { v0 % v1 }\n",
     "(prog (rec 0 ((0 i32))) (fn 0 ((0 (t 0)) (1 (t 0))) (t 0) (blk () (bin mod (var 0) (var 1)))))"),
    ("own-record-lt", "record T0 { a0: i32 }\nfn f0(v0: T0, v1: T0) { let v2 = v0 < v1; }\n",
     "(prog (rec 0 ((0 i32))) (fn 0 ((0 (t 0)) (1 (t 0))) unit (blk ((let 2 _ (bin lt (var 0) (var 1)))))))"),
    ("own-record-ge", "record T0 { a0: i32 }\nfn f0(v0: T0, v1: T0) { let v2 = v0 >= v1; }\n",
     "(prog (rec 0 ((0 i32))) (fn 0 ((0 (t 0)) (1 (t 0))) unit (blk ((let 2 _ (bin ge (var 0) (var 1)))))))"),
    ("own-record-and", "record T0 { a0: i32 }\nfn f0(v0: T0) { let v2 = v0 && v0; }\n",
     "(prog (rec 0 ((0 i32))) (fn 0 ((0 (t 0))) unit (blk ((let 2 _ (bin and (var 0) (var 0)))))))"),
    ("own-record-neg", "record T0 { a0: i32 }\nfn f0(v0: T0) -> T0 { -v0 }\n",
     "(prog (rec 0 ((0 i32))) (fn 0 ((0 (t 0))) (t 0) (blk () (neg (var 0)))))"),
    ("own-record-not", "record T0 { a0: i32 }\nfn f0(v0: T0) { let v1 = !v0; }\n",
     "(prog (rec 0 ((0 i32))) (fn 0 ((0 (t 0))) unit (blk ((let 1 _ (not (var 0)))))))"),
    ("own-record-as-condition", "record T0 { a0: i32 }\nfn f0(v0: T0) { if v0 { } }\n",
     "(prog (rec 0 ((0 i32))) (fn 0 ((0 (t 0))) unit (blk () (if (var 0) (blk ())))))"),
    ("own-record-as-loop-condition", "record T0 { a0: i32 }\nfn f0(v0: T0) { while v0 { } }\n",
     "(prog (rec 0 ((0 i32))) (fn 0 ((0 (t 0))) unit (blk () (while (var 0) (blk ())))))"),
    ("own-record-iterated", "record T0 { a0: i32 }\nfn f0(v0: T0) { for v1 in v0 { } }\n",
     "(prog (rec 0 ((0 i32))) (fn 0 ((0 (t 0))) unit (blk () (for 1 (var 0) (blk ())))))"),
    ("own-record-from-int-literal", "record T0 { a0: i32 }\nfn f0() -> T0 { 1 }\n",
     "(prog (rec 0 ((0 i32))) (fn 0 () (t 0) (blk () (int _))))"),
    ("own-record-from-float-literal", "record T0 { a0: i32 }\nfn f0() -> T0 { 1.5 }\n",
     "(prog (rec 0 ((0 i32))) (fn 0 () (t 0) (blk () (float _))))"),
    ("own-record-from-bool-literal", "record T0 { a0: i32 }\nfn f0() -> T0 { true }\n",
     "(prog (rec 0 ((0 i32))) (fn 0 () (t 0) (blk () (bool))))"),
    ("own-record-from-string-literal", "record T0 { a0: i32 }\nfn f0() -> T0 { \"s\" }\n",
     "(prog (rec 0 ((0 i32))) (fn 0 () (t 0) (blk () (str))))"),
    ("own-record-from-f-string", "record T0 { a0: i32 }\nfn f0() -> T0 { (f\"x{1}-\") }\n",
     "(prog (rec 0 ((0 i32))) (fn 0 () (t 0) (blk () (fstr (int _)))))"),
    ("own-record-in-f-string", "record T0 { a0: i32 }\nfn f0(v0: T0) { let v1 = (f\"x{v0}-\"); }\n",
     "(prog (rec 0 ((0 i32))) (fn 0 ((0 (t 0))) unit (blk ((let 1 _ (fstr (var 0)))))))"),
    ("own-record-matched", "record T0 { a0: i32 }\nfn f0(v0: T0) -> i32 { match v0 { _ => { 0 } } }\n",
     "(prog (rec 0 ((0 i32))) (fn 0 ((0 (t 0))) i32 (blk () (match (var 0) (arm _ _ (blk () (int _)))))))"),
    ("own-enum-matched-with-some", "enum T0 { K0, K1(i32) }\nfn f0(v0: T0) -> i32 { match v0 { Some(v1) => { v1 } _ => { 0 } } }\n",
     "(prog (enum 0 ((0) (1 i32))) (fn 0 ((0 (t 0))) i32 (blk () (match (var 0) (arm (p some b 1) _ (blk () (var 1))) (arm _ _ (blk () (int _)))))))"),
    ("own-record-where-optional-expected", "record T0 { a0: i32 }\nfn f0(v0: T0) -> i32? { v0 }\n",
     "(prog (rec 0 ((0 i32))) (fn 0 ((0 (t 0))) (opt i32) (blk () (var 0))))"),
    ("own-record-where-list-expected", "record T0 { a0: i32 }\nfn f0(v0: T0) { let v1 = [1] + v0; }\n",
     "(prog (rec 0 ((0 i32))) (fn 0 ((0 (t 0))) unit (blk ((let 1 _ (bin add (list (int _)) (var 0)))))))"),
    ("own-record-identity", "record T0 { a0: i32 }\nfn f0(v0: T0) -> T0 { v0 }\n",
     "(prog (rec 0 ((0 i32))) (fn 0 ((0 (t 0))) (t 0) (blk () (var 0))))"),
    ("own-record-eq", "record T0 { a0: i32 }\nfn f0(v0: T0, v1: T0) { let v2 = v0 == v1; }\n",
     "(prog (rec 0 ((0 i32))) (fn 0 ((0 (t 0)) (1 (t 0))) unit (blk ((let 2 _ (bin eq (var 0) (var 1)))))))"),
];

pub fn compare(rt: &Runtime<NoCtx>, drv: &mut Driver, what: &str, src: &str, sexp: &str, id: serde_json::Value, rep: &mut Report) {
    let model = drv.ask(&format!("c07 infer {sexp}"));
    let real = compile(rt, src, false);
    rep.evaluations += 1;
    let input = json!({"phase": "infer", "what": what, "id": id, "src": src, "sexp": sexp, "model": model});
    let verdict: String = match (&real, model.as_str()) {
        (Outcome::Ok, "ok") => "ok".into(),
        (Outcome::TypeError(line), m) if m.starts_with("err ") => {
            let mc = &m[4..];
            let rc = real_class(line);
            if mc != "item" && rc != mc {
                rep.mismatch(
                    &format!("inference model and type checker reject for different reasons: model `{mc}`, checker `{rc}` ({line})"),
                    input,
                );
            }
            format!("err:{mc}")
        }
        (Outcome::Ok, "ok unsolved") => {
            rep.mismatch("the store the inference model leaves behind for an accepted script has no solution by defaulting (premise of infer_sound_partial)", input);
            "ok-unsolved".into()
        }
        (Outcome::Ok, m) => {
            // the model rejects, the checker accepts: if the documented rules reject the
            // script too, this IS the property failing on the real code
            let d = drv.ask(&format!("c07 prog {sexp}"));
            if let (Some(rule), Some(class)) = (d.strip_prefix("err "), m.strip_prefix("err ")) {
                let kind = id["kind"].as_str().or(id["rep"].as_str()).unwrap_or("script").to_string();
                rep.violation(
                    &format!("an ill-typed script (declarative rule `{rule}`, inference model `{class}`) passed the type checker"),
                    &format!("accepted:infer:{class}:{rule}"),
                    json!({"kind": kind, "rule": rule, "src": src, "sexp": sexp, "model": m, "id": id}),
                );
            }
            rep.mismatch(&format!("the type checker accepts a script the inference model rejects (`{m}`)"), input);
            "model-rejects-only".into()
        }
        (Outcome::TypeError(line), m) => {
            rep.mismatch(&format!("the type checker rejects a script the inference model answers `{m}` for: {line}"), input);
            "checker-rejects-only".into()
        }
        (Outcome::Other(stage, _), _) => {
            rep.hist("infer", format!("printer-slip:{stage}"));
            return;
        }
        (Outcome::Panic(msg), m) => {
            rep.mismatch(&format!("the type checker panicked ({msg}); inference model: `{m}`"), input);
            "panic".into()
        }
    };
    rep.class(format!("infer:{what}:{verdict}"));
    rep.hist("infer", format!("{}:{}", what.split(':').next().unwrap_or(""), verdict));
}

/// how many edits of each generated program are compared
const EDITS: usize = 3;

pub fn infer_case(rt: &Runtime<NoCtx>, drv: &mut Driver, seed: u64, index: u64, rep: &mut Report) {
    if (index as usize) < REPS.len() {
        let (name, src, sexp) = REPS[index as usize];
        compare(rt, drv, &format!("rep:{name}"), src, sexp, json!({"rep": name}), rep);
        // the oracle must not reject a representative the checker (and the model) accept:
        // D only ever rejects scripts that have no typing
        if compile(rt, src, false) == Outcome::Ok {
            let d = drv.ask(&format!("c07 prog {sexp}"));
            if d != "ok" {
                rep.mismatch(
                    &format!("the declarative checker D rejects (`{d}`) a well-typed representative the type checker accepts"),
                    json!({"phase": "infer", "what": format!("rep:{name}"), "id": {"rep": name}, "src": src, "sexp": sexp, "model": d}),
                );
            }
        }
        return;
    }
    let (orig, mut p) = generate(seed ^ 0x696e_6665_72, index);
    compare(rt, drv, "original", &orig.roto(), &orig.sexp(), json!({"seed": seed, "index": index}), rep);
    // type-breaking edits, the kinds in rotation so that every kind is exercised
    let start = (index as usize * EDITS + p.below(KINDS.len() as u64) as usize) % KINDS.len();
    let mut done = 0;
    for off in 0..KINDS.len() {
        if done == EDITS {
            break;
        }
        let kind = KINDS[(start + off) % KINDS.len()];
        if let Some(m) = mutate(&mut p, &orig, kind) {
            done += 1;
            compare(
                rt,
                drv,
                &format!("edit:{}", m.kind),
                &m.prog.roto(),
                &m.prog.sexp(),
                json!({"seed": seed, "index": index, "kind": m.kind, "detail": m.detail}),
                rep,
            );
        }
    }
}
