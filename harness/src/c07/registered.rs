//! Phase `tostr`: f-string parts whose type is REGISTERED by the embedding runtime.
//!
//! An f-string part `{e}` is well-typed only if the type of `e` has a method
//! `to_string(self) -> String` (the type checker defers this as an obligation and resolves it
//! in `resolve_obligations` once the part's type is known); the implied call `e.to_string()`
//! has one argument. Every built-in type either has exactly that method or none, so only a
//! runtime that registers its own types can show a `to_string` with ANOTHER signature: more or
//! fewer parameters, another first parameter, another return type. This phase builds such a
//! runtime (seven registered types, one per shape of signature) and puts a value of each type
//! into an f-string in every syntactic position the type can reach a part from, and calls the
//! method explicitly with every number of arguments.
//!
//! Oracle: the documented rule — accepted only if the type's `to_string` is `(self) -> String`.
//! Model: `TcBuiltin.fstringPartAccepts` (request `c07 tostr`), parameterised by the tests
//! `resolve_obligations` contains (regenerated facts); compared with the real checker both ways.

use crate::{Outcome, compile};
use roto::{NoCtx, RotoString, Runtime, Val, library};
use rotov_harness::Report;
use rotov_harness::driver::Driver;
use serde_json::{Value, json};

#[derive(Clone, PartialEq, Eq)]
pub struct Good(u32);
#[derive(Clone, PartialEq, Eq)]
pub struct Radix(u32);
#[derive(Clone, PartialEq, Eq)]
pub struct Three(u32);
#[derive(Clone, PartialEq, Eq)]
pub struct Num(u32);
#[derive(Clone, PartialEq, Eq)]
pub struct Bare(u32);
#[derive(Clone, PartialEq, Eq)]
pub struct Other(u32);
#[derive(Clone, PartialEq, Eq)]
pub struct Zero(u32);

/// the runtime: one registered type per shape of `to_string` signature
pub fn runtime() -> Runtime<NoCtx> {
    Runtime::from_lib(library! {
        /// `to_string(self) -> String`: the signature an f-string part needs
        #[clone] type Good = Val<Good>;
        impl Val<Good> {
            fn to_string(self) -> RotoString {
                format!("good{}", self.0.0).as_str().into()
            }
        }
        /// one parameter too many
        #[clone] type Radix = Val<Radix>;
        impl Val<Radix> {
            fn to_string(self, radix: u32) -> RotoString {
                format!("{}/{radix}", self.0.0).as_str().into()
            }
        }
        /// two parameters too many
        #[clone] type Three = Val<Three>;
        impl Val<Three> {
            fn to_string(self, radix: u32, upper: bool) -> RotoString {
                format!("{}/{radix}/{upper}", self.0.0).as_str().into()
            }
        }
        /// the right parameters, another return type
        #[clone] type Num = Val<Num>;
        impl Val<Num> {
            fn to_string(self) -> u32 {
                self.0.0
            }
        }
        /// no `to_string` at all (another method)
        #[clone] type Bare = Val<Bare>;
        impl Val<Bare> {
            fn show(self) -> RotoString {
                format!("bare{}", self.0.0).as_str().into()
            }
        }
        /// one parameter, but of another type
        #[clone] type Other = Val<Other>;
        impl Val<Other> {
            fn to_string(x: Val<Good>) -> RotoString {
                format!("other{}", x.0.0).as_str().into()
            }
        }
        /// no parameter at all
        #[clone] type Zero = Val<Zero>;
        impl Val<Zero> {
            fn to_string() -> RotoString {
                "zero".into()
            }
        }
    })
    .expect("the registered-types runtime")
}

/// (type name, `c07 tostr` request arguments: `none` | `<ret> <param>…` over 0 = the type itself,
/// 1 = String, 2.. = other types; is the signature exactly `(self) -> String`; number of parameters
/// after `self`, if the first one is `self`)
pub const TYPES: &[(&str, &str, bool, Option<usize>)] = &[
    ("Good", "1 0", true, Some(0)),
    ("Radix", "1 0 2", false, Some(1)),
    ("Three", "1 0 2 3", false, Some(2)),
    ("Num", "2 0", false, Some(0)),
    ("Bare", "none", false, None),
    ("Other", "1 4", false, None),
    ("Zero", "1", false, None),
];

/// (position, script with `X` for the type, whole pipeline?)
pub const POSITIONS: &[(&str, &str, bool)] = &[
    ("parameter", "fn f0(v0: X) -> String { (f\"a{v0}\") }\n", false),
    ("parameter-compiled", "fn f0(v0: X) -> String { let v9 = \"p\"; (f\"{v9}: {v0}\") }\n", true),
    ("through-let", "fn f0(v0: X) -> String { let v1 = v0; (f\"{v1}b\") }\n", false),
    ("second-part", "fn f0(v0: X, v1: i32) -> String { (f\"{v1}:{v0}\") }\n", false),
    ("first-part-of-two", "fn f0(v0: X, v1: i32) -> String { (f\"{v0}:{v1}\") }\n", false),
    ("record-field", "record R0 { a0: X }\nfn f0(v0: R0) -> String { (f\"{v0.a0}\") }\n", false),
    ("as-argument", "fn f1(v0: String) -> String { v0 }\nfn f0(v0: X) -> String { f1((f\"{v0}\")) }\n", false),
    ("match-binder", "fn f0(v0: X?) -> String { match v0 { Some(v1) => { (f\"{v1}\") } None => { \"n\" } } }\n", false),
    ("for-variable", "fn f0(v0: List[X]) { for v1 in v0 { let v2 = (f\"{v1}\"); } }\n", false),
    ("in-let-unused", "fn f0(v0: X) { let v1 = (f\"{v0}\"); }\n", false),
    ("in-condition", "fn f0(v0: X) -> bool { (f\"{v0}\") == \"x\" }\n", false),
    ("returned-by-call", "fn f1(v0: X) -> X { v0 }\nfn f0(v0: X) -> String { (f\"{f1(v0)}\") }\n", false),
    ("in-other-function-first", "fn f1(v0: X) -> String { (f\"{v0}\") }\nfn f0(v0: Good) -> String { (f\"{v0}\") }\n", false),
    ("in-other-function-last", "fn f1(v0: Good) -> String { (f\"{v0}\") }\nfn f0(v0: X) -> String { (f\"{v0}\") }\n", false),
];

/// explicit calls `v0.to_string(args)` with 0, 1, 2 arguments
pub const CALLS: &[(&str, usize)] = &[
    ("fn f0(v0: X) -> String { v0.to_string() }\n", 0),
    ("fn f0(v0: X) -> String { v0.to_string(16) }\n", 1),
    ("fn f0(v0: X) -> String { v0.to_string(16, true) }\n", 2),
];

pub fn total() -> u64 {
    (TYPES.len() * (POSITIONS.len() + CALLS.len())) as u64
}

pub fn tostr_case(drv: &mut Driver, index: u64, rep: &mut Report) {
    let per = POSITIONS.len() + CALLS.len();
    let Some(&(ty, req, exact, after_self)) = TYPES.get(index as usize / per) else { return };
    let k = index as usize % per;
    let rt = runtime();
    rep.evaluations += 1;
    if k < POSITIONS.len() {
        let (pos, template, full) = POSITIONS[k];
        let src = template.replace('X', ty);
        let input = json!({"tostr": ty, "position": pos, "src": src, "full": full});
        let real = compile(&rt, &src, full);
        let model_ok = drv.ask(&format!("c07 tostr {req}")) == "ok";
        match &real {
            Outcome::Ok | Outcome::TypeError(_) => {}
            Outcome::Panic(msg) if !exact => {
                rep.violation(
                    &format!("an f-string part whose type has no `to_string(self) -> String` made the compiler panic: {msg}"),
                    &format!("panic:fstring-to-string:{ty}:{pos}"),
                    input,
                );
                return;
            }
            other => {
                rep.mismatch(&format!("registered-type f-string script did not reach a verdict: {other:?}"), input);
                return;
            }
        }
        let real_ok = real == Outcome::Ok;
        if real_ok != model_ok {
            rep.mismatch(
                &format!("TcBuiltin.fstringPartAccepts says {}, the type checker {}", if model_ok { "accept" } else { "reject" }, if real_ok { "accepts" } else { "rejects" }),
                input.clone(),
            );
        }
        if real_ok && !exact {
            rep.violation(
                "an f-string part whose type has no `to_string(self) -> String` (wrong argument count / types for the implied call) passed the type checker",
                &format!("accepted:fstring-to-string:{ty}:{pos}"),
                input.clone(),
            );
        }
        if !real_ok && exact {
            rep.mismatch("an f-string part whose type has `to_string(self) -> String` is rejected", input);
        }
        rep.class(format!("tostr:{ty}:{pos}:{}", if real_ok { "accepted" } else { "rejected" }));
        rep.hist("registered-to_string", format!("{ty}:{}", if real_ok { "accepted" } else { "rejected" }));
    } else {
        let (template, nargs) = CALLS[k - POSITIONS.len()];
        let Some(n) = after_self else {
            // (a `to_string` without `self`: what an explicit method call means is not documented)
            return;
        };
        let src = template.replace('X', ty);
        let input = json!({"tostr": ty, "position": format!("call-{nargs}"), "src": src, "full": false, "call": true});
        // documented: argument count = parameters after self, argument types fit (16: u32, true: bool), result String
        let doc_ok = n == nargs && ty != "Num";
        let real = compile(&rt, &src, false);
        match &real {
            Outcome::Ok if !doc_ok => rep.violation(
                "an explicit `to_string` call with the wrong number of arguments (or the wrong result type) passed the type checker",
                &format!("accepted:method-call-arity:{ty}:{nargs}"),
                input,
            ),
            Outcome::TypeError(line) if doc_ok => rep.mismatch(&format!("a well-typed `to_string` call is rejected: {line}"), input),
            Outcome::Ok | Outcome::TypeError(_) => {}
            other => rep.mismatch(&format!("registered-type call script did not reach a verdict: {other:?}"), input),
        }
        rep.class(format!("tostr-call:{ty}:{nargs}:{}", if real == Outcome::Ok { "accepted" } else { "rejected" }));
        rep.hist("registered-to_string", format!("{ty}:call-{nargs}:{}", if real == Outcome::Ok { "accepted" } else { "rejected" }));
    }
}

/// replay of a recorded input of this phase: does the script (still) pass?
pub fn replay(input: &Value, rep: &mut Report) {
    let rt = runtime();
    let ty = input["tostr"].as_str().unwrap_or("?");
    let pos = input["position"].as_str().unwrap_or("?");
    let src = input["src"].as_str().unwrap_or("");
    rep.evaluations += 1;
    let exact = TYPES.iter().any(|t| t.0 == ty && t.2);
    let call = input["call"].as_bool().unwrap_or(false);
    match compile(&rt, src, input["full"].as_bool().unwrap_or(false)) {
        Outcome::Ok if call => rep.violation("an explicit `to_string` call the documented rules forbid passed the type checker", &format!("accepted:method-call-arity:{ty}:{pos}"), input.clone()),
        Outcome::Ok if !exact => rep.violation(
            "an f-string part whose type has no `to_string(self) -> String` passed the type checker",
            &format!("accepted:fstring-to-string:{ty}:{pos}"),
            input.clone(),
        ),
        Outcome::Panic(msg) if !exact => rep.violation(&format!("the compiler panicked: {msg}"), &format!("panic:fstring-to-string:{ty}:{pos}"), input.clone()),
        _ => {}
    }
}
