//! Phases `mods` / `mods-gen`: packages of SEVERAL modules and the rule "unknown
//! or out-of-scope name".
//!
//! A package is a tree of modules (`pkg`, `m1.roto`, `m1/m3.roto`, …); an item
//! is used through a path written at some site: `pkg.m1.f1`, `super.C0`,
//! `m3.T0 { … }`, or by its bare name after an `import` at module level or
//! inside a block. What a path denotes is decided on the Lean side by the
//! documented scoping rules (`Model/TcModules.lean`, request `c07 scope`):
//! first segment lexically (block imports, the module's own items and child
//! modules, the module's imports, `pkg`), leading `super`s, every later segment
//! among the direct MEMBERS of the item before it — never among the names a
//! module merely imports. The package judge is
//!     every import denotes something, every use denotes the item it was written
//!     for, and `Typing.checkProg` accepts the package flattened into one program
//! (item numbers are unique in the package, so flattening is concatenation).
//!
//!  * `mods` — class representatives, seed-independent, first: a fixed arena of
//!    five modules (root, two children, two grandchildren, with imports of their
//!    own) x the site module x the kind of use (call, constant, record literal,
//!    enum constructor, type in a `let`, type in a signature) x EVERY path prefix
//!    over {super, pkg, m1‥m4} up to length 2 (length 3 after `super` / `pkg`) x
//!    the way the path is used (written directly, imported at module level, imported
//!    in the block, imported in a nested block and used after it, module prefix
//!    imported at module level / in the block). Compared BOTH ways: the judge
//!    accepts ⇒ the type checker accepts; the judge rejects ⇒ `FileTree::compile`
//!    returns a type error (a package or a panic is a violation of the property).
//!  * `mods-gen` — a generated well-typed program distributed over a random
//!    module tree with random spellings of every foreign item (absolute, through
//!    `super`, through child modules, imported item, imported module, block-level
//!    imports, unused decoy imports), which must compile; then one scope-breaking
//!    edit (8 kinds); a mutant counts only if the judge rejects it.

use super::ast::*;
use super::mutate::walk_blocks;
use crate::{Outcome, compile_tree, error_category, generate};
use roto::{FileSpec, FileTree, NoCtx, Runtime, SourceFile};
use rotov_harness::driver::Driver;
use rotov_harness::{Prng, Report};
use serde_json::{Value, json};
use std::collections::HashMap;

#[derive(Clone, Debug, Default, PartialEq)]
pub struct Module {
    /// `m<name>` (the root, index 0, is `pkg`)
    pub name: usize,
    pub parent: Option<usize>,
    pub decls: Vec<Decl>,
    pub imports: Vec<Vec<Id>>,
    /// how an item of another module is written in this one (absent: bare name)
    pub spell: HashMap<Id, Vec<Id>>,
}

#[derive(Clone, Debug, Default, PartialEq)]
pub struct Pkg {
    pub mods: Vec<Module>,
}

pub struct Rendered {
    pub srcs: Vec<String>,
    pub uses: Vec<UseRec>,
}

pub fn decl_id(d: &Decl) -> Id {
    match d {
        Decl::Fn { name, .. } => Id::Fn(*name),
        Decl::Const { name, .. } => Id::Const(*name),
        Decl::Rec { name, .. } | Decl::Enum { name, .. } => Id::Ty(*name),
    }
}

impl Pkg {
    /// the source text of every module and every use of an item in it, as written
    pub fn render(&self) -> Rendered {
        let mut srcs = Vec::new();
        let mut uses = Vec::new();
        for (i, m) in self.mods.iter().enumerate() {
            RENDER.with(|r| {
                *r.borrow_mut() = Some(RenderCtx { module: i, spell: m.spell.clone(), ..Default::default() });
            });
            let mut s = String::new();
            for p in &m.imports {
                s.push_str(&format!("import {};\n", path_roto(p)));
            }
            for d in &m.decls {
                s.push_str(&d.roto());
            }
            let ctx = RENDER.with(|r| r.borrow_mut().take());
            if let Some(c) = ctx {
                uses.extend(c.uses);
            }
            srcs.push(s);
        }
        Rendered { srcs, uses }
    }

    /// the module that declares an item
    pub fn home(&self) -> HashMap<Id, usize> {
        let mut h = HashMap::new();
        for (i, m) in self.mods.iter().enumerate() {
            for d in &m.decls {
                h.insert(decl_id(d), i);
            }
        }
        h
    }

    pub fn flat(&self) -> Prog {
        Prog { decls: self.mods.iter().flat_map(|m| m.decls.iter().cloned()).collect() }
    }

    /// `[pkg, m1, m3]`: the absolute path of module `m`
    pub fn chain(&self, m: usize) -> Vec<Id> {
        let mut out = Vec::new();
        let mut cur = m;
        while let Some(p) = self.mods[cur].parent {
            out.push(Id::Mod(self.mods[cur].name));
            cur = p;
        }
        out.push(Id::Pkg);
        out.reverse();
        out
    }

    fn depth(&self, m: usize) -> usize {
        self.chain(m).len() - 1
    }

    fn ancestors(&self, m: usize) -> Vec<usize> {
        // m itself first, the root last
        let mut out = vec![m];
        let mut cur = m;
        while let Some(p) = self.mods[cur].parent {
            out.push(p);
            cur = p;
        }
        out
    }

    /// a relative path from module `from` to module `to`: `super`s up to the
    /// closest common ancestor, then down by module names (empty when `from == to`)
    pub fn relative(&self, from: usize, to: usize) -> Vec<Id> {
        let up = self.ancestors(from);
        let down = self.ancestors(to);
        let (k, a) = up.iter().enumerate().find(|(_, a)| down.contains(a)).map(|(k, a)| (k, *a)).unwrap();
        let mut path = vec![Id::Sup; k];
        let pos = down.iter().position(|x| *x == a).unwrap();
        for j in (0..pos).rev() {
            path.push(Id::Mod(self.mods[down[j]].name));
        }
        path
    }

    /// the request to the Lean scoping judge
    pub fn scope_request(&self, uses: &[UseRec]) -> String {
        let mods: Vec<String> = self
            .mods
            .iter()
            .map(|m| {
                format!(
                    "(mod {} {} ({}) ({}))",
                    m.name,
                    m.parent.map(|p| p.to_string()).unwrap_or_else(|| "-".into()),
                    m.decls.iter().map(|d| decl_id(d).tok()).collect::<Vec<_>>().join(" "),
                    m.imports.iter().map(|p| path_sexp(p)).collect::<Vec<_>>().join(" ")
                )
            })
            .collect();
        let mut enums = Vec::new();
        for m in &self.mods {
            for d in &m.decls {
                if let Decl::Enum { name, variants } = d {
                    enums.push(format!("({name}{})", variants.iter().map(|(k, _)| format!(" {k}")).collect::<String>()));
                }
            }
        }
        let us: Vec<String> = uses
            .iter()
            .map(|u| {
                format!(
                    "(use {} ({}) {})",
                    u.module,
                    u.frames
                        .iter()
                        .map(|f| format!("({})", f.iter().filter(|p| !p.is_empty()).map(|p| path_sexp(p)).collect::<Vec<_>>().join(" ")))
                        .collect::<Vec<_>>()
                        .join(" "),
                    path_sexp(&u.path)
                )
            })
            .collect();
        format!("c07 scope (q (mods {}) (enums {}) (uses {}))", mods.join(" "), enums.join(" "), us.join(" "))
    }

    fn file_name(&self, i: usize) -> String {
        if i == 0 { "pkg".into() } else { format!("m{}", self.mods[i].name) }
    }

    pub fn files_json(&self, srcs: &[String]) -> Value {
        Value::Array(
            (0..self.mods.len())
                .map(|i| json!({"module": self.file_name(i), "parent": self.mods[i].parent, "src": srcs[i]}))
                .collect(),
        )
    }
}

/// the file tree of a package given as (module name, parent index, source) per module
pub fn tree_of(files: &[(String, Option<usize>, String)]) -> FileTree {
    fn spec(files: &[(String, Option<usize>, String)], i: usize) -> FileSpec {
        let (name, _, src) = &files[i];
        let file = SourceFile {
            name: format!("{name}.roto"),
            module_name: name.clone(),
            contents: src.clone(),
            location_offset: 0,
            children: Vec::new(),
        };
        let children: Vec<usize> = (0..files.len()).filter(|j| files[*j].1 == Some(i) && *j != i).collect();
        if children.is_empty() && i != 0 {
            FileSpec::File(file)
        } else {
            FileSpec::Directory(file, children.into_iter().map(|c| spec(files, c)).collect())
        }
    }
    FileTree::file_spec(spec(files, 0))
}

fn files_of(pkg: &Pkg, srcs: &[String]) -> Vec<(String, Option<usize>, String)> {
    (0..pkg.mods.len()).map(|i| (pkg.file_name(i), pkg.mods[i].parent, srcs[i].clone())).collect()
}

// ------------------------------------------------------------------ the judge

/// the verdict the judge must give for every use: the item it was written for
pub fn wanted(pkg: &Pkg, uses: &[UseRec]) -> Result<Vec<String>, String> {
    let home = pkg.home();
    uses.iter()
        .map(|u| match (home.get(&u.target), u.variant, u.target) {
            (Some(h), Some(k), Id::Ty(t)) => Ok(format!("ok variant:{h}:{t}:{k}")),
            (Some(h), None, t) => Ok(format!("ok item:{h}:{}", t.tok())),
            _ => Err(format!("use of an item nobody declares: {}", u.target.tok())),
        })
        .collect()
}

/// what the Lean side says about the scoping of a rendered package:
/// `None` = everything is in scope and denotes what it was written for;
/// `Some(rule)` = the first thing that is not
pub fn scope_rule(answer: &str, want: &[String]) -> Result<Option<String>, String> {
    let (head, body) = match answer.split_once(" |") {
        Some((h, b)) => (h.trim(), b.trim()),
        None => return Err(format!("driver answered `{answer}`")),
    };
    if let Some(r) = scope_head(head)? {
        return Ok(Some(r.to_string()));
    }
    let verdicts: Vec<&str> = if body.is_empty() { vec![] } else { body.split(" ; ").collect() };
    if verdicts.len() != want.len() {
        return Err(format!("{} verdicts for {} uses", verdicts.len(), want.len()));
    }
    for (v, w) in verdicts.iter().zip(want) {
        match v.trim() {
            "err import" => return Ok(Some("unresolved-import".into())),
            "err scope" => return Ok(Some("out-of-scope".into())),
            // the path denotes something else than the item it was written for
            v if v != w => return Ok(Some("denotes-another-item".into())),
            _ => {}
        }
    }
    Ok(None)
}

fn scope_head(head: &str) -> Result<Option<&'static str>, String> {
    match head {
        "wf=1 imports=1" => Ok(None),
        "wf=1 imports=0" => Ok(Some("unresolved-import")),
        h if h.starts_with("wf=0") => Err("the package is not a tree of modules".into()),
        other => Err(format!("driver answered `{other}`")),
    }
}

/// the package judge: `Ok(None)` well-scoped and well-typed, `Ok(Some(rule))` ill-typed
pub fn judge(drv: &mut Driver, pkg: &Pkg, r: &Rendered) -> Result<Option<String>, String> {
    let answer = drv.ask(&pkg.scope_request(&r.uses));
    if let Some(rule) = scope_rule(&answer, &wanted(pkg, &r.uses)?)? {
        return Ok(Some(rule));
    }
    let d = drv.ask(&format!("c07 prog {}", pkg.flat().sexp()));
    match d.as_str() {
        "ok" => Ok(None),
        d if d.starts_with("err ") => Ok(Some(d[4..].to_string())),
        other => Err(format!("driver answered `{other}` for the flattened package")),
    }
}

/// compare the judge with the compiler on one package. `both_ways`: a package
/// the judge accepts must pass the type checker (else only rejected ones are judged)
#[allow(clippy::too_many_arguments)]
pub fn judge_pkg(rt: &Runtime<NoCtx>, drv: &mut Driver, pkg: &Pkg, what: &str, kind: &str, detail: &str, both_ways: bool, id: Value, rep: &mut Report) {
    let r = pkg.render();
    let files = files_of(pkg, &r.srcs);
    let input = |rule: &str| {
        json!({
            "pkg": pkg.files_json(&r.srcs), "scope": pkg.scope_request(&r.uses), "sexp": pkg.flat().sexp(),
            "expect": wanted(pkg, &r.uses).unwrap_or_default(),
            "kind": kind, "rule": rule, "detail": detail, "id": id,
        })
    };
    let verdict = match judge(drv, pkg, &r) {
        Ok(v) => v,
        Err(e) => {
            rep.mismatch(&format!("the scoping judge could not be asked: {e}"), input("?"));
            return;
        }
    };
    match verdict {
        None => {
            if !both_ways {
                return;
            }
            rep.evaluations += 1;
            match compile_tree(rt, || tree_of(&files), false) {
                Outcome::Ok => rep.class(format!("mods:{what}:ok")),
                Outcome::TypeError(line) => rep.mismatch(
                    &format!("the scoping rules accept a package the type checker rejects: {line}"),
                    input("none"),
                ),
                Outcome::Other(stage, line) => rep.notes.push(format!("package printer slip ({stage}: {line}) {what}")),
                Outcome::Panic(msg) => rep.mismatch(&format!("the type checker panicked on a well-scoped package: {msg}"), input("none")),
            }
        }
        Some(rule) => {
            rep.evaluations += 1;
            rep.hist("mods-rule-broken", rule.clone());
            // type check first (cheap); an accepted package goes through the whole pipeline
            let mut out = compile_tree(rt, || tree_of(&files), false);
            if out == Outcome::Ok {
                out = match compile_tree(rt, || tree_of(&files), true) {
                    Outcome::TypeError(_) => Outcome::Ok, // cannot happen after an accepting type check; keep the alarm
                    o => o,
                };
            }
            match out {
                Outcome::TypeError(line) => {
                    let cat = error_category(&line);
                    rep.class(format!("mods:{what}:{rule}:{cat}"));
                    rep.hist("mods-type-error-reported", cat);
                    if rep.samples.len() < 4 {
                        rep.sample(json!({"kind": kind, "rule": rule, "reported": line, "pkg": pkg.files_json(&r.srcs)}));
                    }
                }
                Outcome::Ok => rep.violation(
                    "an ill-typed package of several modules compiled (a name that is out of scope at its place of use was accepted)",
                    &format!("accepted:{kind}:{rule}"),
                    input(&rule),
                ),
                Outcome::Panic(msg) => rep.violation(
                    &format!("an ill-typed package of several modules made the compiler panic instead of reporting a type error: {msg}"),
                    &format!("panic:{kind}:{rule}"),
                    input(&rule),
                ),
                Outcome::Other(stage, line) => rep.notes.push(format!("package printer slip ({stage}: {line}) {what}")),
            }
        }
    }
}

/// replay of a recorded package (`input["pkg"]`): the judge on the recorded
/// requests, the compiler on the recorded files
pub fn replay(rt: &Runtime<NoCtx>, drv: &mut Driver, input: &Value, rep: &mut Report) {
    let files: Vec<(String, Option<usize>, String)> = input["pkg"]
        .as_array()
        .map(|a| {
            a.iter()
                .map(|f| {
                    (
                        f["module"].as_str().unwrap_or("pkg").to_string(),
                        f["parent"].as_u64().map(|p| p as usize),
                        f["src"].as_str().unwrap_or("").to_string(),
                    )
                })
                .collect()
        })
        .unwrap_or_default();
    if files.is_empty() {
        return;
    }
    let scope = drv.ask(input["scope"].as_str().unwrap_or("c07 scope"));
    println!("scoping judge: {scope}");
    let flat = drv.ask(&format!("c07 prog {}", input["sexp"].as_str().unwrap_or("")));
    println!("declarative checker on the flattened package: {flat}");
    // ill-typed: some use / import out of scope or denoting another item, or the flat program rejected
    let expect: Vec<String> = input["expect"].as_array().map(|a| a.iter().filter_map(|t| t.as_str().map(str::to_string)).collect()).unwrap_or_default();
    let scoped_ill = matches!(scope_rule(&scope, &expect), Ok(Some(_)));
    if !(scoped_ill || flat.starts_with("err")) {
        return;
    }
    rep.evaluations += 1;
    let kind = input["kind"].as_str().unwrap_or("replay");
    let rule = input["rule"].as_str().unwrap_or("?");
    match compile_tree(rt, || tree_of(&files), true) {
        Outcome::Ok => rep.violation("an ill-typed package of several modules compiled", &format!("accepted:{kind}:{rule}"), input.clone()),
        Outcome::Panic(msg) => rep.violation(&format!("an ill-typed package of several modules made the compiler panic: {msg}"), &format!("panic:{kind}:{rule}"), input.clone()),
        _ => {}
    }
}

// ------------------------------------------------- class representatives: the arena

#[derive(Clone, Copy, Debug, PartialEq)]
pub enum UseKind {
    Call,
    Const,
    Record,
    Ctor,
    TypeInLet,
    TypeInSignature,
}

pub const USE_KINDS: [UseKind; 6] = [UseKind::Call, UseKind::Const, UseKind::Record, UseKind::Ctor, UseKind::TypeInLet, UseKind::TypeInSignature];

impl UseKind {
    fn tag(self) -> &'static str {
        match self {
            UseKind::Call => "call",
            UseKind::Const => "constant",
            UseKind::Record => "record-literal",
            UseKind::Ctor => "constructor",
            UseKind::TypeInLet => "type-in-let",
            UseKind::TypeInSignature => "type-in-signature",
        }
    }
    fn item(self) -> Id {
        match self {
            UseKind::Call => Id::Fn(1),
            UseKind::Const => Id::Const(0),
            UseKind::Ctor => Id::Ty(1),
            _ => Id::Ty(0),
        }
    }
}

#[derive(Clone, Copy, Debug, PartialEq)]
pub enum Mode {
    /// the path written at the place of use
    Direct,
    /// `import path;` at module level, the bare name at the place of use
    ModuleImport,
    /// `import path;` in the block of the use
    BlockImport,
    /// `import path;` in a nested block, the bare name used inside AND after it
    AfterBlock,
    /// `import prefix;` (a module) at module level, `m.item` at the place of use
    ModulePrefix,
    /// … in the block of the use
    BlockPrefix,
}

pub const MODES: [Mode; 6] = [Mode::Direct, Mode::ModuleImport, Mode::BlockImport, Mode::AfterBlock, Mode::ModulePrefix, Mode::BlockPrefix];

impl Mode {
    fn tag(self) -> &'static str {
        match self {
            Mode::Direct => "path",
            Mode::ModuleImport => "module-import",
            Mode::BlockImport => "block-import",
            Mode::AfterBlock => "used-after-importing-block",
            Mode::ModulePrefix => "module-import-of-module",
            Mode::BlockPrefix => "block-import-of-module",
        }
    }
}

fn i32t() -> Ty {
    Ty::Int(6)
}

/// the fixed package: `pkg` { m1 { m3 }, m2 { m4 } }; m1 declares the items that are used
pub fn arena() -> Pkg {
    let f = |name: usize, v: usize| Decl::Fn {
        name,
        params: vec![(v, i32t())],
        ret: i32t(),
        body: Block { stmts: vec![], last: Some(Box::new(Expr::Var(v))) },
    };
    let m = |name: usize, parent: Option<usize>, decls: Vec<Decl>, imports: Vec<Vec<Id>>| Module { name, parent, decls, imports, spell: HashMap::new() };
    Pkg {
        mods: vec![
            m(0, None, vec![f(0, 0), Decl::Const { name: 9, ty: i32t(), e: Expr::IntLit(1, None) }], vec![vec![Id::Mod(1), Id::Ty(0)]]),
            m(
                1,
                Some(0),
                vec![
                    f(1, 1),
                    Decl::Const { name: 0, ty: i32t(), e: Expr::IntLit(7, None) },
                    Decl::Rec { name: 0, fields: vec![(0, i32t())] },
                    Decl::Enum { name: 1, variants: vec![(0, vec![i32t()]), (1, vec![])] },
                ],
                vec![],
            ),
            m(
                2,
                Some(0),
                vec![f(2, 2)],
                vec![
                    vec![Id::Sup, Id::Mod(1), Id::Fn(1)],
                    vec![Id::Pkg, Id::Mod(1), Id::Const(0)],
                    vec![Id::Sup, Id::Mod(1), Id::Ty(0)],
                    vec![Id::Sup, Id::Mod(1), Id::Ty(1)],
                    vec![Id::Pkg, Id::Mod(1)],
                ],
            ),
            m(3, Some(1), vec![f(4, 4)], vec![vec![Id::Sup, Id::Const(0)]]),
            m(4, Some(2), vec![f(5, 5)], vec![vec![Id::Sup, Id::Sup, Id::Mod(1), Id::Fn(1)]]),
        ],
    }
}

/// every prefix over {super, pkg, m1‥m4} up to length 2, and of length 3 after `super` / `pkg`
pub fn prefixes() -> Vec<Vec<Id>> {
    let alpha = [Id::Sup, Id::Pkg, Id::Mod(1), Id::Mod(2), Id::Mod(3), Id::Mod(4)];
    let mut out = vec![vec![]];
    for a in alpha {
        out.push(vec![a]);
    }
    for a in alpha {
        for b in alpha {
            out.push(vec![a, b]);
        }
    }
    for a in [Id::Sup, Id::Pkg] {
        for b in alpha {
            for c in alpha {
                out.push(vec![a, b, c]);
            }
        }
    }
    out
}

pub fn rep_count() -> u64 {
    (5 * USE_KINDS.len() * MODES.len() * prefixes().len()) as u64
}

pub struct Case {
    pub pkg: Pkg,
    pub what: String,
    pub kind: String,
    pub detail: String,
}

/// representative `index`: (site module, kind of use, mode, prefix); `None` where the combination does not exist
pub fn rep_case(index: usize) -> Option<Case> {
    let pre = prefixes();
    let (mut i, np) = (index, pre.len());
    let prefix = pre[i % np].clone();
    i /= np;
    let mode = MODES[i % MODES.len()];
    i /= MODES.len();
    let kind = USE_KINDS[i % USE_KINDS.len()];
    i /= USE_KINDS.len();
    if i >= 5 {
        return None;
    }
    let site = i;
    if kind == UseKind::TypeInSignature && matches!(mode, Mode::BlockImport | Mode::AfterBlock | Mode::BlockPrefix) {
        return None;
    }
    let item = kind.item();
    let last_mod = match prefix.last() {
        Some(Id::Mod(k)) => Some(*k),
        _ => None,
    };
    if matches!(mode, Mode::ModulePrefix | Mode::BlockPrefix) && last_mod.is_none() {
        return None;
    }
    let mut full = prefix.clone();
    full.push(item);
    let mut pkg = arena();
    // the use, as statements + a value of type i32
    let v = 90;
    let use_of = |kind: UseKind| -> (Vec<Stmt>, Expr) {
        match kind {
            UseKind::Call => (vec![], Expr::Call(1, vec![Expr::Var(v)])),
            UseKind::Const => (vec![], Expr::Const(0)),
            UseKind::Record => (vec![], Expr::Field(Box::new(Expr::Record(0, vec![(0, Expr::Var(v))])), 0)),
            UseKind::Ctor => (
                vec![],
                Expr::Match(
                    Box::new(Expr::Ctor(1, 0, vec![Expr::Var(v)])),
                    vec![
                        Arm {
                            pat: Pat::Variant { name: PatName::User(0), binders: Some(vec![91]) },
                            guard: None,
                            body: Block { stmts: vec![], last: Some(Box::new(Expr::Var(91))) },
                        },
                        Arm {
                            pat: Pat::Variant { name: PatName::User(1), binders: None },
                            guard: None,
                            body: Block { stmts: vec![], last: Some(Box::new(Expr::IntLit(0, None))) },
                        },
                    ],
                ),
            ),
            UseKind::TypeInLet => (vec![Stmt::Let(92, Some(Ty::Opt(Box::new(Ty::Named(0)))), Expr::None)], Expr::Var(v)),
            UseKind::TypeInSignature => (vec![], Expr::Var(v)),
        }
    };
    let (stmts, value) = use_of(kind);
    let mut params = vec![(v, i32t())];
    if kind == UseKind::TypeInSignature {
        params.push((93, Ty::List(Box::new(Ty::Named(0)))));
    }
    let mut body = Block { stmts, last: Some(Box::new(value)) };
    let bare = vec![item];
    let through = |k: usize| vec![Id::Mod(k), item];
    match mode {
        Mode::Direct => {
            pkg.mods[site].spell.insert(item, full.clone());
        }
        Mode::ModuleImport => pkg.mods[site].imports.push(full.clone()),
        Mode::BlockImport => body.stmts.insert(0, Stmt::Import(full.clone(), vec![(item, bare.clone())])),
        Mode::AfterBlock => {
            let (mut s2, v2) = use_of(kind);
            s2.insert(0, Stmt::Import(full.clone(), vec![(item, bare.clone())]));
            s2.push(Stmt::Let(94, None, v2));
            body.stmts.insert(0, Stmt::Do(Expr::BlockE(Block { stmts: s2, last: None })));
        }
        Mode::ModulePrefix => {
            pkg.mods[site].imports.push(prefix.clone());
            pkg.mods[site].spell.insert(item, through(last_mod.unwrap()));
        }
        Mode::BlockPrefix => body.stmts.insert(0, Stmt::Import(prefix.clone(), vec![(item, through(last_mod.unwrap()))])),
    }
    pkg.mods[site].decls.push(Decl::Fn { name: 9, params, ret: i32t(), body });
    let site_name = if site == 0 { "pkg".to_string() } else { format!("m{site}") };
    Some(Case {
        pkg,
        what: format!("rep:{}:{}:in-{site_name}", kind.tag(), mode.tag()),
        kind: format!("scope:{}", mode.tag()),
        detail: format!("`{}` ({}) in module {site_name}", path_roto(&full), mode.tag()),
    })
}

// ------------------------------------------------------------ generated packages

/// the items a module uses (rendered with bare names)
fn used_items(m: &Module) -> Vec<Id> {
    let probe = Pkg { mods: vec![Module { spell: HashMap::new(), imports: vec![], ..m.clone() }] };
    let mut out: Vec<Id> = Vec::new();
    for u in probe.render().uses {
        if !out.contains(&u.target) {
            out.push(u.target);
        }
    }
    out
}

fn item_kind(i: Id) -> &'static str {
    match i {
        Id::Fn(_) => "function",
        Id::Const(_) => "constant",
        Id::Ty(_) => "type",
        _ => "other",
    }
}

/// a path from module `from` to module `to` that the rules accept (absolute or relative)
fn module_path(p: &mut Prng, pkg: &Pkg, from: usize, to: usize) -> Vec<Id> {
    if p.chance(1, 2) { pkg.chain(to) } else { pkg.relative(from, to) }
}

/// a generated well-typed program, distributed over a random tree of modules
pub fn random_pkg(seed: u64, index: u64) -> (Pkg, Prng) {
    let (prog, mut p) = generate(seed, index);
    let n = 2 + p.below(4) as usize;
    let mut pkg = Pkg::default();
    for j in 0..n {
        let parent = if j == 0 { None } else { Some(p.below(j as u64) as usize) };
        pkg.mods.push(Module { name: j, parent, ..Default::default() });
    }
    for d in prog.decls {
        let m = p.below(n as u64) as usize;
        pkg.mods[m].decls.push(d);
    }
    let home = pkg.home();
    let all_items: Vec<Id> = {
        let mut v: Vec<Id> = home.keys().cloned().collect();
        v.sort();
        v
    };
    for m in 0..n {
        let mut imported_mods: Vec<usize> = Vec::new();
        let mut keys: Vec<Id> = Vec::new();
        for x in used_items(&pkg.mods[m]) {
            let Some(&h) = home.get(&x) else { continue };
            if h == m {
                continue;
            }
            let to_h = module_path(&mut p, &pkg, m, h);
            match p.below(5) {
                0 | 1 => {
                    // the path at the place of use
                    let mut path = to_h;
                    path.push(x);
                    pkg.mods[m].spell.insert(x, path);
                }
                2 | 3 => {
                    // the item imported at module level
                    let mut path = to_h;
                    path.push(x);
                    pkg.mods[m].imports.push(path);
                    keys.push(x);
                }
                _ => {
                    // its module imported at module level (the root cannot be: `pkg` is always there)
                    if h == 0 || to_h.is_empty() {
                        let mut path = pkg.chain(h);
                        path.push(x);
                        pkg.mods[m].spell.insert(x, path);
                    } else {
                        if !imported_mods.contains(&h) {
                            imported_mods.push(h);
                            pkg.mods[m].imports.push(to_h);
                        }
                        let hname = pkg.mods[h].name;
                        pkg.mods[m].spell.insert(x, vec![Id::Mod(hname), x]);
                    }
                }
            }
        }
        // decoys: imports nobody uses (what a module imports is not its member)
        for _ in 0..p.below(3) {
            if all_items.is_empty() {
                break;
            }
            let x = *p.pick(&all_items);
            let h = home[&x];
            if h != m && !keys.contains(&x) {
                let mut path = module_path(&mut p, &pkg, m, h);
                path.push(x);
                pkg.mods[m].imports.push(path);
                keys.push(x);
            }
        }
        // block-level imports: in one block of the module, some foreign items are imported there
        if p.chance(1, 2) {
            let foreign: Vec<Id> = used_items(&pkg.mods[m]).into_iter().filter(|x| home.get(x).is_some_and(|h| *h != m)).collect();
            if !foreign.is_empty() {
                let x = *p.pick(&foreign);
                let mut path = module_path(&mut p, &pkg, m, home[&x]);
                path.push(x);
                // preferably the body of a function that uses the item (else any block of the module)
                let users: Vec<usize> = (0..pkg.mods[m].decls.len())
                    .filter(|i| {
                        matches!(pkg.mods[m].decls[*i], Decl::Fn { .. })
                            && used_items(&Module { decls: vec![pkg.mods[m].decls[*i].clone()], ..Default::default() }).contains(&x)
                    })
                    .collect();
                let all = std::mem::take(&mut pkg.mods[m].decls);
                let (mut tmp, rest, at) = if !users.is_empty() && p.chance(3, 4) {
                    let i = *p.pick(&users);
                    (Prog { decls: vec![all[i].clone()] }, all, Some(i))
                } else {
                    (Prog { decls: all }, Vec::new(), None)
                };
                let mut nblocks = 0;
                walk_blocks(&mut tmp, &mut |_, _, _| nblocks += 1);
                if nblocks > 0 {
                    let k = if at.is_some() && p.chance(2, 3) { 0 } else { p.below(nblocks as u64) as usize };
                    let pos_seed = p.next();
                    let mut i = 0;
                    walk_blocks(&mut tmp, &mut |b, _, _| {
                        if i == k {
                            let pos = (pos_seed % (b.stmts.len() as u64 + 1)) as usize;
                            b.stmts.insert(pos, Stmt::Import(path.clone(), vec![(x, vec![x])]));
                        }
                        i += 1;
                    });
                }
                pkg.mods[m].decls = match at {
                    Some(i) => {
                        let mut all = rest;
                        all[i] = tmp.decls.remove(0);
                        all
                    }
                    None => tmp.decls,
                };
            }
        }
    }
    (pkg, p)
}

pub const EDITS: [&str; 8] = [
    "through-import",        // a path through a module to a name that module only imports
    "bare-foreign",          // an item of another module by its bare name, no import
    "drop-import",           // the import a bare name (or a module prefix) relies on is removed
    "block-import-escapes",  // the import moves into a nested block, the uses stay after it
    "wrong-module",          // a path through a module that does not declare the item
    "import-through-import", // an import of a name through a module that only imports it
    "super-off",             // `super`s that lead to another module than the item's (or above the root)
    "invisible-module",      // `m.item` where module `m` is neither a child nor imported
];

fn relation(pkg: &Pkg, a: usize, h: usize) -> &'static str {
    if a == h {
        "same"
    } else if pkg.mods[a].parent == Some(h) {
        "parent"
    } else if pkg.mods[h].parent == Some(a) {
        "child"
    } else if pkg.mods[a].parent == pkg.mods[h].parent {
        "sibling"
    } else if pkg.ancestors(a).contains(&h) {
        "ancestor"
    } else if pkg.ancestors(h).contains(&a) {
        "descendant"
    } else {
        "cousin"
    }
}

/// one scope-breaking edit; returns the package, the class tag and a description
pub fn edit(p: &mut Prng, base: &Pkg, kind: &str) -> Option<(Pkg, String, String)> {
    let home = base.home();
    let n = base.mods.len();
    let mut pkg = base.clone();
    // (module, item) pairs: item used in the module
    let mut used: Vec<(usize, Id)> = Vec::new();
    for m in 0..n {
        for x in used_items(&base.mods[m]) {
            if home.contains_key(&x) {
                used.push((m, x));
            }
        }
    }
    // (module C, item X): C imports X at module level and does not declare it
    let mut importers: Vec<(usize, Id)> = Vec::new();
    for (c, m) in base.mods.iter().enumerate() {
        for path in &m.imports {
            if let Some(x) = path.last() {
                if home.get(x).is_some_and(|h| *h != c) {
                    importers.push((c, *x));
                }
            }
        }
    }
    let tag = |pkg: &Pkg, a: usize, x: Id| format!("{}:{}", item_kind(x), relation(pkg, a, home[&x]));
    match kind {
        "through-import" => {
            let cands: Vec<(usize, usize, Id)> = importers.iter().flat_map(|(c, x)| used.iter().filter(move |(_, y)| y == x).map(move |(a, _)| (*a, *c, *x))).collect();
            if cands.is_empty() {
                return None;
            }
            let (a, c, x) = *p.pick(&cands);
            let mut path = if p.chance(1, 2) { base.chain(c) } else { base.relative(a, c) };
            if path.is_empty() {
                path = base.chain(c);
            }
            path.push(x);
            let d = format!("{} written `{}` in module {}: module {} only imports it", x.tok(), path_roto(&path), a, c);
            pkg.mods[a].spell.insert(x, path);
            Some((pkg, tag(base, a, x), d))
        }
        "bare-foreign" => {
            let cands: Vec<(usize, Id)> = used.iter().filter(|(a, x)| home[x] != *a && base.mods[*a].spell.contains_key(x)).cloned().collect();
            if cands.is_empty() {
                return None;
            }
            let (a, x) = *p.pick(&cands);
            pkg.mods[a].spell.remove(&x);
            Some((pkg, tag(base, a, x), format!("{} by its bare name in module {a}", x.tok())))
        }
        "drop-import" => {
            let all: Vec<(usize, usize)> = (0..n).flat_map(|m| (0..base.mods[m].imports.len()).map(move |i| (m, i))).collect();
            if all.is_empty() {
                return None;
            }
            // preferably an import something relies on: a used item spelled by its bare name, or a module some spelling starts with
            let relied: Vec<(usize, usize)> = all
                .iter()
                .filter(|(m, i)| match base.mods[*m].imports[*i].last() {
                    Some(Id::Mod(k)) => base.mods[*m].spell.values().any(|sp| sp.first() == Some(&Id::Mod(*k))),
                    Some(x) => used.contains(&(*m, *x)) && !base.mods[*m].spell.contains_key(x),
                    None => false,
                })
                .cloned()
                .collect();
            let (m, i) = if !relied.is_empty() && p.chance(4, 5) { *p.pick(&relied) } else { *p.pick(&all) };
            let path = pkg.mods[m].imports.remove(i);
            let x = *path.last().unwrap();
            let t = if home.contains_key(&x) { tag(base, m, x) } else { "module".to_string() };
            Some((pkg, t, format!("`import {};` removed from module {m}", path_roto(&path))))
        }
        "block-import-escapes" => {
            let mut sites = 0;
            for m in pkg.mods.iter_mut() {
                let mut tmp = Prog { decls: std::mem::take(&mut m.decls) };
                walk_blocks(&mut tmp, &mut |b, _, _| sites += b.stmts.iter().filter(|s| matches!(s, Stmt::Import(p, o) if !p.is_empty() && !o.is_empty())).count());
                m.decls = tmp.decls;
            }
            if sites == 0 {
                return None;
            }
            let k = p.below(sites as u64) as usize;
            let mut i = 0;
            let mut d = String::new();
            let mut t = String::new();
            for (mi, m) in pkg.mods.iter_mut().enumerate() {
                let mut tmp = Prog { decls: std::mem::take(&mut m.decls) };
                walk_blocks(&mut tmp, &mut |b, _, _| {
                    let mut j = 0;
                    while j < b.stmts.len() {
                        if let Stmt::Import(path, o) = &b.stmts[j] {
                            if !path.is_empty() && !o.is_empty() {
                                if i == k {
                                    let (path, o) = (path.clone(), o.clone());
                                    d = format!("`import {};` moved into a nested block of its own in module {mi}", path_roto(&path));
                                    t = format!("{}:{}", item_kind(o[0].0), "block");
                                    b.stmts[j] = Stmt::Do(Expr::BlockE(Block { stmts: vec![Stmt::Import(path, vec![])], last: None }));
                                    b.stmts.insert(j + 1, Stmt::Import(vec![], o));
                                    i += 1;
                                    j += 1;
                                } else {
                                    i += 1;
                                }
                            }
                        }
                        j += 1;
                    }
                });
                m.decls = tmp.decls;
            }
            Some((pkg, t, d))
        }
        "wrong-module" => {
            let cands: Vec<(usize, Id)> = used.clone();
            if cands.is_empty() || n < 2 {
                return None;
            }
            let (a, x) = *p.pick(&cands);
            let others: Vec<usize> = (0..n).filter(|w| *w != home[&x]).collect();
            let w = *p.pick(&others);
            let mut path = if p.chance(1, 2) { base.chain(w) } else { base.relative(a, w) };
            if path.is_empty() {
                path = base.chain(w);
            }
            path.push(x);
            let d = format!("{} written `{}` in module {a}: module {w} does not declare it", x.tok(), path_roto(&path));
            pkg.mods[a].spell.insert(x, path);
            Some((pkg, tag(base, a, x), d))
        }
        "import-through-import" => {
            // an import of X in module A is redirected through a module C that only imports X
            let mut cands: Vec<(usize, usize, usize, Id)> = Vec::new();
            for (a, m) in base.mods.iter().enumerate() {
                for (i, path) in m.imports.iter().enumerate() {
                    if let Some(x) = path.last() {
                        for (c, y) in &importers {
                            if y == x && *c != a {
                                cands.push((a, i, *c, *x));
                            }
                        }
                    }
                }
            }
            if cands.is_empty() {
                return None;
            }
            let (a, i, c, x) = *p.pick(&cands);
            let mut path = base.chain(c);
            path.push(x);
            let d = format!("module {a} imports `{}`: module {c} only imports {}", path_roto(&path), x.tok());
            pkg.mods[a].imports[i] = path;
            Some((pkg, tag(base, a, x), d))
        }
        "super-off" => {
            if used.is_empty() {
                return None;
            }
            let (a, x) = *p.pick(&used);
            let k = 1 + p.below(base.depth(a) as u64 + 1) as usize;
            let mut path = vec![Id::Sup; k];
            path.push(x);
            let d = format!("{} written `{}` in module {a}", x.tok(), path_roto(&path));
            pkg.mods[a].spell.insert(x, path);
            Some((pkg, tag(base, a, x), d))
        }
        "invisible-module" => {
            let cands: Vec<(usize, Id)> = used.iter().filter(|(a, x)| home[x] != 0 && home[x] != *a).cloned().collect();
            if cands.is_empty() {
                return None;
            }
            let (a, x) = *p.pick(&cands);
            let h = home[&x];
            let path = vec![Id::Mod(base.mods[h].name), x];
            let d = format!("{} written `{}` in module {a}", x.tok(), path_roto(&path));
            pkg.mods[a].spell.insert(x, path);
            Some((pkg, tag(base, a, x), d))
        }
        _ => None,
    }
}

pub fn random_case(rt: &Runtime<NoCtx>, drv: &mut Driver, seed: u64, index: u64, rep: &mut Report) {
    let (base, mut p) = random_pkg(seed, index);
    let r = base.render();
    match judge(drv, &base, &r) {
        Ok(None) => {}
        Ok(Some(rule)) => {
            rep.hist("mods-originals", format!("generator-slip:{rule}"));
            if rep.notes.len() < 6 {
                rep.notes.push(format!("package generator slip (the judge says `{rule}`) seed={seed} index={index}"));
            }
            return;
        }
        Err(e) => {
            rep.mismatch(&format!("the scoping judge could not be asked: {e}"), json!({"seed": seed, "index": index}));
            return;
        }
    }
    let files = files_of(&base, &r.srcs);
    match compile_tree(rt, || tree_of(&files), true) {
        Outcome::Ok => rep.hist("mods-originals", "compiled"),
        Outcome::TypeError(line) => {
            rep.hist("mods-originals", "rejected-by-type-checker");
            rep.mismatch(
                "a generated well-typed package of several modules (accepted by the scoping rules and the declarative checker) is rejected by the type checker",
                json!({"seed": seed, "index": index, "error": line, "pkg": base.files_json(&r.srcs), "scope": base.scope_request(&r.uses)}),
            );
            return;
        }
        Outcome::Other(stage, line) => {
            rep.hist("mods-originals", format!("printer-slip:{stage}"));
            if rep.notes.len() < 6 {
                rep.notes.push(format!("package printer slip ({stage}: {line}) seed={seed} index={index}"));
            }
            return;
        }
        Outcome::Panic(msg) => {
            rep.hist("mods-originals", "panicked");
            if rep.notes.len() < 6 {
                rep.notes.push(format!("well-typed package panics the compiler ({msg}) seed={seed} index={index}"));
            }
            return;
        }
    }
    rep.hist("mods-modules", format!("{}-modules", base.mods.len()));
    for u in &r.uses {
        let how = match u.path.first() {
            Some(Id::Sup) => "super…",
            Some(Id::Pkg) => "pkg…",
            Some(Id::Mod(_)) => "module…",
            _ if u.path.len() == 1 || u.variant.is_some() && u.path.len() == 2 => "bare",
            _ => "other",
        };
        rep.hist("mods-spelling", format!("{how}{}", if u.frames.is_empty() { "" } else { " under block imports" }));
    }
    let start = (index as usize + p.below(EDITS.len() as u64) as usize) % EDITS.len();
    for off in 0..EDITS.len() {
        let kind = EDITS[(start + off) % EDITS.len()];
        if let Some((m, tag, detail)) = edit(&mut p, &base, kind) {
            if m == base {
                continue;
            }
            let before = rep.evaluations;
            judge_pkg(rt, drv, &m, &format!("{kind}:{tag}"), &format!("scope:{kind}"), &detail, false, json!({"seed": seed, "index": index, "edit": kind}), rep);
            if rep.evaluations > before {
                rep.hist("mods-mutants", format!("counted:{kind}"));
                return;
            }
            rep.hist("mods-mutants", format!("not-counted:{kind}"));
        }
    }
    rep.hist("mods-mutants", "no-applicable-edit");
}

pub fn mods_case(rt: &Runtime<NoCtx>, drv: &mut Driver, seed: u64, index: u64, generated: bool, rep: &mut Report) {
    if generated {
        random_case(rt, drv, seed, index, rep);
    } else if let Some(c) = rep_case(index as usize) {
        judge_pkg(rt, drv, &c.pkg, &c.what, &c.kind, &c.detail, true, json!({"rep": index}), rep);
    }
}
