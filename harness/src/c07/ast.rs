//! Typed core-language AST of C07's program generator, printed twice: as Roto
//! source (for the real compiler) and as an s-expression (for the Lean
//! declarative checker, `Driver/C07.lean`). Names are numbers: variables `v3`,
//! constants `C1`, functions `f2`, types `T0`, fields `a4`, variants `K2`.


use std::cell::RefCell;
use std::collections::HashMap;

/// identifiers of paths in packages of several modules (`modules.rs`)
#[derive(Clone, Copy, Debug, PartialEq, Eq, Hash, PartialOrd, Ord)]
pub enum Id {
    Sup,
    Pkg,
    Mod(usize),
    Fn(usize),
    Const(usize),
    Ty(usize),
    Variant(usize),
}

impl Id {
    /// the spelling, in Roto source and in the request to the Lean driver alike
    pub fn tok(&self) -> String {
        match self {
            Id::Sup => "super".into(),
            Id::Pkg => "pkg".into(),
            Id::Mod(n) => format!("m{n}"),
            Id::Fn(n) => format!("f{n}"),
            Id::Const(n) => format!("C{n}"),
            Id::Ty(n) => format!("T{n}"),
            Id::Variant(n) => format!("K{n}"),
        }
    }
}

pub fn path_roto(p: &[Id]) -> String {
    p.iter().map(|i| i.tok()).collect::<Vec<_>>().join(".")
}

pub fn path_sexp(p: &[Id]) -> String {
    format!("({})", p.iter().map(|i| i.tok()).collect::<Vec<_>>().join(" "))
}

/// one use of an item, as written: the module of the site, the import lists of
/// the enclosing blocks (innermost first), the path, the item meant
#[derive(Clone, Debug, PartialEq)]
pub struct UseRec {
    pub module: usize,
    pub frames: Vec<Vec<Vec<Id>>>,
    pub path: Vec<Id>,
    pub target: Id,
    /// for a constructor `T.K`: the variant
    pub variant: Option<usize>,
}

/// Rendering context of a module of a package: how the items of other modules
/// are spelled here. Without a context (single-file scripts) every item is
/// spelled by its bare name.
#[derive(Clone, Debug, Default)]
pub struct RenderCtx {
    pub module: usize,
    /// spelling of an item in this module (absent: the bare name)
    pub spell: HashMap<Id, Vec<Id>>,
    /// block-level imports of the enclosing blocks, outermost first
    pub frames: Vec<Vec<Vec<Id>>>,
    /// respellings those blocks bring, outermost first
    pub overrides: Vec<Vec<(Id, Vec<Id>)>>,
    /// every use rendered so far
    pub uses: Vec<UseRec>,
}

thread_local! {
    pub static RENDER: RefCell<Option<RenderCtx>> = const { RefCell::new(None) };
}

/// the path by which `item` is written at the current place (and a record of the use)
fn item_path(item: Id, variant: Option<usize>) -> String {
    RENDER.with(|r| {
        let mut r = r.borrow_mut();
        let Some(c) = r.as_mut() else {
            let mut s = item.tok();
            if let Some(k) = variant {
                s.push_str(&format!(".K{k}"));
            }
            return s;
        };
        let mut path = None;
        for fr in c.overrides.iter().rev() {
            if let Some((_, p)) = fr.iter().rev().find(|(i, _)| *i == item) {
                path = Some(p.clone());
                break;
            }
        }
        let mut path = path.or_else(|| c.spell.get(&item).cloned()).unwrap_or_else(|| vec![item]);
        if let Some(k) = variant {
            path.push(Id::Variant(k));
        }
        let frames: Vec<Vec<Vec<Id>>> = c.frames.iter().rev().cloned().collect();
        c.uses.push(UseRec { module: c.module, frames, path: path.clone(), target: item, variant });
        path_roto(&path)
    })
}

#[derive(Clone, Debug, PartialEq)]
pub enum Ty {
    /// 0‥7 = u8 u16 u32 u64 i8 i16 i32 i64
    Int(u8),
    F32,
    F64,
    Bool,
    Str,
    Unit,
    Opt(Box<Ty>),
    List(Box<Ty>),
    Named(usize),
    Verdict(Box<Ty>, Box<Ty>),
}

pub const INT_NAMES: [&str; 8] = ["u8", "u16", "u32", "u64", "i8", "i16", "i32", "i64"];

impl Ty {
    pub fn is_int(&self) -> bool {
        matches!(self, Ty::Int(_))
    }
    pub fn is_float(&self) -> bool {
        matches!(self, Ty::F32 | Ty::F64)
    }
    pub fn is_numeric(&self) -> bool {
        self.is_int() || self.is_float()
    }
    pub fn is_signed_or_float(&self) -> bool {
        matches!(self, Ty::Int(4..=7) | Ty::F32 | Ty::F64)
    }
    pub fn roto(&self) -> String {
        match self {
            Ty::Int(i) => INT_NAMES[*i as usize].to_string(),
            Ty::F32 => "f32".into(),
            Ty::F64 => "f64".into(),
            Ty::Bool => "bool".into(),
            Ty::Str => "String".into(),
            Ty::Unit => "()".into(),
            Ty::Opt(t) => format!("Option[{}]", t.roto()),
            Ty::List(t) => format!("List[{}]", t.roto()),
            Ty::Named(n) => item_path(Id::Ty(*n), None),
            Ty::Verdict(a, r) => format!("Verdict[{}, {}]", a.roto(), r.roto()),
        }
    }
    pub fn sexp(&self) -> String {
        match self {
            Ty::Int(i) => INT_NAMES[*i as usize].to_string(),
            Ty::F32 => "f32".into(),
            Ty::F64 => "f64".into(),
            Ty::Bool => "bool".into(),
            Ty::Str => "str".into(),
            Ty::Unit => "unit".into(),
            Ty::Opt(t) => format!("(opt {})", t.sexp()),
            Ty::List(t) => format!("(list {})", t.sexp()),
            Ty::Named(n) => format!("(t {n})"),
            Ty::Verdict(a, r) => format!("(verdict {} {})", a.sexp(), r.sexp()),
        }
    }
    /// short tag for histograms
    pub fn tag(&self) -> &'static str {
        match self {
            Ty::Int(0..=3) => "uint",
            Ty::Int(_) => "sint",
            Ty::F32 | Ty::F64 => "float",
            Ty::Bool => "bool",
            Ty::Str => "String",
            Ty::Unit => "unit",
            Ty::Opt(_) => "Option",
            Ty::List(_) => "List",
            Ty::Named(_) => "named",
            Ty::Verdict(..) => "Verdict",
        }
    }
}

#[derive(Clone, Copy, Debug, PartialEq)]
pub enum Op {
    Add,
    Sub,
    Mul,
    Div,
    Mod,
    Eq,
    Ne,
    Lt,
    Le,
    Gt,
    Ge,
    And,
    Or,
}

impl Op {
    pub const ALL: [Op; 13] = [
        Op::Add,
        Op::Sub,
        Op::Mul,
        Op::Div,
        Op::Mod,
        Op::Eq,
        Op::Ne,
        Op::Lt,
        Op::Le,
        Op::Gt,
        Op::Ge,
        Op::And,
        Op::Or,
    ];
    pub fn roto(self) -> &'static str {
        match self {
            Op::Add => "+",
            Op::Sub => "-",
            Op::Mul => "*",
            Op::Div => "/",
            Op::Mod => "%",
            Op::Eq => "==",
            Op::Ne => "!=",
            Op::Lt => "<",
            Op::Le => "<=",
            Op::Gt => ">",
            Op::Ge => ">=",
            Op::And => "&&",
            Op::Or => "||",
        }
    }
    pub fn sexp(self) -> &'static str {
        match self {
            Op::Add => "add",
            Op::Sub => "sub",
            Op::Mul => "mul",
            Op::Div => "div",
            Op::Mod => "mod",
            Op::Eq => "eq",
            Op::Ne => "ne",
            Op::Lt => "lt",
            Op::Le => "le",
            Op::Gt => "gt",
            Op::Ge => "ge",
            Op::And => "and",
            Op::Or => "or",
        }
    }
}

/// built-in methods by number (see `Typing.methodSig`); 99 is a name no type has
pub const METHODS: [&str; 15] = [
    "len", "push", "get", "contains", "is_empty", "to_uppercase", "starts_with", "repeat", "replace", "split",
    "strip_prefix", "trim", "concat", "index", "swap",
];

pub fn method_name(m: usize) -> &'static str {
    METHODS.get(m).copied().unwrap_or("no_such_method")
}

#[derive(Clone, Copy, Debug, PartialEq)]
pub enum RetKind {
    Return,
    Accept,
    Reject,
}

#[derive(Clone, Copy, Debug, PartialEq)]
pub enum PatName {
    Some,
    None,
    User(usize),
}

#[derive(Clone, Debug, PartialEq)]
pub enum Pat {
    Wild,
    Variant { name: PatName, binders: Option<Vec<usize>> },
}

#[derive(Clone, Debug, PartialEq)]
pub enum Expr {
    IntLit(u32, Option<u8>),
    FloatLit(Option<bool>),
    BoolLit(bool),
    StrLit,
    UnitLit,
    Var(usize),
    Const(usize),
    Field(Box<Expr>, usize),
    Neg(Box<Expr>),
    Not(Box<Expr>),
    Bin(Op, Box<Expr>, Box<Expr>),
    If(Box<Expr>, Block, Option<Block>),
    While(Box<Expr>, Block),
    For(usize, Box<Expr>, Block),
    BlockE(Block),
    Call(usize, Vec<Expr>),
    /// `e.m(args)` with `m` a built-in method (`METHODS`)
    MCall(Box<Expr>, usize, Vec<Expr>),
    Assign { is_const: bool, x: usize, path: Vec<usize>, e: Box<Expr> },
    CAssign { op: Op, is_const: bool, x: usize, path: Vec<usize>, e: Box<Expr> },
    Ret(RetKind, Option<Box<Expr>>),
    Record(usize, Vec<(usize, Expr)>),
    ListLit(Vec<Expr>),
    Ctor(usize, usize, Vec<Expr>),
    Some(Box<Expr>),
    None,
    Try(Box<Expr>),
    Match(Box<Expr>, Vec<Arm>),
    FStr(Vec<Expr>),
    /// transparent: the generator's note of the type it built this expression at
    Typed(Box<Expr>, Ty),
}

#[derive(Clone, Debug, PartialEq)]
pub struct Arm {
    pub pat: Pat,
    pub guard: Option<Expr>,
    pub body: Block,
}

#[derive(Clone, Debug, PartialEq)]
pub enum Stmt {
    Let(usize, Option<Ty>, Expr),
    Do(Expr),
    /// `import path;` inside a block (packages of several modules only); within
    /// the block the listed items are spelled as given
    Import(Vec<Id>, Vec<(Id, Vec<Id>)>),
}

#[derive(Clone, Debug, PartialEq, Default)]
pub struct Block {
    pub stmts: Vec<Stmt>,
    pub last: Option<Box<Expr>>,
}

#[derive(Clone, Debug, PartialEq)]
pub enum Decl {
    Fn { name: usize, params: Vec<(usize, Ty)>, ret: Ty, body: Block },
    Const { name: usize, ty: Ty, e: Expr },
    Rec { name: usize, fields: Vec<(usize, Ty)> },
    Enum { name: usize, variants: Vec<(usize, Vec<Ty>)> },
}

#[derive(Clone, Debug, PartialEq, Default)]
pub struct Prog {
    pub decls: Vec<Decl>,
}

// ---------------------------------------------------------------- Roto source

fn pat_name(n: PatName) -> String {
    match n {
        PatName::Some => "Some".into(),
        PatName::None => "None".into(),
        PatName::User(k) => format!("K{k}"),
    }
}

fn path_str(is_const: bool, x: usize, path: &[usize]) -> String {
    let mut s = if is_const { item_path(Id::Const(x), None) } else { format!("v{x}") };
    for f in path {
        s.push_str(&format!(".a{f}"));
    }
    s
}

impl Expr {
    fn atomic(&self) -> bool {
        if let Expr::Typed(e, _) = self {
            return e.atomic();
        }
        matches!(
            self,
            Expr::IntLit(..)
                | Expr::FloatLit(_)
                | Expr::BoolLit(_)
                | Expr::StrLit
                | Expr::UnitLit
                | Expr::Var(_)
                | Expr::Const(_)
                | Expr::Call(..)
                | Expr::MCall(..)
                | Expr::ListLit(_)
                | Expr::Ctor(..)
                | Expr::Some(_)
                | Expr::None
        ) || matches!(self, Expr::Field(b, _) if matches!(b.strip(), Expr::Var(_) | Expr::Const(_)))
    }

    /// as an operand / argument: parenthesised unless atomic
    pub fn roto_p(&self) -> String {
        if self.atomic() { self.roto() } else { format!("({})", self.roto()) }
    }

    /// without the generator's type notes on top
    pub fn strip(&self) -> &Expr {
        match self {
            Expr::Typed(e, _) => e.strip(),
            e => e,
        }
    }

    pub fn roto(&self) -> String {
        match self {
            Expr::Typed(e, _) => e.roto(),
            Expr::IntLit(v, None) => format!("{v}"),
            Expr::IntLit(v, Some(t)) => format!("{v}{}", INT_NAMES[*t as usize]),
            Expr::FloatLit(None) => "1.5".into(),
            Expr::FloatLit(Some(false)) => "1.5f32".into(),
            Expr::FloatLit(Some(true)) => "1.5f64".into(),
            Expr::BoolLit(b) => format!("{b}"),
            Expr::StrLit => "\"s\"".into(),
            Expr::UnitLit => "()".into(),
            Expr::Var(x) => format!("v{x}"),
            Expr::Const(c) => item_path(Id::Const(*c), None),
            Expr::Field(e, f) => format!("{}.a{f}", e.roto_p()),
            Expr::Neg(e) => format!("-{}", e.roto_p()),
            Expr::Not(e) => format!("!{}", e.roto_p()),
            Expr::Bin(op, l, r) => format!("{} {} {}", l.roto_p(), op.roto(), r.roto_p()),
            Expr::If(c, t, e) => {
                let mut s = format!("if {} {}", c.roto_p(), t.roto());
                if let Some(e) = e {
                    s.push_str(&format!(" else {}", e.roto()));
                }
                s
            }
            Expr::While(c, b) => format!("while {} {}", c.roto_p(), b.roto()),
            Expr::For(x, e, b) => format!("for v{x} in {} {}", e.roto_p(), b.roto()),
            Expr::BlockE(b) => b.roto(),
            Expr::Call(f, args) => {
                format!("{}({})", item_path(Id::Fn(*f), None), args.iter().map(|a| a.roto()).collect::<Vec<_>>().join(", "))
            }
            Expr::MCall(e, m, args) => format!(
                "{}.{}({})",
                e.roto_p(),
                method_name(*m),
                args.iter().map(|a| a.roto()).collect::<Vec<_>>().join(", ")
            ),
            Expr::Assign { is_const, x, path, e } => {
                format!("{} = {}", path_str(*is_const, *x, path), e.roto_p())
            }
            Expr::CAssign { op, is_const, x, path, e } => {
                format!("{} {}= {}", path_str(*is_const, *x, path), op.roto(), e.roto_p())
            }
            Expr::Ret(k, e) => {
                let kw = match k {
                    RetKind::Return => "return",
                    RetKind::Accept => "accept",
                    RetKind::Reject => "reject",
                };
                match e {
                    Some(e) => format!("{kw} {}", e.roto_p()),
                    None => kw.to_string(),
                }
            }
            Expr::Record(t, fields) => format!(
                "{} {{ {} }}",
                item_path(Id::Ty(*t), None),
                fields.iter().map(|(f, e)| format!("a{f}: {}", e.roto())).collect::<Vec<_>>().join(", ")
            ),
            Expr::ListLit(es) => format!("[{}]", es.iter().map(|e| e.roto()).collect::<Vec<_>>().join(", ")),
            Expr::Ctor(t, k, args) => {
                let head = item_path(Id::Ty(*t), Some(*k));
                if args.is_empty() {
                    head
                } else {
                    format!("{head}({})", args.iter().map(|a| a.roto()).collect::<Vec<_>>().join(", "))
                }
            }
            Expr::Some(e) => format!("Option.Some({})", e.roto()),
            Expr::None => "Option.None".into(),
            Expr::Try(e) => format!("{}?", e.roto_p()),
            Expr::Match(e, arms) => {
                let mut s = format!("match {} {{ ", e.roto_p());
                for a in arms {
                    let p = match &a.pat {
                        Pat::Wild => "_".to_string(),
                        Pat::Variant { name, binders: None } => pat_name(*name),
                        Pat::Variant { name, binders: Some(bs) } => format!(
                            "{}({})",
                            pat_name(*name),
                            bs.iter().map(|b| format!("v{b}")).collect::<Vec<_>>().join(", ")
                        ),
                    };
                    s.push_str(&p);
                    if let Some(g) = &a.guard {
                        s.push_str(&format!(" if {}", g.roto_p()));
                    }
                    s.push_str(&format!(" => {} ", a.body.roto()));
                }
                s.push('}');
                s
            }
            Expr::FStr(parts) => {
                // (always parenthesised: `return f"…"` and `{ f"…" }` do not parse)
                let mut s = "(f\"x".to_string();
                for p in parts {
                    s.push_str(&format!("{{{}}}-", p.roto()));
                }
                s.push_str("\")");
                s
            }
        }
    }

    fn block_like(&self) -> bool {
        matches!(self.strip(), Expr::If(..) | Expr::While(..) | Expr::For(..) | Expr::Match(..))
    }

    pub fn sexp(&self) -> String {
        match self {
            Expr::Typed(e, _) => e.sexp(),
            Expr::IntLit(_, None) => "(int _)".into(),
            Expr::IntLit(_, Some(t)) => format!("(int {})", INT_NAMES[*t as usize]),
            Expr::FloatLit(None) => "(float _)".into(),
            Expr::FloatLit(Some(false)) => "(float f32)".into(),
            Expr::FloatLit(Some(true)) => "(float f64)".into(),
            Expr::BoolLit(_) => "(bool)".into(),
            Expr::StrLit => "(str)".into(),
            Expr::UnitLit => "(unitlit)".into(),
            Expr::Var(x) => format!("(var {x})"),
            Expr::Const(c) => format!("(const {c})"),
            Expr::Field(e, f) => format!("(field {} {f})", e.sexp()),
            Expr::Neg(e) => format!("(neg {})", e.sexp()),
            Expr::Not(e) => format!("(not {})", e.sexp()),
            Expr::Bin(op, l, r) => format!("(bin {} {} {})", op.sexp(), l.sexp(), r.sexp()),
            Expr::If(c, t, None) => format!("(if {} {})", c.sexp(), t.sexp()),
            Expr::If(c, t, Some(e)) => format!("(if {} {} {})", c.sexp(), t.sexp(), e.sexp()),
            Expr::While(c, b) => format!("(while {} {})", c.sexp(), b.sexp()),
            Expr::For(x, e, b) => format!("(for {x} {} {})", e.sexp(), b.sexp()),
            Expr::BlockE(b) => format!("(block {})", b.sexp()),
            Expr::Call(f, args) => format!("(call {f}{})", args.iter().map(|a| format!(" {}", a.sexp())).collect::<String>()),
            Expr::MCall(e, m, args) => format!(
                "(mcall {} {m}{})",
                e.sexp(),
                args.iter().map(|a| format!(" {}", a.sexp())).collect::<String>()
            ),
            Expr::Assign { is_const, x, path, e } => format!(
                "(set {} {x} ({}) {})",
                *is_const as u8,
                path.iter().map(|p| p.to_string()).collect::<Vec<_>>().join(" "),
                e.sexp()
            ),
            Expr::CAssign { op, is_const, x, path, e } => format!(
                "(cset {} {} {x} ({}) {})",
                op.sexp(),
                *is_const as u8,
                path.iter().map(|p| p.to_string()).collect::<Vec<_>>().join(" "),
                e.sexp()
            ),
            Expr::Ret(k, e) => {
                let kw = match k {
                    RetKind::Return => "ret",
                    RetKind::Accept => "accept",
                    RetKind::Reject => "reject",
                };
                match e {
                    Some(e) => format!("(ret {kw} {})", e.sexp()),
                    None => format!("(ret {kw})"),
                }
            }
            Expr::Record(t, fields) => format!(
                "(record {t}{})",
                fields.iter().map(|(f, e)| format!(" ({f} {})", e.sexp())).collect::<String>()
            ),
            Expr::ListLit(es) => format!("(list{})", es.iter().map(|e| format!(" {}", e.sexp())).collect::<String>()),
            Expr::Ctor(t, k, args) => format!("(ctor {t} {k}{})", args.iter().map(|a| format!(" {}", a.sexp())).collect::<String>()),
            Expr::Some(e) => format!("(some {})", e.sexp()),
            Expr::None => "(none)".into(),
            Expr::Try(e) => format!("(try {})", e.sexp()),
            Expr::Match(e, arms) => {
                let mut s = format!("(match {}", e.sexp());
                for a in arms {
                    let p = match &a.pat {
                        Pat::Wild => "_".to_string(),
                        Pat::Variant { name, binders } => {
                            let n = match name {
                                PatName::Some => "some".to_string(),
                                PatName::None => "none".to_string(),
                                PatName::User(k) => k.to_string(),
                            };
                            match binders {
                                None => format!("(p {n} n)"),
                                Some(bs) => format!("(p {n} b{})", bs.iter().map(|b| format!(" {b}")).collect::<String>()),
                            }
                        }
                    };
                    let g = match &a.guard {
                        Some(g) => g.sexp(),
                        None => "_".into(),
                    };
                    s.push_str(&format!(" (arm {p} {g} {})", a.body.sexp()));
                }
                s.push(')');
                s
            }
            Expr::FStr(parts) => format!("(fstr{})", parts.iter().map(|e| format!(" {}", e.sexp())).collect::<String>()),
        }
    }
}

impl Block {
    pub fn roto(&self) -> String {
        // a block with imports is a frame of its own for the uses inside it
        let imports: Vec<Vec<Id>> = self.stmts.iter().filter_map(|s| if let Stmt::Import(p, _) = s { Some(p.clone()) } else { None }).collect();
        let imports_here = !imports.is_empty();
        let imports: Vec<Vec<Id>> = imports.into_iter().filter(|p| !p.is_empty()).collect();
        let framed = imports_here
            && RENDER.with(|r| {
                let mut r = r.borrow_mut();
                match r.as_mut() {
                    Some(c) => {
                        c.frames.push(imports.clone());
                        c.overrides.push(
                            self.stmts.iter().filter_map(|s| if let Stmt::Import(_, o) = s { Some(o.clone()) } else { None }).flatten().collect(),
                        );
                        true
                    }
                    None => false,
                }
            });
        let s = self.roto_inner();
        if framed {
            RENDER.with(|r| {
                if let Some(c) = r.borrow_mut().as_mut() {
                    c.frames.pop();
                    c.overrides.pop();
                }
            });
        }
        s
    }
    fn roto_inner(&self) -> String {
        let mut s = "{ ".to_string();
        for st in &self.stmts {
            match st {
                // (an empty path: only the respellings stay, the import itself was moved away)
                Stmt::Import(p, _) if p.is_empty() => {}
                Stmt::Import(p, _) => s.push_str(&format!("import {}; ", path_roto(p))),
                Stmt::Let(x, None, e) => s.push_str(&format!("let v{x} = {}; ", e.roto())),
                Stmt::Let(x, Some(t), e) => s.push_str(&format!("let v{x}: {} = {}; ", t.roto(), e.roto())),
                // `if`/`match`/`while`/`for` at the start of a statement are parsed as
                // such; the `;` keeps them a statement even before `}`. Anything else
                // that starts with one of them is parenthesised by `roto_p`.
                Stmt::Do(e) if e.block_like() => s.push_str(&format!("{}; ", e.roto())),
                Stmt::Do(e) => s.push_str(&format!("{}; ", stmt_expr(e))),
            }
        }
        if let Some(e) = &self.last {
            if e.block_like() { s.push_str(&e.roto()) } else { s.push_str(&stmt_expr(e)) }
            s.push(' ');
        }
        s.push('}');
        s
    }
    pub fn sexp(&self) -> String {
        let stmts: Vec<String> = self
            .stmts
            .iter()
            .filter(|st| !matches!(st, Stmt::Import(..)))
            .map(|st| match st {
                Stmt::Let(x, None, e) => format!("(let {x} _ {})", e.sexp()),
                Stmt::Let(x, Some(t), e) => format!("(let {x} {} {})", t.sexp(), e.sexp()),
                Stmt::Do(e) => format!("(do {})", e.sexp()),
                Stmt::Import(..) => String::new(),
            })
            .collect();
        match &self.last {
            Some(e) => format!("(blk ({}) {})", stmts.join(" "), e.sexp()),
            None => format!("(blk ({}))", stmts.join(" ")),
        }
    }
}

/// an expression in statement / tail position: it must not *start* with
/// `if`/`match`/`while`/`for`/`{` unless it is exactly that construct
fn stmt_expr(e: &Expr) -> String {
    match e.strip() {
        Expr::BlockE(_) => format!("({})", e.roto()),
        Expr::Bin(..) | Expr::Field(..) | Expr::Try(_) => {
            let s = e.roto();
            if s.starts_with("if ") || s.starts_with("match ") || s.starts_with("while ") || s.starts_with("for ") || s.starts_with('{') {
                format!("({s})")
            } else {
                s
            }
        }
        _ => e.roto(),
    }
}

impl Decl {
    pub fn roto(&self) -> String {
        match self {
            Decl::Fn { name, params, ret, body } => {
                let ps: Vec<String> = params.iter().map(|(x, t)| format!("v{x}: {}", t.roto())).collect();
                let r = if *ret == Ty::Unit { String::new() } else { format!(" -> {}", ret.roto()) };
                format!("fn f{name}({}){r} {}\n", ps.join(", "), body.roto())
            }
            Decl::Const { name, ty, e } => format!("const C{name}: {} = {};\n", ty.roto(), e.roto()),
            Decl::Rec { name, fields } => format!(
                "record T{name} {{ {} }}\n",
                fields.iter().map(|(f, t)| format!("a{f}: {}", t.roto())).collect::<Vec<_>>().join(", ")
            ),
            Decl::Enum { name, variants } => format!(
                "enum T{name} {{ {} }}\n",
                variants
                    .iter()
                    .map(|(k, tys)| if tys.is_empty() {
                        format!("K{k}")
                    } else {
                        format!("K{k}({})", tys.iter().map(|t| t.roto()).collect::<Vec<_>>().join(", "))
                    })
                    .collect::<Vec<_>>()
                    .join(", ")
            ),
        }
    }
    pub fn sexp(&self) -> String {
        match self {
            Decl::Fn { name, params, ret, body } => format!(
                "(fn {name} ({}) {} {})",
                params.iter().map(|(x, t)| format!("({x} {})", t.sexp())).collect::<Vec<_>>().join(" "),
                ret.sexp(),
                body.sexp()
            ),
            Decl::Const { name, ty, e } => format!("(const {name} {} {})", ty.sexp(), e.sexp()),
            Decl::Rec { name, fields } => format!(
                "(rec {name} ({}))",
                fields.iter().map(|(f, t)| format!("({f} {})", t.sexp())).collect::<Vec<_>>().join(" ")
            ),
            Decl::Enum { name, variants } => format!(
                "(enum {name} ({}))",
                variants
                    .iter()
                    .map(|(k, tys)| format!("({k}{})", tys.iter().map(|t| format!(" {}", t.sexp())).collect::<String>()))
                    .collect::<Vec<_>>()
                    .join(" ")
            ),
        }
    }
}

impl Prog {
    pub fn roto(&self) -> String {
        self.decls.iter().map(|d| d.roto()).collect()
    }
    pub fn sexp(&self) -> String {
        format!("(prog {})", self.decls.iter().map(|d| d.sexp()).collect::<Vec<_>>().join(" "))
    }
}
