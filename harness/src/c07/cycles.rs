//! Phase `cyc`: the rule "constants are not recursive" on REFERENCE GRAPHS of
//! every shape, in every traversal order.
//!
//! `find_compilation_order` (src/typechecker/value_cycle.rs) runs Tarjan's
//! algorithm over a `BTreeMap<ResolvedName, BTreeSet<ResolvedName>>`; the order
//! in which it meets the items is the `Ord` order of the interned names
//! (symbol_table: shard of a hash of the spelling, then order of first
//! interning), i.e. it depends on how the items are SPELLED. Whether a defect of
//! the algorithm shows therefore depends on (a) the shape of the strongly
//! connected component a constant lies in (simple cycle, cycle with a chord, a
//! constant hanging off a knot of mutually recursive functions, …) and (b) the
//! rank order of the names. This phase enumerates both:
//!
//! * a worker first PROBES the rank order of a pool of 2 × 32 names (one script
//!   that declares them all; the order is read off the reference-graph dump of
//!   hook `verif_hooks::c14`), so that it can spell the items of a graph in a
//!   way that realises a wanted rank order;
//! * class representatives (seed-independent, run first): every shape of
//!   `SHAPES` × every edge whose removal makes the script well-typed (that edge
//!   is the type-breaking edit) × EVERY rank order of its items;
//! * then random graphs (3‥6 items, random kinds, random spellings, the
//!   reference sitting in a random syntactic position) + one closing edge.
//!
//! Per case: the well-typed base must be accepted by the declarative checker
//! `D` and must compile; the mutant counts only if `D` rejects it
//! (`recursive-constant`) and then must be refused with a type error
//! (`judge_mutant`: the property's oracle). Ties, both scripts: the reference
//! graph the checker collected = the graph generated (names, kinds, edges);
//! `tarjan` / `find_compilation_order` of the real code = the Lean model
//! `Tarjan.findCompilationOrder` on that graph (request `c07 cyc`), the real
//! components pass the verified certificate checker, the documented rule on the
//! graph (`TcValueCycle.ruleRejects`) agrees with `D` on the script; and the
//! inference model `TcInfer.checkProgM` agrees with the checker.

use super::ast::*;
use crate::{Outcome, compile, judge_mutant};
use roto::verif_hooks::c07::typecheck_only;
use roto::verif_hooks::c14::{NodeKind, take_dump};
use roto::{FileTree, NoCtx, Runtime};
use rotov_harness::driver::Driver;
use rotov_harness::{Prng, Report};
use serde_json::{Value, json};
use std::panic::{AssertUnwindSafe, catch_unwind};

pub const POOL: usize = 32;
const I32: Ty = Ty::Int(6);

/// (name, kinds: `c` constant / `f` function, edges of the CYCLIC graph)
pub const SHAPES: &[(&str, &str, &[(usize, usize)])] = &[
    ("self", "c", &[(0, 0)]),
    ("two-constants", "cc", &[(0, 1), (1, 0)]),
    ("through-function", "cf", &[(0, 1), (1, 0)]),
    ("triangle", "cff", &[(0, 1), (1, 2), (2, 0)]),
    ("triangle-of-constants", "ccc", &[(0, 1), (1, 2), (2, 0)]),
    // a constant hanging off two mutually recursive functions (not a simple cycle)
    ("knot-out-in-other", "ffc", &[(0, 1), (1, 0), (0, 2), (2, 1)]),
    ("knot-out-in-same", "ffc", &[(0, 1), (1, 0), (0, 2), (2, 0)]),
    ("knot-self-loop", "fc", &[(0, 0), (0, 1), (1, 0)]),
    ("chord", "cff", &[(0, 1), (1, 2), (2, 0), (1, 0)]),
    ("diamond", "cfff", &[(0, 1), (0, 2), (1, 3), (2, 3), (3, 0)]),
    ("function-triangle-and-constant", "fffc", &[(0, 1), (1, 2), (2, 0), (2, 3), (3, 1)]),
    ("two-constants-off-a-knot", "ffcc", &[(0, 1), (1, 0), (0, 2), (2, 3), (3, 1)]),
    ("constant-between-two-knots", "ffcff", &[(0, 1), (1, 0), (1, 2), (2, 3), (3, 4), (4, 3), (4, 0)]),
    ("tail-into-cycle", "fcf", &[(0, 1), (1, 2), (2, 1)]),
    ("two-knots", "ffffc", &[(0, 1), (1, 0), (2, 3), (3, 2), (1, 2), (3, 4), (4, 0)]),
];

#[derive(Clone, Debug)]
pub struct Spec {
    /// per node: is it a constant?
    pub consts: Vec<bool>,
    /// per node: the number in its spelling (`C<n>` / `f<n>`)
    pub nums: Vec<usize>,
    /// (from, to, syntactic position of the reference)
    pub edges: Vec<(usize, usize, u8)>,
    /// source order of the declarations
    pub order: Vec<usize>,
}

pub const POSITIONS: u8 = 6;

impl Spec {
    fn reference(&self, from: usize, to: usize, pos: u8) -> Expr {
        let lit = |v: u32| Expr::IntLit(v, Some(6));
        let r = if self.consts[to] {
            Expr::Const(self.nums[to])
        } else {
            let arg = if self.consts[from] { lit(1) } else { Expr::Bin(Op::Sub, Box::new(Expr::Var(0)), Box::new(lit(1))) };
            Expr::Call(self.nums[to], vec![arg])
        };
        let blk = |e: Expr| Block { stmts: vec![], last: Some(Box::new(e)) };
        match pos % POSITIONS {
            0 => r,
            // in a condition
            1 => Expr::If(Box::new(Expr::Bin(Op::Eq, Box::new(r), Box::new(lit(0)))), blk(lit(1)), Some(blk(lit(2)))),
            // initialiser of a `let` in a nested block
            2 => Expr::BlockE(Block { stmts: vec![Stmt::Let(7, None, r)], last: Some(Box::new(Expr::Var(7))) }),
            // operand of unary minus
            3 => Expr::Neg(Box::new(r)),
            // guard of a match arm
            4 => Expr::Match(
                Box::new(Expr::Some(Box::new(lit(1)))),
                vec![
                    Arm {
                        pat: Pat::Variant { name: PatName::Some, binders: Some(vec![8]) },
                        guard: Some(Expr::Bin(Op::Eq, Box::new(r), Box::new(Expr::Var(8)))),
                        body: blk(lit(1)),
                    },
                    Arm { pat: Pat::Wild, guard: None, body: blk(lit(2)) },
                ],
            ),
            // body of a loop that is never entered
            _ => Expr::BlockE(Block {
                stmts: vec![Stmt::Do(Expr::While(
                    Box::new(Expr::BoolLit(false)),
                    Block { stmts: vec![Stmt::Let(9, Some(I32), r)], last: None },
                ))],
                last: Some(Box::new(lit(3))),
            }),
        }
    }

    /// the script: every function takes a fuel argument so that evaluating a
    /// constant at compile time terminates whatever the functions call
    pub fn prog(&self) -> Prog {
        let lit = |v: u32| Expr::IntLit(v, Some(6));
        let mut decls = Vec::new();
        for &i in &self.order {
            let mut sum = lit(0);
            for &(from, to, pos) in &self.edges {
                if from == i {
                    sum = Expr::Bin(Op::Add, Box::new(sum), Box::new(self.reference(from, to, pos)));
                }
            }
            if self.consts[i] {
                decls.push(Decl::Const { name: self.nums[i], ty: I32, e: sum });
            } else {
                let body = Expr::If(
                    Box::new(Expr::Bin(Op::Le, Box::new(Expr::Var(0)), Box::new(lit(0)))),
                    Block { stmts: vec![], last: Some(Box::new(lit(0))) },
                    Some(Block { stmts: vec![], last: Some(Box::new(sum)) }),
                );
                decls.push(Decl::Fn {
                    name: self.nums[i],
                    params: vec![(0, I32)],
                    ret: I32,
                    body: Block { stmts: vec![], last: Some(Box::new(body)) },
                });
            }
        }
        Prog { decls }
    }

    pub fn name(&self, i: usize) -> String {
        if self.consts[i] { format!("C{}", self.nums[i]) } else { format!("f{}", self.nums[i]) }
    }

    fn reach(&self, from: usize) -> Vec<bool> {
        // nodes reachable from `from` by at least one edge
        let n = self.consts.len();
        let mut seen = vec![false; n];
        let mut todo: Vec<usize> = self.edges.iter().filter(|e| e.0 == from).map(|e| e.1).collect();
        while let Some(x) = todo.pop() {
            if !seen[x] {
                seen[x] = true;
                todo.extend(self.edges.iter().filter(|e| e.0 == x).map(|e| e.1));
            }
        }
        seen
    }

    /// the documented rule: some constant refers (transitively) to itself
    pub fn const_on_cycle(&self) -> bool {
        (0..self.consts.len()).any(|c| self.consts[c] && self.reach(c)[c])
    }
}

/// the rank order of the pool's names in this process: ascending `Ord` of
/// `ResolvedName`, as (is constant, number)
pub struct Ranks {
    pub sorted: Vec<(bool, usize)>,
}

fn parse_item(full: &str) -> Option<(bool, usize)> {
    let last = full.rsplit('.').next().unwrap_or(full);
    if let Some(n) = last.strip_prefix('C') {
        return n.parse().ok().map(|n| (true, n));
    }
    if let Some(n) = last.strip_prefix('f') {
        return n.parse().ok().map(|n| (false, n));
    }
    None
}

pub fn probe_ranks(rt: &Runtime<NoCtx>) -> Option<Ranks> {
    let mut src = String::new();
    for n in 0..POOL {
        src.push_str(&format!("fn f{n}(v0: i32) -> i32 {{ v0 }}\nconst C{n}: i32 = 0i32;\n"));
    }
    let _ = take_dump();
    let ok = catch_unwind(AssertUnwindSafe(|| typecheck_only(FileTree::test_file("c07.roto", &src, 0), rt).is_ok())).unwrap_or(false);
    if !ok {
        return None;
    }
    let dump = take_dump()?;
    let sorted: Vec<(bool, usize)> = dump.nodes.iter().filter_map(|n| parse_item(&n.name)).collect();
    if sorted.len() != 2 * POOL {
        return None;
    }
    Some(Ranks { sorted })
}

impl Ranks {
    /// spell the nodes so that `by_rank[0] < by_rank[1] < …` in the checker's
    /// name order (`by_rank` lists node ids); `skip` varies the choice
    pub fn realise(&self, consts: &[bool], by_rank: &[usize], skip: usize) -> Option<Vec<usize>> {
        let mut nums = vec![usize::MAX; consts.len()];
        let mut at = skip.min(self.sorted.len() / 8);
        for &node in by_rank {
            loop {
                let (is_c, n) = *self.sorted.get(at)?;
                at += 1;
                if is_c == consts[node] {
                    nums[node] = n;
                    break;
                }
            }
        }
        Some(nums)
    }
    fn rank_of(&self, item: (bool, usize)) -> usize {
        self.sorted.iter().position(|x| *x == item).unwrap_or(usize::MAX)
    }
}

/// the `k`-th permutation of `0..n` (factorial number system)
pub fn nth_permutation(n: usize, mut k: usize) -> Vec<usize> {
    let mut items: Vec<usize> = (0..n).collect();
    let mut out = Vec::new();
    for i in (1..=n).rev() {
        let f: usize = (1..i).product();
        out.push(items.remove((k / f) % i));
        k %= f;
    }
    out
}

fn factorial(n: usize) -> usize {
    (1..=n).product()
}

/// the representatives: (shape, removed edge, rank permutation)
pub fn rep_table() -> Vec<(usize, usize, usize)> {
    let mut t = Vec::new();
    for (si, (_, kinds, edges)) in SHAPES.iter().enumerate() {
        let consts: Vec<bool> = kinds.chars().map(|c| c == 'c').collect();
        for ei in 0..edges.len() {
            let base = Spec {
                consts: consts.clone(),
                nums: (0..consts.len()).collect(),
                edges: edges.iter().enumerate().filter(|(j, _)| *j != ei).map(|(_, e)| (e.0, e.1, 0)).collect(),
                order: (0..consts.len()).collect(),
            };
            if base.const_on_cycle() {
                continue; // removing this edge does not make the script well-typed
            }
            for p in 0..factorial(consts.len()) {
                t.push((si, ei, p));
            }
        }
    }
    t
}

pub struct Case {
    pub what: String,
    pub base: Spec,
    pub mutant: Spec,
    pub detail: String,
}

pub fn rep_case(ranks: &Ranks, index: usize) -> Option<Case> {
    let table = rep_table();
    let (si, ei, p) = *table.get(index)?;
    let (name, kinds, edges) = SHAPES[si];
    let consts: Vec<bool> = kinds.chars().map(|c| c == 'c').collect();
    let n = consts.len();
    let by_rank = nth_permutation(n, p);
    let nums = ranks.realise(&consts, &by_rank, index % 3)?;
    // source order of the declarations: rotated with the index
    let order: Vec<usize> = (0..n).map(|i| (i + index) % n).collect();
    let all: Vec<(usize, usize, u8)> = edges.iter().enumerate().map(|(j, e)| (e.0, e.1, ((index + j) % POSITIONS as usize) as u8)).collect();
    let mutant = Spec { consts: consts.clone(), nums: nums.clone(), edges: all.clone(), order: order.clone() };
    let base = Spec { consts, nums, edges: all.iter().enumerate().filter(|(j, _)| *j != ei).map(|(_, e)| *e).collect(), order };
    let rank_s: String = by_rank.iter().map(|i| i.to_string()).collect::<Vec<_>>().join("<");
    Some(Case {
        what: format!("{name}:edge{ei}:{rank_s}"),
        detail: format!("shape {name}: reference {}→{} added; rank order of the items {rank_s}", mutant.name(edges[ei].0), mutant.name(edges[ei].1)),
        base,
        mutant,
    })
}

pub fn random_case(ranks: &Ranks, seed: u64, index: u64) -> Option<Case> {
    let mut p = Prng::for_case(seed ^ 0xC7C1, index);
    let n = 3 + p.below(4) as usize;
    let mut consts: Vec<bool> = (0..n).map(|_| p.chance(2, 5)).collect();
    if !consts.iter().any(|c| *c) {
        consts[p.below(n as u64) as usize] = true;
    }
    // distinct spellings
    let mut nums = Vec::new();
    for i in 0..n {
        loop {
            let k = p.below(POOL as u64) as usize;
            if !(0..i).any(|j| consts[j] == consts[i] && nums[j] == k) {
                nums.push(k);
                break;
            }
        }
    }
    let dens = 1 + p.below(3);
    let mut edges: Vec<(usize, usize, u8)> = Vec::new();
    for a in 0..n {
        for b in 0..n {
            if p.chance(dens, 5) {
                edges.push((a, b, p.below(POSITIONS as u64) as u8));
            }
        }
    }
    let mut order: Vec<usize> = (0..n).collect();
    for i in (1..n).rev() {
        order.swap(i, p.below(i as u64 + 1) as usize);
    }
    let mut base = Spec { consts, nums, edges, order };
    // make it well-typed: drop references until no constant is on a cycle
    while base.const_on_cycle() {
        let cands: Vec<usize> = (0..base.edges.len())
            .filter(|&j| {
                let (a, b, _) = base.edges[j];
                (0..n).any(|c| base.consts[c] && (c == a || base.reach(c)[a]) && (b == c || base.reach(b)[c]))
            })
            .collect();
        let j = *p.pick(&cands);
        base.edges.remove(j);
    }
    // the edit: one reference that closes a cycle through a constant
    let cs: Vec<usize> = (0..n).filter(|i| base.consts[*i]).collect();
    let c = *p.pick(&cs);
    let reach = base.reach(c);
    let mut from: Vec<usize> = (0..n).filter(|i| reach[*i]).collect();
    from.push(c);
    let u = *p.pick(&from);
    let mut mutant = base.clone();
    mutant.edges.push((u, c, p.below(POSITIONS as u64) as u8));
    // size of the strongly connected component of c in the mutant, and whether it is a simple cycle
    let rm = mutant.reach(c);
    let scc: Vec<usize> = (0..n).filter(|&x| x == c || (rm[x] && mutant.reach(x)[c])).collect();
    let inner = mutant.edges.iter().filter(|e| scc.contains(&e.0) && scc.contains(&e.1)).count();
    let shape = if inner == scc.len() { "simple" } else { "knot" };
    let mut ranked: Vec<usize> = scc.clone();
    ranked.sort_by_key(|&i| ranks.rank_of((mutant.consts[i], mutant.nums[i])));
    let first = if mutant.consts[ranked[0]] { "const-first" } else { "fn-first" };
    Some(Case {
        what: format!("random:{shape}:scc{}:{first}", scc.len()),
        detail: format!("random graph of {n} items: reference {}→{} closes a cycle through the constant", mutant.name(u), mutant.name(c)),
        base,
        mutant,
    })
}

fn cyc_request(kinds: &str, edges: &[(usize, Vec<usize>)]) -> String {
    let es = if edges.is_empty() {
        "-".to_string()
    } else {
        edges.iter().map(|(k, ts)| format!("{k}:{}", ts.iter().map(|t| t.to_string()).collect::<Vec<_>>().join(","))).collect::<Vec<_>>().join(";")
    };
    format!("c07 cyc {kinds} {es}")
}

fn field<'a>(answer: &'a str, key: &str) -> &'a str {
    answer.split(' ').find_map(|f| f.strip_prefix(key)).unwrap_or("?")
}

/// the ties on one script: collected graph = generated graph; real `tarjan` /
/// `find_compilation_order` = the Lean model on the collected graph
fn tie(rt: &Runtime<NoCtx>, drv: &mut Driver, spec: &Spec, what: &str, role: &str, d_rejects: Option<bool>, rep: &mut Report) {
    let prog = spec.prog();
    let src = prog.roto();
    let _ = take_dump();
    let real = compile(rt, &src, false);
    let Some(dump) = take_dump() else {
        rep.hist("cyc-tie", format!("{role}:no-dump"));
        return;
    };
    rep.evaluations += 1;
    let input = json!({"phase": "cyc", "what": what, "role": role, "src": src, "sexp": prog.sexp()});
    // (1) the collected graph, restricted to the script's items, by name
    let items: Vec<Option<(bool, usize)>> = dump.nodes.iter().map(|n| parse_item(&n.name)).collect();
    let mut got: Vec<(String, String)> = Vec::new();
    for (k, ts) in &dump.edges {
        for t in ts {
            if let (Some(a), Some(b)) = (items.get(*k).copied().flatten(), items.get(*t).copied().flatten()) {
                let nm = |x: (bool, usize)| if x.0 { format!("C{}", x.1) } else { format!("f{}", x.1) };
                got.push((nm(a), nm(b)));
            }
        }
    }
    let mut want: Vec<(String, String)> = spec.edges.iter().map(|e| (spec.name(e.0), spec.name(e.1))).collect();
    got.sort();
    got.dedup();
    want.sort();
    want.dedup();
    let kinds_ok = (0..spec.consts.len()).all(|i| {
        dump.nodes.iter().any(|n| {
            parse_item(&n.name) == Some((spec.consts[i], spec.nums[i]))
                && n.kind == if spec.consts[i] { NodeKind::Constant } else { NodeKind::Function }
        })
    });
    if got != want || !kinds_ok {
        rep.mismatch(
            &format!("the reference graph the type checker collected differs from the references the script contains: collected {got:?}, written {want:?}"),
            input.clone(),
        );
    }
    // (2) the algorithm: real components / outcome against the model on the same graph
    let kinds: String = dump
        .nodes
        .iter()
        .map(|n| match n.kind {
            NodeKind::Constant => 'c',
            NodeKind::Function => 'f',
            NodeKind::Context => 'x',
            NodeKind::Other => 'o',
        })
        .collect();
    let answer = drv.ask(&cyc_request(&kinds, &dump.edges));
    let real_comps = dump.components.iter().map(|c| c.iter().map(|x| x.to_string()).collect::<Vec<_>>().join(",")).collect::<Vec<_>>().join(";");
    let real_out = match &dump.order {
        Ok(o) => format!("ord:{}", o.iter().map(|x| x.to_string()).collect::<Vec<_>>().join(",")),
        Err(d) if d.contains("recursive") => "rec".to_string(),
        Err(d) if d.contains("context") => "ctx".to_string(),
        Err(d) => format!("err:{d}"),
    };
    let model_out = field(&answer, "out=");
    let model_out_cmp = if model_out.starts_with("rec:") { "rec" } else if model_out.starts_with("ctx:") { "ctx" } else { model_out };
    if field(&answer, "comps=") != real_comps || model_out_cmp != real_out {
        rep.mismatch(
            &format!(
                "tarjan / find_compilation_order of the type checker and the model of value_cycle.rs disagree on the collected graph: real comps={real_comps} out={real_out}; model {answer}"
            ),
            input.clone(),
        );
    }
    // the real components must pass the verified certificate checker (reverse topological, complete)
    let cert = drv.ask(&format!(
        "{} {}",
        cyc_request(&kinds, &dump.edges).replacen("c07 cyc", "c07 cyccert", 1),
        if real_comps.is_empty() { "-".to_string() } else { real_comps.clone() }
    ));
    if cert != "valid=1" {
        rep.mismatch(&format!("the components computed by the type checker's tarjan are not a reverse topological partition ({cert})"), input.clone());
    }
    // (3) the documented rule on the graph against D on the script, and against the real verdict
    let rule = field(&answer, "rule=") == "1";
    if let Some(d) = d_rejects {
        if d != rule {
            rep.mismatch(
                &format!("the documented rule on the collected reference graph (`{answer}`) and the declarative checker on the script disagree (D rejects: {d})"),
                input.clone(),
            );
        }
    }
    let verdict = match real {
        Outcome::Ok => "ok",
        Outcome::TypeError(_) => "type-error",
        Outcome::Other(..) => "other",
        Outcome::Panic(_) => "panic",
    };
    rep.class(format!("cyc:{what}:{role}:{verdict}"));
    rep.hist("cyc", format!("{role}:{}:{verdict}", what.split(':').next().unwrap_or("")));
}

pub fn cyc_case(rt: &Runtime<NoCtx>, drv: &mut Driver, ranks: &Option<Ranks>, seed: u64, index: u64, random: bool, rep: &mut Report) {
    let Some(ranks) = ranks else {
        rep.mismatch("phase cyc: the rank order of the name pool could not be probed (hook verif_hooks::c14 dump missing)", json!({"phase": "cyc", "index": index}));
        return;
    };
    if !random && index as usize >= rep_table().len() {
        return;
    }
    let case = if random { random_case(ranks, seed, index) } else { rep_case(ranks, index as usize) };
    let Some(case) = case else {
        rep.hist("cyc", "rank-order-not-realisable-with-the-pool");
        return;
    };
    let base = case.base.prog();
    let bsrc = base.roto();
    let d_base = drv.ask(&format!("c07 prog {}", base.sexp()));
    if d_base != "ok" {
        rep.hist("cyc", format!("generator-slip:{d_base}"));
        if rep.notes.len() < 6 {
            rep.notes.push(format!("cyc: generator slip (D says `{d_base}`) {}", case.what));
        }
        return;
    }
    match compile(rt, &bsrc, true) {
        Outcome::Ok => {}
        Outcome::TypeError(line) => {
            rep.mismatch(
                "a well-typed script (no constant refers to itself; accepted by the declarative checker) is rejected by the type checker",
                json!({"phase": "cyc", "what": case.what, "error": line, "src": bsrc, "sexp": base.sexp()}),
            );
            return;
        }
        other => {
            rep.hist("cyc", format!("base-not-compiled:{}", match other { Outcome::Panic(_) => "panic", _ => "other-stage" }));
            if rep.notes.len() < 6 {
                rep.notes.push(format!("cyc: base script did not compile ({other:?}) {}", case.what));
            }
            return;
        }
    }
    tie(rt, drv, &case.base, &case.what, "base", Some(false), rep);
    super::infer::compare(rt, drv, &format!("cyc-base:{}", case.what.split(':').next().unwrap_or("")), &bsrc, &base.sexp(), json!({"cyc": case.what}), rep);
    // the type-breaking edit: one more reference, closing a cycle through a constant
    let m = case.mutant.prog();
    let msrc = m.roto();
    let d_mut = drv.ask(&format!("c07 prog {}", m.sexp()));
    let Some(rule) = d_mut.strip_prefix("err ") else {
        rep.hist("cyc", format!("not-counted:{d_mut}"));
        return;
    };
    tie(rt, drv, &case.mutant, &case.what, "mutant", Some(true), rep);
    super::infer::compare(rt, drv, &format!("cyc-mutant:{}", case.what.split(':').next().unwrap_or("")), &msrc, &m.sexp(), json!({"cyc": case.what, "kind": "value-cycle"}), rep);
    let input: Value = json!({
        "seed": seed, "index": index, "kind": "value-cycle", "detail": case.detail, "rule": rule, "what": case.what,
        "src": msrc, "sexp": m.sexp(), "original": bsrc,
    });
    judge_mutant(rt, &msrc, "value-cycle", rule, input, rep);
}

// ------------------------------------------------------------------ type cycles
//
// The sibling rule "types are not recursive" (src/typechecker/type_cycle.rs: a
// depth-first search with temporary / permanent marks over a HashMap, so the
// order of the walk differs from compile to compile): the same enumeration —
// every shape of cycle between type declarations x every way a type can
// mention another (directly, as the argument of Option / List / Verdict, nested)
// x the closing mention as the type-breaking edit, with decoy fields that make
// the search meet an already explored type (or generic) first.

/// how a field mentions its target
pub const WRAPPERS: u8 = 6;

fn wrap(w: u8, t: Ty) -> Ty {
    match w % WRAPPERS {
        0 => t,
        1 => Ty::Opt(Box::new(t)),
        2 => Ty::List(Box::new(t)),
        3 => Ty::Opt(Box::new(Ty::List(Box::new(t)))),
        4 => Ty::Verdict(Box::new(I32), Box::new(t)),
        _ => Ty::List(Box::new(Ty::Verdict(Box::new(Ty::Opt(Box::new(t))), Box::new(Ty::Bool)))),
    }
}

/// (name, number of types, mentions (from, to | 9 = a scalar, wrapper)); the
/// wrappers of the mentions between types are varied on top of the given one
pub const TSHAPES: &[(&str, usize, &[(usize, usize, u8)])] = &[
    ("t-self", 1, &[(0, 0, 0)]),
    ("t-self-after-explored-generic", 1, &[(0, 9, 1), (0, 9, 2), (0, 9, 4), (0, 0, 1)]),
    ("t-two", 2, &[(0, 1, 0), (1, 0, 0)]),
    ("t-two-after-explored-generic", 2, &[(0, 9, 1), (0, 1, 0), (1, 9, 2), (1, 0, 1)]),
    ("t-three", 3, &[(0, 1, 0), (1, 2, 1), (2, 0, 2)]),
    ("t-diamond", 4, &[(0, 1, 0), (0, 2, 1), (1, 3, 2), (2, 3, 0), (3, 0, 3)]),
    ("t-shared-then-cycle", 3, &[(0, 2, 0), (1, 2, 1), (2, 9, 1), (1, 0, 0), (0, 1, 4)]),
    ("t-mention-twice", 2, &[(0, 1, 1), (0, 1, 2), (1, 0, 5)]),
];

#[derive(Clone, Debug)]
pub struct TSpec {
    /// per type: an enum (else a record)
    pub enums: Vec<bool>,
    pub nums: Vec<usize>,
    pub mentions: Vec<(usize, usize, u8)>,
    pub order: Vec<usize>,
}

impl TSpec {
    pub fn prog(&self) -> Prog {
        let mut decls = Vec::new();
        for &i in &self.order {
            let mut fields: Vec<(usize, Ty)> = Vec::new();
            for (k, &(from, to, w)) in self.mentions.iter().enumerate() {
                if from == i {
                    let target = if to == 9 { I32 } else { Ty::Named(self.nums[to]) };
                    fields.push((k, wrap(w, target)));
                }
            }
            if fields.is_empty() {
                fields.push((90, I32));
            }
            if self.enums[i] {
                let mut variants: Vec<(usize, Vec<Ty>)> = fields.into_iter().map(|(k, t)| (k, vec![t])).collect();
                variants.push((91, vec![]));
                decls.push(Decl::Enum { name: self.nums[i], variants });
            } else {
                decls.push(Decl::Rec { name: self.nums[i], fields });
            }
        }
        decls.push(Decl::Fn {
            name: 0,
            params: vec![],
            ret: I32,
            body: Block { stmts: vec![], last: Some(Box::new(Expr::IntLit(0, Some(6)))) },
        });
        Prog { decls }
    }

    pub fn cyclic(&self) -> bool {
        let n = self.enums.len();
        (0..n).any(|s| {
            let mut seen = vec![false; n];
            let mut todo: Vec<usize> = self.mentions.iter().filter(|m| m.0 == s && m.1 != 9).map(|m| m.1).collect();
            while let Some(x) = todo.pop() {
                if !seen[x] {
                    seen[x] = true;
                    todo.extend(self.mentions.iter().filter(|m| m.0 == x && m.1 != 9).map(|m| m.1));
                }
            }
            seen[s]
        })
    }
}

/// (shape, removed mention, variation 0..WRAPPERS*2)
pub fn trep_table() -> Vec<(usize, usize, usize)> {
    let mut t = Vec::new();
    for (si, (_, n, ms)) in TSHAPES.iter().enumerate() {
        for mi in 0..ms.len() {
            if ms[mi].1 == 9 {
                continue;
            }
            let base = TSpec {
                enums: vec![false; *n],
                nums: (0..*n).collect(),
                mentions: ms.iter().enumerate().filter(|(j, _)| *j != mi).map(|(_, m)| *m).collect(),
                order: (0..*n).collect(),
            };
            if base.cyclic() {
                continue;
            }
            for v in 0..(WRAPPERS as usize * 2) {
                t.push((si, mi, v));
            }
        }
    }
    t
}

pub struct TCase {
    pub what: String,
    pub base: TSpec,
    pub mutant: TSpec,
    pub detail: String,
}

pub fn trep_case(index: usize) -> Option<TCase> {
    let (si, mi, v) = *trep_table().get(index)?;
    let (name, n, ms) = TSHAPES[si];
    // variation: the closing mention takes every wrapper; kinds and source order alternate
    let enums: Vec<bool> = (0..n).map(|i| (i + v / WRAPPERS as usize) % 2 == 1).collect();
    let nums: Vec<usize> = (0..n).map(|i| (i * 7 + index) % POOL).collect();
    let mut nums_d = nums.clone();
    for i in 0..n {
        while (0..i).any(|j| nums_d[j] == nums_d[i]) {
            nums_d[i] = (nums_d[i] + 1) % POOL;
        }
    }
    let order: Vec<usize> = (0..n).map(|i| (i + index) % n).collect();
    let all: Vec<(usize, usize, u8)> =
        ms.iter().enumerate().map(|(j, m)| (m.0, m.1, if j == mi { (v % WRAPPERS as usize) as u8 } else { m.2 })).collect();
    let mutant = TSpec { enums: enums.clone(), nums: nums_d.clone(), mentions: all.clone(), order: order.clone() };
    let base = TSpec { enums, nums: nums_d, mentions: all.iter().enumerate().filter(|(j, _)| *j != mi).map(|(_, m)| *m).collect(), order };
    Some(TCase {
        what: format!("{name}:mention{mi}:w{}:{}", v % WRAPPERS as usize, if v >= WRAPPERS as usize { "enum-first" } else { "record-first" }),
        detail: format!("shape {name}: T{} mentions T{} (wrapper {})", mutant.nums[ms[mi].0], mutant.nums[ms[mi].1], v % WRAPPERS as usize),
        base,
        mutant,
    })
}

pub fn trandom_case(seed: u64, index: u64) -> Option<TCase> {
    let mut p = Prng::for_case(seed ^ 0x7C7C, index);
    let n = 2 + p.below(4) as usize;
    let enums: Vec<bool> = (0..n).map(|_| p.chance(1, 2)).collect();
    let mut nums: Vec<usize> = Vec::new();
    for _ in 0..n {
        loop {
            let k = p.below(POOL as u64) as usize;
            if !nums.contains(&k) {
                nums.push(k);
                break;
            }
        }
    }
    // an acyclic base: mentions only from a type to one later in a random order, plus decoys
    let mut topo: Vec<usize> = (0..n).collect();
    for i in (1..n).rev() {
        topo.swap(i, p.below(i as u64 + 1) as usize);
    }
    let mut mentions = Vec::new();
    for a in 0..n {
        for b in a + 1..n {
            if p.chance(2, 5) {
                mentions.push((topo[a], topo[b], p.below(WRAPPERS as u64) as u8));
            }
        }
        if p.chance(1, 2) {
            mentions.push((topo[a], 9, 1 + p.below(WRAPPERS as u64 - 1) as u8));
        }
    }
    for i in (1..mentions.len()).rev() {
        mentions.swap(i, p.below(i as u64 + 1) as usize);
    }
    let mut order: Vec<usize> = (0..n).collect();
    for i in (1..n).rev() {
        order.swap(i, p.below(i as u64 + 1) as usize);
    }
    let base = TSpec { enums, nums, mentions, order };
    // the edit: a mention from a type to one at or before it in the order
    let b = p.below(n as u64) as usize;
    let a = p.below(b as u64 + 1) as usize;
    let (from, to) = (topo[b], topo[a]);
    // it closes a cycle only if `to` reaches `from` (or they are the same type)
    let mut mutant = base.clone();
    let w = p.below(WRAPPERS as u64) as u8;
    let at = p.below(mutant.mentions.len() as u64 + 1) as usize;
    mutant.mentions.insert(at, (from, to, w));
    if !mutant.cyclic() {
        return None;
    }
    Some(TCase {
        what: format!("t-random:{}:w{w}", if from == to { "self" } else { "through-others" }),
        detail: format!("random type declarations: T{} mentions T{} (wrapper {w})", mutant.nums[from], mutant.nums[to]),
        base,
        mutant,
    })
}

pub fn tcyc_case(rt: &Runtime<NoCtx>, drv: &mut Driver, seed: u64, index: u64, random: bool, rep: &mut Report) {
    let case = if random { trandom_case(seed, index) } else { trep_case(index as usize) };
    let Some(case) = case else {
        rep.hist("tcyc", "edit-closes-no-cycle");
        return;
    };
    let shape = case.what.split(':').next().unwrap_or("").to_string();
    let base = case.base.prog();
    let bsrc = base.roto();
    let d_base = drv.ask(&format!("c07 prog {}", base.sexp()));
    if d_base != "ok" {
        rep.hist("tcyc", format!("generator-slip:{d_base}"));
        if rep.notes.len() < 6 {
            rep.notes.push(format!("tcyc: generator slip (D says `{d_base}`) {}", case.what));
        }
        return;
    }
    // the walk order differs from compile to compile (HashMap): compile the well-typed base a few times
    for _ in 0..3 {
        match compile(rt, &bsrc, true) {
            Outcome::Ok => {}
            Outcome::TypeError(line) => {
                rep.mismatch(
                    "a well-typed script (no type mentions itself; accepted by the declarative checker) is rejected by the type checker",
                    json!({"phase": "tcyc", "what": case.what, "error": line, "src": bsrc, "sexp": base.sexp()}),
                );
                return;
            }
            other => {
                rep.hist("tcyc", format!("base-not-compiled:{}", match other { Outcome::Panic(_) => "panic", _ => "other-stage" }));
                if rep.notes.len() < 6 {
                    rep.notes.push(format!("tcyc: base script did not compile ({other:?}) {}", case.what));
                }
                return;
            }
        }
    }
    rep.hist("tcyc", format!("base:{shape}:ok"));
    super::infer::compare(rt, drv, &format!("tcyc-base:{shape}"), &bsrc, &base.sexp(), json!({"tcyc": case.what}), rep);
    let m = case.mutant.prog();
    let msrc = m.roto();
    let d_mut = drv.ask(&format!("c07 prog {}", m.sexp()));
    let Some(rule) = d_mut.strip_prefix("err ") else {
        rep.hist("tcyc", format!("not-counted:{d_mut}"));
        return;
    };
    super::infer::compare(rt, drv, &format!("tcyc-mutant:{shape}"), &msrc, &m.sexp(), json!({"tcyc": case.what, "kind": "type-cycle"}), rep);
    let input: Value = json!({
        "seed": seed, "index": index, "kind": "type-cycle", "detail": case.detail, "rule": rule, "what": case.what,
        "src": msrc, "sexp": m.sexp(), "original": bsrc,
    });
    // three compiles: three (in general different) walk orders
    for _ in 0..3 {
        judge_mutant(rt, &msrc, "type-cycle", rule, input.clone(), rep);
    }
    rep.class(format!("tcyc:{}", case.what));
}
