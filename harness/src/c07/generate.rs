//! Type-directed generator of well-typed programs of the core language
//! (every type is known by construction; annotations and literal suffixes are
//! printed only sometimes, so the real checker has to infer the rest).

use super::ast::*;
use rotov_harness::Prng;

#[derive(Clone, Debug)]
pub enum TypeDef {
    Rec(Vec<(usize, Ty)>),
    Enum(Vec<(usize, Vec<Ty>)>),
}

#[derive(Clone, Debug)]
pub struct FnSig {
    pub params: Vec<Ty>,
    pub ret: Ty,
}

pub struct Gen<'a> {
    pub p: &'a mut Prng,
    pub types: Vec<TypeDef>,
    pub fns: Vec<FnSig>,
    pub consts: Vec<Ty>,
    next_var: usize,
    next_field: usize,
    next_variant: usize,
    /// innermost scope last
    scopes: Vec<Vec<(usize, Ty)>>,
    /// return type of the function being generated (None inside a constant)
    ret: Option<Ty>,
    /// constants that may be referenced at this point (index < limit), so that
    /// constants never form a cycle
    const_limit: usize,
    /// functions may be called only from function bodies and never from constants
    in_const: bool,
    budget: i32,
    /// > 0 while generating an expression whose type the checker must infer
    /// from the expression itself: it must not diverge (a diverging block
    /// there leaves the type undetermined)
    no_div: u32,
}

impl<'a> Gen<'a> {
    pub fn new(p: &'a mut Prng) -> Self {
        Gen {
            p,
            types: Vec::new(),
            fns: Vec::new(),
            consts: Vec::new(),
            next_var: 0,
            next_field: 0,
            next_variant: 0,
            scopes: Vec::new(),
            ret: None,
            const_limit: 0,
            in_const: false,
            budget: 0,
            no_div: 0,
        }
    }

    fn fresh_var(&mut self) -> usize {
        self.next_var += 1;
        self.next_var - 1
    }

    fn scalar(&mut self) -> Ty {
        match self.p.below(10) {
            0..=4 => Ty::Int(self.p.below(8) as u8),
            5 => Ty::F32,
            6 => Ty::F64,
            7 => Ty::Bool,
            _ => Ty::Str,
        }
    }

    /// a type usable for variables, fields, parameters
    fn value_ty(&mut self, depth: u32) -> Ty {
        let n = self.types.len() as u64;
        match self.p.below(14) {
            0..=7 => self.scalar(),
            8 if depth < 2 => Ty::Opt(Box::new(self.value_ty(depth + 1))),
            9 if depth < 2 => Ty::List(Box::new(self.value_ty(depth + 1))),
            10 | 11 if n > 0 => Ty::Named(self.p.below(n) as usize),
            _ => self.scalar(),
        }
    }

    pub fn program(&mut self) -> Prog {
        let mut decls = Vec::new();
        // types (a type only mentions earlier types: no cycles)
        let ntypes = self.p.below(4);
        for _ in 0..ntypes {
            let name = self.types.len();
            if self.p.chance(1, 2) {
                let nf = 1 + self.p.below(3);
                let mut fields = Vec::new();
                for _ in 0..nf {
                    let f = self.next_field;
                    self.next_field += 1;
                    fields.push((f, self.value_ty(1)));
                }
                self.types.push(TypeDef::Rec(fields.clone()));
                decls.push(Decl::Rec { name, fields });
            } else {
                let nv = 1 + self.p.below(3);
                let mut variants = Vec::new();
                for _ in 0..nv {
                    let k = self.next_variant;
                    self.next_variant += 1;
                    let nargs = self.p.below(3);
                    let tys = (0..nargs).map(|_| self.value_ty(1)).collect();
                    variants.push((k, tys));
                }
                self.types.push(TypeDef::Enum(variants.clone()));
                decls.push(Decl::Enum { name, variants });
            }
        }
        // signatures first (functions may call each other)
        let nfns = 1 + self.p.below(3);
        let mut params_names = Vec::new();
        for _ in 0..nfns {
            let np = self.p.below(4);
            let mut params = Vec::new();
            let mut names = Vec::new();
            for _ in 0..np {
                let t = self.value_ty(0);
                names.push((self.fresh_var(), t.clone()));
                params.push(t);
            }
            let ret = match self.p.below(10) {
                0 | 1 => Ty::Unit,
                2 => Ty::Opt(Box::new(self.scalar())),
                3 => Ty::Verdict(Box::new(self.scalar()), Box::new(self.scalar())),
                _ => self.value_ty(0),
            };
            self.fns.push(FnSig { params, ret });
            params_names.push(names);
        }
        // constants
        let nconsts = self.p.below(3) as usize;
        let const_tys: Vec<Ty> = (0..nconsts).map(|_| self.scalar()).collect();
        self.consts = const_tys.clone();
        for (i, ty) in const_tys.iter().enumerate() {
            self.in_const = true;
            self.const_limit = i;
            self.ret = None;
            self.scopes = vec![Vec::new()];
            self.budget = 6;
            let e = self.expr(ty, true, 2);
            decls.push(Decl::Const { name: i, ty: ty.clone(), e });
        }
        self.in_const = false;
        self.const_limit = nconsts;
        for (i, names) in params_names.into_iter().enumerate() {
            let ret = self.fns[i].ret.clone();
            self.ret = Some(ret.clone());
            self.scopes = vec![names.clone()];
            self.budget = 14 + self.p.below(16) as i32;
            let body = self.block_in_scope(&ret, 0);
            decls.push(Decl::Fn { name: i, params: names, ret, body });
        }
        // declaration order does not matter to the compiler: shuffle a little
        if self.p.chance(1, 3) && decls.len() > 1 {
            let i = self.p.below(decls.len() as u64) as usize;
            let d = decls.remove(i);
            decls.push(d);
        }
        Prog { decls }
    }

    fn vars_of(&self, ty: &Ty) -> Vec<usize> {
        let mut seen = Vec::new();
        let mut out = Vec::new();
        for sc in self.scopes.iter().rev() {
            for (x, t) in sc.iter().rev() {
                if !seen.contains(x) {
                    seen.push(*x);
                    if t == ty {
                        out.push(*x);
                    }
                }
            }
        }
        out
    }

    fn all_vars(&self) -> Vec<(usize, Ty)> {
        let mut seen = Vec::new();
        let mut out = Vec::new();
        for sc in self.scopes.iter().rev() {
            for (x, t) in sc.iter().rev() {
                if !seen.contains(x) {
                    seen.push(*x);
                    out.push((*x, t.clone()));
                }
            }
        }
        out
    }

    /// a block that is its own scope (pushes and pops one)
    fn block(&mut self, ty: &Ty, depth: u32) -> Block {
        self.scopes.push(Vec::new());
        let b = self.block_in_scope(ty, depth);
        self.scopes.pop();
        b
    }

    /// a block whose top level lives in the current innermost scope
    fn block_in_scope(&mut self, ty: &Ty, depth: u32) -> Block {
        let mut stmts = Vec::new();
        let n = if depth > 2 { self.p.below(2) } else { self.p.below(4) };
        for _ in 0..n {
            if self.budget <= 0 {
                break;
            }
            stmts.push(self.stmt(depth));
        }
        // how the block yields its value
        if self.ret.is_some() && depth > 0 && self.no_div == 0 && self.p.chance(1, 12) {
            // diverge: `return e;` as the last statement, no tail
            let r = self.ret_expr();
            stmts.push(Stmt::Do(r));
            return Block { stmts, last: None };
        }
        if *ty == Ty::Unit {
            if self.p.chance(3, 4) {
                return Block { stmts, last: None };
            }
            let e = self.expr(ty, true, depth + 1);
            return Block { stmts, last: Some(Box::new(e)) };
        }
        if let Ty::Verdict(a, r) = ty {
            let (a, r) = (a.clone(), r.clone());
            let e = if self.p.chance(1, 2) {
                Expr::Ret(RetKind::Accept, Some(Box::new(self.expr(&a, true, depth + 1))))
            } else {
                Expr::Ret(RetKind::Reject, Some(Box::new(self.expr(&r, true, depth + 1))))
            };
            return Block { stmts, last: Some(Box::new(e)) };
        }
        let e = self.expr(ty, true, depth + 1);
        Block { stmts, last: Some(Box::new(e)) }
    }

    /// `return e` / `accept e` / `reject e` fitting the current function
    fn ret_expr(&mut self) -> Expr {
        let ret = self.ret.clone().unwrap();
        match &ret {
            Ty::Verdict(a, r) => {
                if self.p.chance(1, 2) {
                    Expr::Ret(RetKind::Accept, Some(Box::new(self.expr(a, true, 3))))
                } else {
                    Expr::Ret(RetKind::Reject, Some(Box::new(self.expr(r, true, 3))))
                }
            }
            Ty::Unit if self.p.chance(1, 2) => Expr::Ret(RetKind::Return, None),
            t => Expr::Ret(RetKind::Return, Some(Box::new(self.expr(t, true, 3)))),
        }
    }

    fn declare(&mut self, x: usize, t: Ty) {
        self.scopes.last_mut().unwrap().push((x, t));
    }

    fn stmt(&mut self, depth: u32) -> Stmt {
        self.budget -= 1;
        let vars = self.all_vars();
        match self.p.below(16) {
            0..=4 => {
                // let
                let t = self.value_ty(0);
                let annotated = self.p.chance(1, 2);
                let e = self.expr(&t, annotated, depth + 1);
                // sometimes shadow an outer variable in an inner scope (legal)
                let x = if depth > 0 && self.p.chance(1, 10) && self.scopes.len() > 1 {
                    let outer: Vec<usize> = self.scopes[..self.scopes.len() - 1].iter().flatten().map(|v| v.0).collect();
                    let inner: Vec<usize> = self.scopes.last().unwrap().iter().map(|v| v.0).collect();
                    let cands: Vec<usize> = outer.into_iter().filter(|v| !inner.contains(v)).collect();
                    if cands.is_empty() { self.fresh_var() } else { *self.p.pick(&cands) }
                } else {
                    self.fresh_var()
                };
                self.declare(x, t.clone());
                Stmt::Let(x, if annotated { Some(t) } else { None }, e)
            }
            5 | 6 if !vars.is_empty() => {
                // assignment to a local or to a field of a local
                let (x, t) = self.p.pick(&vars).clone();
                let (path, ft) = self.field_path(&t);
                let e = self.expr(&ft, true, depth + 1);
                Stmt::Do(Expr::Assign { is_const: false, x, path, e: Box::new(e) })
            }
            7 if !vars.is_empty() => {
                // compound assignment on a numeric or String local
                let cands: Vec<(usize, Ty)> = vars.iter().filter(|(_, t)| t.is_numeric() || *t == Ty::Str).cloned().collect();
                if cands.is_empty() {
                    return self.stmt(depth);
                }
                let (x, t) = self.p.pick(&cands).clone();
                let op = if t == Ty::Str {
                    Op::Add
                } else if self.in_const {
                    *self.p.pick(&[Op::Add, Op::Sub, Op::Mul])
                } else if t.is_int() {
                    *self.p.pick(&[Op::Add, Op::Sub, Op::Mul, Op::Div, Op::Mod])
                } else {
                    *self.p.pick(&[Op::Add, Op::Sub, Op::Mul, Op::Div])
                };
                let e = self.expr(&t, true, depth + 1);
                Stmt::Do(Expr::CAssign { op, is_const: false, x, path: vec![], e: Box::new(e) })
            }
            8 | 9 if depth < 3 => {
                let c = self.expr(&Ty::Bool, true, depth + 1);
                let t = self.block(&Ty::Unit, depth + 1);
                let e = if self.p.chance(1, 2) { Some(self.block(&Ty::Unit, depth + 1)) } else { None };
                Stmt::Do(Expr::If(Box::new(c), t, e))
            }
            // constants are evaluated when the package is built: no loops, no `/` `%` there
            10 if depth < 3 && !self.in_const => {
                let c = self.expr(&Ty::Bool, true, depth + 1);
                let b = self.block(&Ty::Unit, depth + 1);
                Stmt::Do(Expr::While(Box::new(c), b))
            }
            11 if depth < 3 && !self.in_const => {
                let et = self.value_ty(1);
                let e = self.expr(&Ty::List(Box::new(et.clone())), false, depth + 1);
                let x = self.fresh_var();
                self.scopes.push(vec![(x, et)]);
                let b = self.block_in_scope(&Ty::Unit, depth + 1);
                self.scopes.pop();
                Stmt::Do(Expr::For(x, Box::new(e), b))
            }
            12 if self.ret.is_some() && depth < 3 => {
                // `if c { return e; }`
                let c = self.expr(&Ty::Bool, true, depth + 1);
                let r = self.ret_expr();
                Stmt::Do(Expr::If(Box::new(c), Block { stmts: vec![Stmt::Do(r)], last: None }, None))
            }
            13 if depth < 3 => {
                let e = self.match_expr(&Ty::Unit, depth + 1);
                Stmt::Do(e)
            }
            _ => {
                // call for effect / expression statement
                let t = self.scalar();
                let e = self.expr(&t, false, depth + 2);
                Stmt::Do(e)
            }
        }
    }

    /// a path of record fields starting at a value of type `t` (possibly empty)
    fn field_path(&mut self, t: &Ty) -> (Vec<usize>, Ty) {
        let mut path = Vec::new();
        let mut cur = t.clone();
        loop {
            let Ty::Named(n) = &cur else { break };
            let TypeDef::Rec(fields) = &self.types[*n] else { break };
            if fields.is_empty() || self.p.chance(1, 3) {
                break;
            }
            let (f, ft) = self.p.pick(fields).clone();
            path.push(f);
            cur = ft;
        }
        (path, cur)
    }

    fn int_lit(&mut self, t: u8, known: bool) -> Expr {
        let v = self.p.below(100) as u32;
        // without a known expected type the literal must carry its type
        // (otherwise the checker is free to pick another integer type — still
        // well-typed, but not the type this generator has in mind)
        let suffix = if known { self.p.chance(1, 3) } else { self.p.chance(2, 3) };
        Expr::IntLit(v, if suffix { Some(t) } else { None })
    }

    /// an expression of type `ty`. `known`: the checker has a concrete expected
    /// type at this position (so `Option.None` and unsuffixed literals are
    /// determined by the context).
    pub fn expr(&mut self, ty: &Ty, known: bool, depth: u32) -> Expr {
        // inside an expression whose type must be inferred from the expression
        // itself, nothing has a known expected type
        let known = known && self.no_div == 0;
        if !known {
            self.no_div += 1;
        }
        let e = self.expr_inner(ty, known, depth);
        if !known {
            self.no_div -= 1;
        }
        Expr::Typed(Box::new(e), ty.clone())
    }

    fn expr_inner(&mut self, ty: &Ty, known: bool, depth: u32) -> Expr {
        self.budget -= 1;
        let leaf = depth >= 4 || self.budget <= 0;
        // leaves: variables, constants, fields, literals
        let vars = self.vars_of(ty);
        if !vars.is_empty() && self.p.chance(if leaf { 2 } else { 1 }, 3) {
            return Expr::Var(*self.p.pick(&vars));
        }
        if !leaf {
            if let Some(e) = self.compound(ty, known, depth) {
                return e;
            }
        }
        // a field of a record variable
        if self.p.chance(1, 3) {
            for (x, t) in self.all_vars() {
                if let Ty::Named(n) = &t {
                    if let TypeDef::Rec(fields) = &self.types[*n] {
                        if let Some((f, _)) = fields.iter().find(|(_, ft)| ft == ty) {
                            return Expr::Field(Box::new(Expr::Var(x)), *f);
                        }
                    }
                }
            }
        }
        let consts: Vec<usize> = (0..self.const_limit).filter(|i| &self.consts[*i] == ty).collect();
        if !consts.is_empty() && self.p.chance(1, 3) {
            return Expr::Const(*self.p.pick(&consts));
        }
        self.literal(ty, known, depth)
    }

    fn literal(&mut self, ty: &Ty, known: bool, depth: u32) -> Expr {
        match ty {
            Ty::Int(t) => self.int_lit(*t, known),
            Ty::F32 => Expr::FloatLit(if known && self.p.chance(1, 2) { None } else { Some(false) }),
            Ty::F64 => Expr::FloatLit(if known && self.p.chance(1, 2) { None } else { Some(true) }),
            Ty::Bool => Expr::BoolLit(self.p.chance(1, 2)),
            Ty::Str => Expr::StrLit,
            Ty::Unit => Expr::UnitLit,
            Ty::Opt(t) => {
                if known && self.p.chance(1, 3) {
                    Expr::None
                } else {
                    Expr::Some(Box::new(self.expr(t, known, depth + 1)))
                }
            }
            Ty::List(t) => {
                let n = 1 + self.p.below(2);
                Expr::ListLit((0..n).map(|_| self.expr(t, known, depth + 1)).collect())
            }
            Ty::Named(n) => match self.types[*n].clone() {
                TypeDef::Rec(fields) => {
                    let mut fs: Vec<(usize, Expr)> = fields.iter().map(|(f, t)| (*f, self.expr(t, true, depth + 1))).collect();
                    if fs.len() > 1 && self.p.chance(1, 3) {
                        fs.reverse();
                    }
                    Expr::Record(*n, fs)
                }
                TypeDef::Enum(variants) => {
                    let (k, tys) = self.p.pick(&variants).clone();
                    Expr::Ctor(*n, k, tys.iter().map(|t| self.expr(t, true, depth + 1)).collect())
                }
            },
            Ty::Verdict(a, _) => {
                // only reachable as the value of a diverging expression
                Expr::Ret(RetKind::Accept, Some(Box::new(self.expr(a, true, depth + 1))))
            }
        }
    }

    /// a compound expression of type `ty`, if one applies
    fn compound(&mut self, ty: &Ty, known: bool, depth: u32) -> Option<Expr> {
        let d = depth + 1;
        let choice = self.p.below(12);
        match choice {
            0 | 1 => {
                // a call
                if self.in_const {
                    return None;
                }
                let cands: Vec<usize> = (0..self.fns.len()).filter(|i| &self.fns[*i].ret == ty).collect();
                if cands.is_empty() {
                    return None;
                }
                let f = *self.p.pick(&cands);
                let params = self.fns[f].params.clone();
                Some(Expr::Call(f, params.iter().map(|t| self.expr(t, true, d)).collect()))
            }
            2 | 3 | 4 => match ty {
                Ty::Bool => Some(match self.p.below(6) {
                    0 => {
                        let t = if self.p.chance(3, 4) { Ty::Int(self.p.below(8) as u8) } else { Ty::F64 };
                        let op = *self.p.pick(&[Op::Lt, Op::Le, Op::Gt, Op::Ge]);
                        Expr::Bin(op, Box::new(self.expr(&t, false, d)), Box::new(self.expr(&t, true, d)))
                    }
                    1 => {
                        let t = self.scalar();
                        let op = *self.p.pick(&[Op::Eq, Op::Ne]);
                        Expr::Bin(op, Box::new(self.expr(&t, false, d)), Box::new(self.expr(&t, true, d)))
                    }
                    2 | 3 => {
                        let op = *self.p.pick(&[Op::And, Op::Or]);
                        Expr::Bin(op, Box::new(self.expr(&Ty::Bool, true, d)), Box::new(self.expr(&Ty::Bool, true, d)))
                    }
                    _ => Expr::Not(Box::new(self.expr(&Ty::Bool, true, d))),
                }),
                t if t.is_numeric() => {
                    if t.is_signed_or_float() && self.p.chance(1, 5) {
                        // the operand of unary minus is checked without an expected type
                        let _ = known;
                        return Some(Expr::Neg(Box::new(self.expr(t, false, d))));
                    }
                    let ops: &[Op] = if self.in_const {
                        &[Op::Add, Op::Sub, Op::Mul]
                    } else if t.is_int() {
                        &[Op::Add, Op::Sub, Op::Mul, Op::Div, Op::Mod]
                    } else {
                        &[Op::Add, Op::Sub, Op::Mul, Op::Div]
                    };
                    let op = *self.p.pick(ops);
                    // the left operand is checked without an expected type
                    Some(Expr::Bin(op, Box::new(self.expr(t, false, d)), Box::new(self.expr(t, true, d))))
                }
                Ty::Str => Some(if self.p.chance(1, 2) {
                    Expr::Bin(Op::Add, Box::new(self.expr(&Ty::Str, false, d)), Box::new(self.expr(&Ty::Str, true, d)))
                } else {
                    let n = 1 + self.p.below(2);
                    Expr::FStr((0..n).map(|_| { let t = self.scalar(); self.fstr_part(&t) }).collect())
                }),
                Ty::List(_) if self.p.chance(1, 2) => {
                    Some(Expr::Bin(Op::Add, Box::new(self.expr(ty, false, d)), Box::new(self.expr(ty, true, d))))
                }
                _ => None,
            },
            5 => {
                if *ty == Ty::Unit || matches!(ty, Ty::Verdict(..)) {
                    return None;
                }
                let c = self.expr(&Ty::Bool, true, d);
                let t = self.block(ty, d);
                let e = self.block(ty, d);
                Some(Expr::If(Box::new(c), t, Some(e)))
            }
            6 => {
                if matches!(ty, Ty::Verdict(..)) {
                    return None;
                }
                Some(self.match_expr(ty, d))
            }
            7 => {
                if *ty == Ty::Unit || matches!(ty, Ty::Verdict(..)) {
                    return None;
                }
                Some(Expr::BlockE(self.block(ty, d)))
            }
            9 | 10 => self.method_call(ty, d),
            8 => {
                // `e?` in a function returning an Option
                if !matches!(self.ret, Some(Ty::Opt(_))) || matches!(ty, Ty::Verdict(..)) || *ty == Ty::Unit {
                    return None;
                }
                let inner = self.expr(&Ty::Opt(Box::new(ty.clone())), false, d);
                // `Option.None?` would leave the payload type undetermined
                if *inner.strip() == Expr::None {
                    return None;
                }
                Some(Expr::Try(Box::new(inner)))
            }
            _ => None,
        }
    }

    /// a call of a built-in method whose result has type `ty`, on a variable
    /// (the checker resolves the method from the receiver's type, so the
    /// receiver must be something whose type is known: a variable)
    fn method_call(&mut self, ty: &Ty, d: u32) -> Option<Expr> {
        let vars = self.all_vars();
        let lists: Vec<(usize, Ty)> = vars.iter().filter_map(|(x, t)| if let Ty::List(e) = t { Some((*x, (**e).clone())) } else { None }).collect();
        let strs: Vec<usize> = vars.iter().filter(|(_, t)| *t == Ty::Str).map(|(x, _)| *x).collect();
        let mut cands: Vec<Expr> = Vec::new();
        let u64t = Ty::Int(3);
        for (x, et) in &lists {
            let recv = || Box::new(Expr::Var(*x));
            match ty {
                Ty::Int(3) => cands.push(Expr::MCall(recv(), 0, vec![])),
                Ty::Bool => {
                    cands.push(Expr::MCall(recv(), 4, vec![]));
                    if !matches!(et, Ty::Named(_) | Ty::List(_)) {
                        let a = self.expr(et, true, d + 1);
                        cands.push(Expr::MCall(recv(), 3, vec![a]));
                    }
                }
                Ty::Opt(inner) if **inner == *et => {
                    let i = self.expr(&u64t, true, d + 1);
                    cands.push(Expr::MCall(recv(), 2, vec![i]));
                }
                Ty::Opt(inner) if **inner == u64t && !matches!(et, Ty::Named(_) | Ty::List(_)) => {
                    let a = self.expr(et, true, d + 1);
                    cands.push(Expr::MCall(recv(), 13, vec![a]));
                }
                Ty::List(inner) if **inner == *et => {
                    let other = self.expr(ty, true, d + 1);
                    cands.push(Expr::MCall(recv(), 12, vec![other]));
                }
                Ty::Unit => {
                    let a = self.expr(et, true, d + 1);
                    cands.push(Expr::MCall(recv(), 1, vec![a]));
                }
                _ => {}
            }
        }
        for x in &strs {
            let recv = || Box::new(Expr::Var(*x));
            match ty {
                Ty::Bool => {
                    let a = self.expr(&Ty::Str, true, d + 1);
                    cands.push(Expr::MCall(recv(), if self.p.chance(1, 2) { 3 } else { 6 }, vec![a]));
                }
                Ty::Str => {
                    cands.push(Expr::MCall(recv(), 5, vec![]));
                    cands.push(Expr::MCall(recv(), 11, vec![]));
                    let n = self.expr(&u64t, true, d + 1);
                    cands.push(Expr::MCall(recv(), 7, vec![n]));
                }
                Ty::Opt(inner) if **inner == Ty::Str => {
                    let a = self.expr(&Ty::Str, true, d + 1);
                    cands.push(Expr::MCall(recv(), 10, vec![a]));
                }
                Ty::List(inner) if **inner == Ty::Str => {
                    let a = self.expr(&Ty::Str, true, d + 1);
                    cands.push(Expr::MCall(recv(), 9, vec![a]));
                }
                _ => {}
            }
        }
        if cands.is_empty() { None } else { Some(self.p.pick(&cands).clone()) }
    }

    /// something printable inside an f-string: a variable or a literal of a scalar type
    fn fstr_part(&mut self, t: &Ty) -> Expr {
        let vars = self.vars_of(t);
        if !vars.is_empty() {
            Expr::Var(*self.p.pick(&vars))
        } else {
            self.literal(t, false, 9)
        }
    }

    fn match_expr(&mut self, ty: &Ty, depth: u32) -> Expr {
        // examinee: an Option or an enum
        let enums: Vec<usize> = (0..self.types.len()).filter(|i| matches!(self.types[*i], TypeDef::Enum(_))).collect();
        let (scrut_ty, variants): (Ty, Vec<(PatName, Vec<Ty>)>) = if !enums.is_empty() && self.p.chance(1, 2) {
            let n = *self.p.pick(&enums);
            let TypeDef::Enum(vs) = self.types[n].clone() else { unreachable!() };
            (Ty::Named(n), vs.into_iter().map(|(k, tys)| (PatName::User(k), tys)).collect())
        } else {
            let t = self.scalar();
            (Ty::Opt(Box::new(t.clone())), vec![(PatName::Some, vec![t]), (PatName::None, vec![])])
        };
        let scrut = self.expr(&scrut_ty, false, depth + 1);
        let mut arms = Vec::new();
        let use_default = self.p.chance(1, 4);
        let mut order: Vec<usize> = (0..variants.len()).collect();
        if self.p.chance(1, 2) {
            order.reverse();
        }
        let covered = if use_default { self.p.below(variants.len() as u64) as usize } else { variants.len() };
        for (i, vi) in order.iter().enumerate() {
            if i >= covered {
                break;
            }
            let (name, tys) = variants[*vi].clone();
            // sometimes a guarded arm first (the unguarded one must follow)
            let rounds = if self.p.chance(1, 5) { 2 } else { 1 };
            for r in 0..rounds {
                let binders: Vec<usize> = tys.iter().map(|_| self.fresh_var()).collect();
                self.scopes.push(binders.iter().cloned().zip(tys.iter().cloned()).collect());
                let guard = if rounds == 2 && r == 0 { Some(self.expr(&Ty::Bool, true, depth + 1)) } else { None };
                let body = self.block_in_scope(ty, depth + 1);
                self.scopes.pop();
                arms.push(Arm {
                    pat: Pat::Variant { name, binders: if tys.is_empty() { None } else { Some(binders) } },
                    guard,
                    body,
                });
            }
        }
        if use_default {
            self.scopes.push(Vec::new());
            let body = self.block_in_scope(ty, depth + 1);
            self.scopes.pop();
            arms.push(Arm { pat: Pat::Wild, guard: None, body });
        }
        Expr::Match(Box::new(scrut), arms)
    }
}
