//! One type-breaking edit of a well-typed program (the property's quantifier).
//! Every edit is *meant* to be ill-typed under the documented rules; whether
//! it really is, is decided by the Lean declarative checker (a mutant it
//! accepts does not count), never by this file.

use super::ast::*;
use rotov_harness::Prng;

#[derive(Clone, Copy, Debug, PartialEq)]
pub enum Role {
    Operand,
    Arg,
    FieldInit,
    Cond,
    Elem,
    Returned,
    Assigned,
    LetInit,
    Tail,
    Stmt,
    Scrutinee,
    Guard,
    ConstInit,
    Other,
}

impl Role {
    pub fn tag(self) -> &'static str {
        match self {
            Role::Operand => "operand",
            Role::Arg => "argument",
            Role::FieldInit => "field",
            Role::Cond => "condition",
            Role::Elem => "element",
            Role::Returned => "returned",
            Role::Assigned => "assigned",
            Role::LetInit => "let-value",
            Role::Tail => "block-value",
            Role::Stmt => "statement",
            Role::Scrutinee => "examinee",
            Role::Guard => "guard",
            Role::ConstInit => "const-value",
            Role::Other => "other",
        }
    }
}

/// which item an expression belongs to
#[derive(Clone, Debug)]
pub struct Item {
    pub decl: usize,
    pub in_const: bool,
    pub ret: Option<Ty>,
}

type ExprFn<'a> = dyn FnMut(&mut Expr, Role, &Item) + 'a;

fn walk_expr(e: &mut Expr, role: Role, it: &Item, f: &mut ExprFn) {
    f(e, role, it);
    if let Expr::Typed(inner, _) = e {
        // the node under the generator's type note is visited in the same role
        walk_expr(inner, role, it, f);
        return;
    }
    walk_children(e, it, f);
}

fn walk_children(e: &mut Expr, it: &Item, f: &mut ExprFn) {
    match e {
        Expr::Field(b, _) => walk_expr(b, Role::Other, it, f),
        Expr::Neg(x) | Expr::Not(x) => walk_expr(x, Role::Operand, it, f),
        Expr::Bin(_, l, r) => {
            walk_expr(l, Role::Operand, it, f);
            walk_expr(r, Role::Operand, it, f);
        }
        Expr::If(c, t, e2) => {
            walk_expr(c, Role::Cond, it, f);
            walk_block(t, it, f);
            if let Some(b) = e2 {
                walk_block(b, it, f);
            }
        }
        Expr::While(c, b) => {
            walk_expr(c, Role::Cond, it, f);
            walk_block(b, it, f);
        }
        Expr::For(_, x, b) => {
            walk_expr(x, Role::Other, it, f);
            walk_block(b, it, f);
        }
        Expr::BlockE(b) => walk_block(b, it, f),
        Expr::Call(_, args) | Expr::Ctor(_, _, args) => {
            for a in args {
                walk_expr(a, Role::Arg, it, f);
            }
        }
        Expr::MCall(r, _, args) => {
            walk_expr(r, Role::Other, it, f);
            for a in args {
                walk_expr(a, Role::Arg, it, f);
            }
        }
        Expr::Assign { e, .. } | Expr::CAssign { e, .. } => walk_expr(e, Role::Assigned, it, f),
        Expr::Ret(_, Some(x)) => walk_expr(x, Role::Returned, it, f),
        Expr::Record(_, fields) => {
            for (_, x) in fields {
                walk_expr(x, Role::FieldInit, it, f);
            }
        }
        Expr::ListLit(es) => {
            for x in es {
                walk_expr(x, Role::Elem, it, f);
            }
        }
        Expr::Some(x) => walk_expr(x, Role::Arg, it, f),
        Expr::Try(x) => walk_expr(x, Role::Other, it, f),
        Expr::Match(s, arms) => {
            walk_expr(s, Role::Scrutinee, it, f);
            for a in arms {
                if let Some(g) = &mut a.guard {
                    walk_expr(g, Role::Guard, it, f);
                }
                walk_block(&mut a.body, it, f);
            }
        }
        Expr::FStr(parts) => {
            for x in parts {
                walk_expr(x, Role::Other, it, f);
            }
        }
        _ => {}
    }
}

fn walk_block(b: &mut Block, it: &Item, f: &mut ExprFn) {
    for s in &mut b.stmts {
        match s {
            Stmt::Let(_, _, e) => walk_expr(e, Role::LetInit, it, f),
            Stmt::Do(e) => walk_expr(e, Role::Stmt, it, f),
            Stmt::Import(..) => {}
        }
    }
    if let Some(e) = &mut b.last {
        walk_expr(e, Role::Tail, it, f);
    }
}

pub fn walk_prog(p: &mut Prog, f: &mut ExprFn) {
    for (i, d) in p.decls.iter_mut().enumerate() {
        match d {
            Decl::Fn { ret, body, .. } => {
                let it = Item { decl: i, in_const: false, ret: Some(ret.clone()) };
                walk_block(body, &it, f);
            }
            Decl::Const { e, .. } => {
                let it = Item { decl: i, in_const: true, ret: None };
                walk_expr(e, Role::ConstInit, &it, f);
            }
            _ => {}
        }
    }
}

/// every block of the program, with what its top level shares a scope with
#[derive(Clone, Debug, PartialEq)]
pub enum BlockKind {
    FnBody(Vec<usize>),
    ForBody(usize),
    ArmBody(Vec<usize>),
    Plain,
}

type BlockFn<'a> = dyn FnMut(&mut Block, &BlockKind, &Item) + 'a;

fn blocks_expr(e: &mut Expr, it: &Item, f: &mut BlockFn) {
    match e {
        Expr::Typed(inner, _) => blocks_expr(inner, it, f),
        Expr::Field(b, _) | Expr::Neg(b) | Expr::Not(b) | Expr::Some(b) | Expr::Try(b) => blocks_expr(b, it, f),
        Expr::Bin(_, l, r) => {
            blocks_expr(l, it, f);
            blocks_expr(r, it, f);
        }
        Expr::If(c, t, e2) => {
            blocks_expr(c, it, f);
            blocks_block(t, &BlockKind::Plain, it, f);
            if let Some(b) = e2 {
                blocks_block(b, &BlockKind::Plain, it, f);
            }
        }
        Expr::While(c, b) => {
            blocks_expr(c, it, f);
            blocks_block(b, &BlockKind::Plain, it, f);
        }
        Expr::For(x, e2, b) => {
            blocks_expr(e2, it, f);
            blocks_block(b, &BlockKind::ForBody(*x), it, f);
        }
        Expr::BlockE(b) => blocks_block(b, &BlockKind::Plain, it, f),
        Expr::Call(_, args) | Expr::Ctor(_, _, args) | Expr::ListLit(args) | Expr::FStr(args) => {
            for a in args {
                blocks_expr(a, it, f);
            }
        }
        Expr::MCall(r, _, args) => {
            blocks_expr(r, it, f);
            for a in args {
                blocks_expr(a, it, f);
            }
        }
        Expr::Assign { e, .. } | Expr::CAssign { e, .. } => blocks_expr(e, it, f),
        Expr::Ret(_, Some(x)) => blocks_expr(x, it, f),
        Expr::Record(_, fields) => {
            for (_, x) in fields {
                blocks_expr(x, it, f);
            }
        }
        Expr::Match(s, arms) => {
            blocks_expr(s, it, f);
            for a in arms {
                if let Some(g) = &mut a.guard {
                    blocks_expr(g, it, f);
                }
                let binders = match &a.pat {
                    Pat::Variant { binders: Some(bs), .. } => bs.clone(),
                    _ => vec![],
                };
                blocks_block(&mut a.body, &BlockKind::ArmBody(binders), it, f);
            }
        }
        _ => {}
    }
}

fn blocks_block(b: &mut Block, kind: &BlockKind, it: &Item, f: &mut BlockFn) {
    f(b, kind, it);
    for s in &mut b.stmts {
        match s {
            Stmt::Let(_, _, e) | Stmt::Do(e) => blocks_expr(e, it, f),
            Stmt::Import(..) => {}
        }
    }
    if let Some(e) = &mut b.last {
        blocks_expr(e, it, f);
    }
}

pub fn walk_blocks(p: &mut Prog, f: &mut BlockFn) {
    for (i, d) in p.decls.iter_mut().enumerate() {
        match d {
            Decl::Fn { params, ret, body, .. } => {
                let it = Item { decl: i, in_const: false, ret: Some(ret.clone()) };
                let kind = BlockKind::FnBody(params.iter().map(|p| p.0).collect());
                blocks_block(body, &kind, &it, f);
            }
            Decl::Const { e, .. } => {
                let it = Item { decl: i, in_const: true, ret: None };
                blocks_expr(e, &it, f);
            }
            _ => {}
        }
    }
}

/// a literal whose type certainly differs from `ty`
fn wrong_literal(p: &mut Prng, ty: &Ty) -> Expr {
    let int = |p: &mut Prng, not: Option<u8>| {
        let mut t = p.below(8) as u8;
        if Some(t) == not {
            t = (t + 1) % 8;
        }
        Expr::IntLit(p.below(100) as u32, Some(t))
    };
    match ty {
        Ty::Int(t) => match p.below(4) {
            0 => Expr::BoolLit(true),
            1 => Expr::StrLit,
            2 => Expr::FloatLit(Some(true)),
            _ => int(p, Some(*t)),
        },
        Ty::F32 => match p.below(3) {
            0 => Expr::BoolLit(false),
            1 => Expr::FloatLit(Some(true)),
            _ => int(p, None),
        },
        Ty::F64 => match p.below(3) {
            0 => Expr::StrLit,
            1 => Expr::FloatLit(Some(false)),
            _ => int(p, None),
        },
        Ty::Bool => match p.below(3) {
            0 => Expr::StrLit,
            1 => Expr::IntLit(1, None),
            _ => int(p, None),
        },
        Ty::Str => match p.below(3) {
            0 => Expr::BoolLit(true),
            1 => Expr::IntLit(7, None),
            _ => Expr::FloatLit(None),
        },
        Ty::Unit => int(p, None),
        Ty::Opt(t) => match p.below(3) {
            0 => Expr::Some(Box::new(wrong_literal(p, t))),
            1 => Expr::BoolLit(true),
            _ => Expr::ListLit(vec![Expr::None]),
        },
        Ty::List(t) => match p.below(3) {
            0 => Expr::ListLit(vec![wrong_literal(p, t)]),
            1 => Expr::StrLit,
            _ => Expr::None,
        },
        Ty::Named(_) => match p.below(3) {
            0 => Expr::IntLit(3, None),
            1 => Expr::StrLit,
            _ => Expr::None,
        },
        Ty::Verdict(..) => Expr::BoolLit(true),
    }
}

pub const KINDS: [&str; 31] = [
    "type",               // operand/argument/field/condition/element/return/assigned value of another type
    "arity",              // wrong number of arguments / pattern binders
    "unknown-name",       // a variable / function / type / field / variant nobody declared
    "out-of-scope",       // a variable used outside the block that declares it, or before its `let`
    "record-missing",     // record literal without one of the fields
    "record-duplicate",   // record literal naming a field twice
    "record-unknown",     // record literal naming a field the record does not have
    "match-nonexhaustive",
    "match-unreachable",
    "match-duplicate-variant",
    "negate-unsigned",
    "arith-non-number",
    "order-non-number",
    "mod-float",
    "try-forbidden",      // `?` where the item does not return an Option
    "return-forbidden",   // `return` inside a constant
    "accept-forbidden",   // `accept`/`reject` in a function that does not return a Verdict
    "assign-const",       // assignment to a constant
    "cassign-const",      // compound assignment to a constant
    "redeclare-local",    // a second `let` / binder / parameter of the same name in one scope
    "redeclare-item",     // two functions / constants / types of the same name
    "recursive-type",
    "recursive-const",
    "drop-value",         // the value of a non-unit block is dropped (`e` → `e;`), else-less `if` used as a value
    "drop-value-after-loop", // the function's value is only returned from inside a loop that may not run
    "drop-value-short-circuit", // … or only from the right operand of `&&` / `||`, which may not be evaluated
    "unknown-type",       // a type nobody declared, in an annotation / parameter / return type / field / variant
    "fstring-no-to-string", // an f-string interpolates a value whose type has no `to_string` method
    "duplicate-in-type-decl", // a record type names a field twice / an enum a variant twice
    "wrong-type-kind",    // a record literal of an enum type, a constructor of a record type
    "field-of-non-record", // `.a0` on a value that is not a record
];

pub struct Mutant {
    pub prog: Prog,
    pub kind: &'static str,
    pub detail: String,
}

fn count_exprs(p: &mut Prog, pred: &dyn Fn(&Expr, Role, &Item) -> bool) -> usize {
    let mut n = 0;
    walk_prog(p, &mut |e, r, it| {
        if pred(e, r, it) {
            n += 1;
        }
    });
    n
}

/// apply `edit` at the k-th expression satisfying `pred` (pre-order)
fn edit_expr(
    p: &mut Prog,
    k: usize,
    pred: &dyn Fn(&Expr, Role, &Item) -> bool,
    edit: &mut dyn FnMut(&mut Expr, Role, &Item),
) {
    let mut n = 0;
    let mut done = false;
    walk_prog(p, &mut |e, r, it| {
        if !done && pred(e, r, it) {
            if n == k {
                edit(e, r, it);
                done = true;
            }
            n += 1;
        }
    });
}

fn pick_expr(
    prng: &mut Prng,
    prog: &Prog,
    pred: &dyn Fn(&Expr, Role, &Item) -> bool,
    edit: &mut dyn FnMut(&mut Expr, Role, &Item),
) -> Option<Prog> {
    let mut p = prog.clone();
    let n = count_exprs(&mut p, pred);
    if n == 0 {
        return None;
    }
    let k = prng.below(n as u64) as usize;
    edit_expr(&mut p, k, pred, edit);
    Some(p)
}

fn count_blocks(p: &mut Prog, pred: &dyn Fn(&Block, &BlockKind, &Item) -> bool) -> usize {
    let mut n = 0;
    walk_blocks(p, &mut |b, k, it| {
        if pred(b, k, it) {
            n += 1;
        }
    });
    n
}

fn pick_block(
    prng: &mut Prng,
    prog: &Prog,
    pred: &dyn Fn(&Block, &BlockKind, &Item) -> bool,
    edit: &mut dyn FnMut(&mut Block, &BlockKind, &Item),
) -> Option<Prog> {
    let mut p = prog.clone();
    let n = count_blocks(&mut p, pred);
    if n == 0 {
        return None;
    }
    let k = prng.below(n as u64) as usize;
    let mut i = 0;
    let mut done = false;
    walk_blocks(&mut p, &mut |b, kind, it| {
        if !done && pred(b, kind, it) {
            if i == k {
                edit(b, kind, it);
                done = true;
            }
            i += 1;
        }
    });
    Some(p)
}

fn lets_of(b: &Block) -> Vec<usize> {
    b.stmts.iter().filter_map(|s| if let Stmt::Let(x, _, _) = s { Some(*x) } else { None }).collect()
}

fn scalar_lit(ty: &Ty) -> Expr {
    match ty {
        Ty::Int(t) => Expr::IntLit(1, Some(*t)),
        Ty::F32 => Expr::FloatLit(Some(false)),
        Ty::F64 => Expr::FloatLit(Some(true)),
        Ty::Bool => Expr::BoolLit(true),
        Ty::Str => Expr::StrLit,
        _ => Expr::UnitLit,
    }
}

/// one edit of the given kind, if the program has a place for it
pub fn mutate(prng: &mut Prng, prog: &Prog, kind: &'static str) -> Option<Mutant> {
    let mut detail = String::new();
    let out: Option<Prog> = match kind {
        "type" => {
            let mut seed = prng.clone();
            prng.next();
            pick_expr(
                prng,
                prog,
                &|e, r, _| matches!(e, Expr::Typed(_, t) if !matches!(t, Ty::Verdict(..))) && r != Role::Stmt,
                &mut |e, r, _| {
                    if let Expr::Typed(inner, t) = e {
                        detail = format!("{} of type {} replaced", r.tag(), t.roto());
                        **inner = wrong_literal(&mut seed, t);
                    }
                },
            )
        }
        "arity" => {
            let mut seed = prng.clone();
            prng.next();
            if prng.chance(2, 3) {
                pick_expr(prng, prog, &|e, _, _| matches!(e, Expr::Call(..) | Expr::Ctor(..) | Expr::MCall(..)), &mut |e, _, _| {
                    if let Expr::Call(_, args) | Expr::Ctor(_, _, args) | Expr::MCall(_, _, args) = e {
                        if !args.is_empty() && seed.chance(1, 2) {
                            args.pop();
                            detail = "one argument fewer".into();
                        } else {
                            args.push(Expr::IntLit(1, None));
                            detail = "one argument more".into();
                        }
                    }
                })
            } else {
                pick_expr(prng, prog, &|e, _, _| matches!(e, Expr::Match(..)), &mut |e, _, _| {
                    if let Expr::Match(_, arms) = e {
                        for a in arms.iter_mut() {
                            if let Pat::Variant { binders, .. } = &mut a.pat {
                                match binders {
                                    Some(bs) if seed.chance(1, 2) => {
                                        bs.push(90_000);
                                        detail = "one binder more".into();
                                    }
                                    Some(bs) if bs.len() > 1 => {
                                        bs.pop();
                                        detail = "one binder fewer".into();
                                    }
                                    Some(_) => {
                                        *binders = None;
                                        detail = "binders removed".into();
                                    }
                                    None => {
                                        *binders = Some(vec![90_001]);
                                        detail = "binder on a variant without fields".into();
                                    }
                                }
                                break;
                            }
                        }
                    }
                })
            }
        }
        "unknown-name" => match prng.below(6) {
            5 => pick_expr(prng, prog, &|e, _, _| matches!(e, Expr::MCall(..)), &mut |e, _, _| {
                if let Expr::MCall(_, m, _) = e {
                    *m = 99;
                    detail = "unknown method".into();
                }
            }),
            0 => pick_expr(prng, prog, &|e, _, _| matches!(e, Expr::Var(_)), &mut |e, _, _| {
                *e = Expr::Var(91_000);
                detail = "unknown variable".into();
            }),
            1 => pick_expr(prng, prog, &|e, _, _| matches!(e, Expr::Call(..)), &mut |e, _, _| {
                if let Expr::Call(f, _) = e {
                    *f = 910;
                    detail = "unknown function".into();
                }
            }),
            2 => pick_expr(prng, prog, &|e, _, _| matches!(e, Expr::Field(..)), &mut |e, _, _| {
                if let Expr::Field(_, f) = e {
                    *f = 9100;
                    detail = "unknown field".into();
                }
            }),
            3 => pick_expr(prng, prog, &|e, _, _| matches!(e, Expr::Ctor(..)), &mut |e, _, _| {
                if let Expr::Ctor(_, k, _) = e {
                    *k = 9100;
                    detail = "unknown variant in a constructor".into();
                }
            }),
            _ => {
                let mut seed = prng.clone();
                prng.next();
                pick_expr(prng, prog, &|e, _, _| matches!(e, Expr::Match(_, arms) if arms.iter().any(|a| a.pat != Pat::Wild)), &mut |e, _, _| {
                    if let Expr::Match(_, arms) = e {
                        let idx: Vec<usize> = (0..arms.len()).filter(|i| arms[*i].pat != Pat::Wild).collect();
                        let i = *seed.pick(&idx);
                        if let Pat::Variant { name, .. } = &mut arms[i].pat {
                            *name = PatName::User(9101);
                            detail = "unknown variant in a pattern".into();
                        }
                    }
                })
            }
        },
        "out-of-scope" => {
            let mut seed = prng.clone();
            prng.next();
            let how = prng.below(6);
            if how == 4 {
                // a parameter / local of ANOTHER function (or of a function, inside a constant)
                let mut owners: Vec<(usize, Vec<usize>)> = Vec::new();
                for (i, d) in prog.decls.iter().enumerate() {
                    if let Decl::Fn { params, .. } = d {
                        owners.push((i, params.iter().map(|p| p.0).collect()));
                    }
                }
                {
                    let mut tmp = prog.clone();
                    walk_blocks(&mut tmp, &mut |b, k, it| {
                        let mut xs = lets_of(b);
                        if let BlockKind::ForBody(x) = k {
                            xs.push(*x);
                        }
                        if let BlockKind::ArmBody(bs) = k {
                            xs.extend(bs.iter().cloned());
                        }
                        match owners.iter_mut().find(|(i, _)| *i == it.decl) {
                            Some((_, v)) => v.extend(xs),
                            None => owners.push((it.decl, xs)),
                        }
                    });
                }
                let foreign = |decl: usize| -> Vec<usize> {
                    let own: Vec<usize> = owners.iter().filter(|(i, _)| *i == decl).flat_map(|(_, v)| v.clone()).collect();
                    owners.iter().filter(|(i, _)| *i != decl).flat_map(|(_, v)| v.clone()).filter(|x| !own.contains(x)).collect()
                };
                pick_expr(prng, prog, &|e, _, it| matches!(e, Expr::Var(_)) && !foreign(it.decl).is_empty(), &mut |e, _, it| {
                    let xs = foreign(it.decl);
                    let x = *seed.pick(&xs);
                    *e = Expr::Var(x);
                    detail = format!("v{x}, a variable of another function, used here");
                })
            } else if how == 5 {
                // a binder of one match arm used in another arm (its guard or its body)
                pick_expr(
                    prng,
                    prog,
                    &|e, _, _| matches!(e, Expr::Match(_, arms) if arms.len() > 1 && arms.iter().any(|a| matches!(&a.pat, Pat::Variant { binders: Some(bs), .. } if !bs.is_empty()))),
                    &mut |e, _, _| {
                        if let Expr::Match(_, arms) = e {
                            let with: Vec<usize> = (0..arms.len()).filter(|i| matches!(&arms[*i].pat, Pat::Variant { binders: Some(bs), .. } if !bs.is_empty())).collect();
                            let i = *seed.pick(&with);
                            let x = match &arms[i].pat {
                                Pat::Variant { binders: Some(bs), .. } => bs[0],
                                _ => return,
                            };
                            let others: Vec<usize> = (0..arms.len()).filter(|j| *j != i).collect();
                            let j = *seed.pick(&others);
                            // not where the other arm binds the same name itself
                            if matches!(&arms[j].pat, Pat::Variant { binders: Some(bs), .. } if bs.contains(&x)) {
                                return;
                            }
                            arms[j].body.stmts.insert(0, Stmt::Do(Expr::Var(x)));
                            detail = format!("v{x}, bound by another arm of the match, used in this arm");
                        }
                    },
                )
            } else if how < 2 {
                // use before the `let`
                pick_block(prng, prog, &|b, _, _| !lets_of(b).is_empty(), &mut |b, _, _| {
                    let idx: Vec<usize> = (0..b.stmts.len()).filter(|i| matches!(b.stmts[*i], Stmt::Let(..))).collect();
                    let i = *seed.pick(&idx);
                    if let Stmt::Let(x, _, _) = &b.stmts[i] {
                        let x = *x;
                        b.stmts.insert(i, Stmt::Do(Expr::Var(x)));
                        detail = format!("v{x} used before its let");
                    }
                })
            } else {
                // use after the block that declares it
                pick_block(
                    prng,
                    prog,
                    &|b, _, _| b.stmts.iter().any(|s| inner_let(s).is_some()),
                    &mut |b, _, _| {
                        let idx: Vec<usize> = (0..b.stmts.len()).filter(|i| inner_let(&b.stmts[*i]).is_some()).collect();
                        let i = *seed.pick(&idx);
                        let x = inner_let(&b.stmts[i]).unwrap();
                        b.stmts.insert(i + 1, Stmt::Do(Expr::Var(x)));
                        detail = format!("v{x} used after the block that declares it");
                    },
                )
            }
        }
        "record-missing" | "record-duplicate" | "record-unknown" => pick_expr(
            prng,
            prog,
            &|e, _, _| matches!(e, Expr::Record(_, fs) if !fs.is_empty()),
            &mut |e, _, _| {
                if let Expr::Record(_, fs) = e {
                    match kind {
                        "record-missing" => {
                            fs.pop();
                        }
                        "record-duplicate" => {
                            let f = fs[0].clone();
                            fs.push(f);
                        }
                        _ => fs[0].0 = 9200,
                    }
                }
            },
        ),
        "match-nonexhaustive" => {
            let mut seed = prng.clone();
            prng.next();
            pick_expr(
                prng,
                prog,
                &|e, _, _| matches!(e, Expr::Match(_, arms) if !arms.is_empty() && arms.iter().all(|a| a.pat != Pat::Wild)),
                &mut |e, _, _| {
                    if let Expr::Match(_, arms) = e {
                        let idx: Vec<usize> = (0..arms.len()).filter(|i| arms[*i].guard.is_none()).collect();
                        if idx.is_empty() {
                            return;
                        }
                        let i = *seed.pick(&idx);
                        if seed.chance(1, 2) {
                            arms.remove(i);
                            detail = "arm removed".into();
                        } else {
                            arms[i].guard = Some(Expr::BoolLit(true));
                            detail = "only arm of a variant got a guard".into();
                        }
                    }
                },
            )
        }
        "match-unreachable" => {
            let mut seed = prng.clone();
            prng.next();
            pick_expr(prng, prog, &|e, _, _| matches!(e, Expr::Match(_, arms) if !arms.is_empty()), &mut |e, _, _| {
                if let Expr::Match(_, arms) = e {
                    let body = arms[0].body.clone();
                    let dflt = Arm { pat: Pat::Wild, guard: None, body };
                    if arms.last().map(|a| a.pat == Pat::Wild && a.guard.is_none()).unwrap_or(false) && seed.chance(1, 2) {
                        // something after the default arm
                        let first = arms[0].clone();
                        arms.push(first);
                        detail = "arm after the default arm".into();
                    } else {
                        arms.insert(0, dflt);
                        detail = "default arm first".into();
                    }
                }
            })
        }
        "match-duplicate-variant" => {
            let mut seed = prng.clone();
            prng.next();
            pick_expr(
                prng,
                prog,
                &|e, _, _| matches!(e, Expr::Match(_, arms) if arms.iter().any(|a| a.pat != Pat::Wild && a.guard.is_none())),
                &mut |e, _, _| {
                    if let Expr::Match(_, arms) = e {
                        let idx: Vec<usize> = (0..arms.len()).filter(|i| arms[*i].pat != Pat::Wild && arms[*i].guard.is_none()).collect();
                        let i = *seed.pick(&idx);
                        let dup = arms[i].clone();
                        arms.insert(i + 1, dup);
                        detail = "arm repeated right after an unguarded arm of the same variant".into();
                    }
                },
            )
        }
        "negate-unsigned" => pick_expr(
            prng,
            prog,
            &|e, r, _| matches!(e, Expr::Typed(_, Ty::Int(0..=3))) && r != Role::Stmt,
            &mut |e, _, _| {
                if let Expr::Typed(inner, _) = e {
                    let old = std::mem::replace(&mut **inner, Expr::UnitLit);
                    **inner = Expr::Neg(Box::new(old));
                }
            },
        ),
        "arith-non-number" | "order-non-number" | "mod-float" => {
            let mut seed = prng.clone();
            prng.next();
            pick_expr(
                prng,
                prog,
                &|e, _, _| match (kind, e) {
                    ("arith-non-number", Expr::Bin(Op::Sub | Op::Mul | Op::Div | Op::Mod | Op::Add, ..)) => true,
                    ("order-non-number", Expr::Bin(Op::Lt | Op::Le | Op::Gt | Op::Ge, ..)) => true,
                    ("mod-float", Expr::Bin(Op::Mod, ..)) => true,
                    _ => false,
                },
                &mut |e, _, _| {
                    if let Expr::Bin(op, l, r) = e {
                        let lit = match kind {
                            "mod-float" => Expr::FloatLit(Some(true)),
                            "order-non-number" => {
                                if seed.chance(1, 2) { Expr::StrLit } else { Expr::BoolLit(true) }
                            }
                            _ => {
                                if *op == Op::Add || seed.chance(1, 2) { Expr::BoolLit(false) } else { Expr::StrLit }
                            }
                        };
                        **l = lit.clone();
                        **r = lit;
                    }
                },
            )
        }
        "try-forbidden" => pick_expr(
            prng,
            prog,
            &|e, r, it| matches!(e, Expr::Typed(_, t) if !matches!(t, Ty::Verdict(..) | Ty::Unit)) && r != Role::Stmt && !matches!(it.ret, Some(Ty::Opt(_))),
            &mut |e, _, _| {
                if let Expr::Typed(inner, _) = e {
                    let old = std::mem::replace(&mut **inner, Expr::UnitLit);
                    **inner = Expr::Try(Box::new(Expr::Some(Box::new(old))));
                }
            },
        ),
        "return-forbidden" => pick_expr(prng, prog, &|e, _, it| it.in_const && matches!(e, Expr::Typed(..)), &mut |e, _, _| {
            if let Expr::Typed(inner, _) = e {
                let old = std::mem::replace(&mut **inner, Expr::UnitLit);
                **inner = Expr::Ret(RetKind::Return, Some(Box::new(old)));
            }
        }),
        "accept-forbidden" => {
            let mut seed = prng.clone();
            prng.next();
            pick_block(
                prng,
                prog,
                &|_, _, it| !it.in_const && !matches!(it.ret, Some(Ty::Verdict(..))),
                &mut |b, _, _| {
                    let k = if seed.chance(1, 2) { RetKind::Accept } else { RetKind::Reject };
                    let i = seed.below(b.stmts.len() as u64 + 1) as usize;
                    b.stmts.insert(i, Stmt::Do(Expr::Ret(k, Some(Box::new(Expr::IntLit(1, None))))));
                },
            )
        }
        "assign-const" | "cassign-const" => {
            let consts: Vec<(usize, Ty)> = prog
                .decls
                .iter()
                .filter_map(|d| if let Decl::Const { name, ty, .. } = d { Some((*name, ty.clone())) } else { None })
                .collect();
            if consts.is_empty() {
                return None;
            }
            let (c, ty) = prng.pick(&consts).clone();
            if kind == "cassign-const" && !(ty.is_numeric() || ty == Ty::Str) {
                return None;
            }
            let mut seed = prng.clone();
            prng.next();
            pick_block(prng, prog, &|_, _, it| !it.in_const, &mut |b, _, _| {
                let i = seed.below(b.stmts.len() as u64 + 1) as usize;
                let e = Box::new(scalar_lit(&ty));
                let st = if kind == "assign-const" {
                    Expr::Assign { is_const: true, x: c, path: vec![], e }
                } else {
                    Expr::CAssign { op: Op::Add, is_const: true, x: c, path: vec![], e }
                };
                b.stmts.insert(i, Stmt::Do(st));
                detail = format!("C{c} of type {}", ty.roto());
            })
        }
        "redeclare-local" => {
            let mut seed = prng.clone();
            prng.next();
            match prng.below(3) {
                0 => {
                    // duplicate parameter
                    let mut p = prog.clone();
                    let fns: Vec<usize> = (0..p.decls.len()).filter(|i| matches!(&p.decls[*i], Decl::Fn { params, .. } if !params.is_empty())).collect();
                    if fns.is_empty() {
                        return None;
                    }
                    let i = *prng.pick(&fns);
                    if let Decl::Fn { params, .. } = &mut p.decls[i] {
                        let q = params[0].clone();
                        params.push(q);
                        detail = "parameter repeated".into();
                    }
                    Some(p)
                }
                _ => pick_block(
                    prng,
                    prog,
                    &|b, k, _| !lets_of(b).is_empty() || !matches!(k, BlockKind::Plain),
                    &mut |b, k, _| {
                        let mut names = lets_of(b);
                        let first_let = b.stmts.iter().position(|s| matches!(s, Stmt::Let(..)));
                        let mut at = first_let.map(|i| i + 1).unwrap_or(0);
                        let shared: Vec<usize> = match k {
                            BlockKind::FnBody(ps) => ps.clone(),
                            BlockKind::ForBody(x) => vec![*x],
                            BlockKind::ArmBody(bs) => bs.clone(),
                            BlockKind::Plain => vec![],
                        };
                        if !shared.is_empty() && (names.is_empty() || seed.chance(1, 2)) {
                            names = shared;
                            at = 0;
                            detail = "let of a name the block shares its scope with (parameter / loop variable / binder)".into();
                        } else {
                            names.truncate(1);
                            detail = "second let of the same name in one block".into();
                        }
                        if names.is_empty() {
                            return;
                        }
                        let x = names[0];
                        b.stmts.insert(at, Stmt::Let(x, None, Expr::IntLit(1, None)));
                    },
                ),
            }
        }
        "redeclare-item" => {
            let mut p = prog.clone();
            if p.decls.is_empty() {
                return None;
            }
            let i = prng.below(p.decls.len() as u64) as usize;
            let d = p.decls[i].clone();
            detail = match &d {
                Decl::Fn { .. } => "function declared twice",
                Decl::Const { .. } => "constant declared twice",
                _ => "type declared twice",
            }
            .into();
            p.decls.push(d);
            Some(p)
        }
        "recursive-type" => {
            let mut p = prog.clone();
            let recs: Vec<usize> = (0..p.decls.len()).filter(|i| matches!(p.decls[*i], Decl::Rec { .. } | Decl::Enum { .. })).collect();
            if recs.is_empty() {
                return None;
            }
            let i = *prng.pick(&recs);
            let via = prng.below(3);
            let wrap = |n: usize| match via {
                0 => Ty::Named(n),
                1 => Ty::Opt(Box::new(Ty::Named(n))),
                _ => Ty::List(Box::new(Ty::Named(n))),
            };
            // directly, or through another type that mentions this one
            let other: Option<usize> = recs.iter().cloned().find(|j| *j > i);
            let target_name = |d: &Decl| match d {
                Decl::Rec { name, .. } | Decl::Enum { name, .. } => *name,
                _ => 0,
            };
            let me = target_name(&p.decls[i]);
            let back = match other {
                Some(j) if prng.chance(1, 2) => {
                    // `other` already may mention `me`? make sure it does
                    let oname = target_name(&p.decls[j]);
                    match &mut p.decls[j] {
                        Decl::Rec { fields, .. } => fields.push((9300, Ty::Named(me))),
                        Decl::Enum { variants, .. } => variants.push((9300, vec![Ty::Named(me)])),
                        _ => {}
                    }
                    detail = "two types mention each other".into();
                    oname
                }
                _ => {
                    detail = format!("type mentions itself (via {})", ["itself", "Option", "List"][via as usize]);
                    me
                }
            };
            match &mut p.decls[i] {
                Decl::Rec { fields, .. } => fields.push((9301, wrap(back))),
                Decl::Enum { variants, .. } => variants.push((9301, vec![wrap(back)])),
                _ => {}
            }
            Some(p)
        }
        "recursive-const" => {
            let mut p = prog.clone();
            let consts: Vec<usize> = (0..p.decls.len()).filter(|i| matches!(p.decls[*i], Decl::Const { .. })).collect();
            if consts.is_empty() {
                return None;
            }
            let i = *prng.pick(&consts);
            let (me, ty) = match &p.decls[i] {
                Decl::Const { name, ty, .. } => (*name, ty.clone()),
                _ => unreachable!(),
            };
            // through a function of the same type that mentions the constant, or directly
            let via_fn: Option<usize> = p.decls.iter().position(|d| matches!(d, Decl::Fn { params, ret, .. } if params.is_empty() && *ret == ty));
            // two constants of one type defined as each other
            let twin: Option<usize> = consts.iter().cloned().find(|j| *j != i && matches!(&p.decls[*j], Decl::Const { ty: t2, .. } if *t2 == ty));
            if let (Some(j), true) = (twin, prng.chance(1, 3)) {
                let other = match &p.decls[j] {
                    Decl::Const { name, .. } => *name,
                    _ => 0,
                };
                if let Decl::Const { e, .. } = &mut p.decls[i] {
                    *e = Expr::Const(other);
                }
                if let Decl::Const { e, .. } = &mut p.decls[j] {
                    *e = Expr::Const(me);
                }
                return Some(Mutant { prog: p, kind, detail: "two constants defined as each other".into() });
            }
            match via_fn {
                Some(j) if prng.chance(1, 2) => {
                    let fname = match &mut p.decls[j] {
                        Decl::Fn { name, body, .. } => {
                            body.stmts.insert(0, Stmt::Let(9400, None, Expr::Const(me)));
                            *name
                        }
                        _ => 0,
                    };
                    if let Decl::Const { e, .. } = &mut p.decls[i] {
                        *e = Expr::Call(fname, vec![]);
                    }
                    detail = "constant calls a function that reads it".into();
                }
                _ => {
                    if let Decl::Const { e, .. } = &mut p.decls[i] {
                        *e = Expr::Const(me);
                    }
                    detail = "constant defined as itself".into();
                }
            }
            Some(p)
        }
        "drop-value-after-loop" => {
            let mut seed = prng.clone();
            prng.next();
            pick_block(
                prng,
                prog,
                &|b, k, it| {
                    matches!(k, BlockKind::FnBody(_))
                        && b.last.is_some()
                        && !matches!(it.ret, Some(Ty::Unit) | Some(Ty::Verdict(..)))
                        && !matches!(b.last.as_deref().map(|e| e.strip()), Some(Expr::Ret(..)))
                },
                &mut |b, _, _| {
                    let e = b.last.take().unwrap();
                    let body = Block { stmts: vec![Stmt::Do(Expr::Ret(RetKind::Return, Some(e)))], last: None };
                    let lp = if seed.chance(1, 2) {
                        detail = "value only returned from inside a while loop".into();
                        Expr::While(Box::new(Expr::BoolLit(seed.chance(1, 2))), body)
                    } else {
                        detail = "value only returned from inside a for loop".into();
                        Expr::For(95_000, Box::new(Expr::ListLit(vec![Expr::BoolLit(true)])), body)
                    };
                    b.stmts.push(Stmt::Do(lp));
                    // something after the loop, so that the loop is not the block's value
                    b.stmts.push(Stmt::Do(Expr::UnitLit));
                },
            )
        }
        "duplicate-in-type-decl" => {
            let mut p = prog.clone();
            let tys: Vec<usize> = (0..p.decls.len())
                .filter(|i| match &p.decls[*i] {
                    Decl::Rec { fields, .. } => !fields.is_empty(),
                    Decl::Enum { variants, .. } => !variants.is_empty(),
                    _ => false,
                })
                .collect();
            if tys.is_empty() {
                return None;
            }
            let i = *prng.pick(&tys);
            match &mut p.decls[i] {
                Decl::Rec { fields, .. } => {
                    let f = fields[0].clone();
                    fields.push(f);
                    detail = "field declared twice".into();
                }
                Decl::Enum { variants, .. } => {
                    let v = variants[0].clone();
                    variants.push(v);
                    detail = "variant declared twice".into();
                }
                _ => {}
            }
            Some(p)
        }
        "wrong-type-kind" => {
            let recs: Vec<usize> = prog.decls.iter().filter_map(|d| if let Decl::Rec { name, .. } = d { Some(*name) } else { None }).collect();
            let enums: Vec<usize> = prog.decls.iter().filter_map(|d| if let Decl::Enum { name, .. } = d { Some(*name) } else { None }).collect();
            let mut seed = prng.clone();
            prng.next();
            pick_expr(
                prng,
                prog,
                &|e, _, _| (matches!(e, Expr::Record(..)) && !enums.is_empty()) || (matches!(e, Expr::Ctor(..)) && !recs.is_empty()),
                &mut |e, _, _| match e {
                    Expr::Record(t, _) => {
                        *t = *seed.pick(&enums);
                        detail = "record literal of an enum type".into();
                    }
                    Expr::Ctor(t, _, _) => {
                        *t = *seed.pick(&recs);
                        detail = "constructor of a record type".into();
                    }
                    _ => {}
                },
            )
        }
        "field-of-non-record" => pick_expr(
            prng,
            prog,
            &|e, r, _| matches!(e, Expr::Typed(inner, t) if matches!(**inner, Expr::Var(_)) && !matches!(t, Ty::Named(_))) && r != Role::Stmt,
            &mut |e, _, _| {
                if let Expr::Typed(inner, t) = e {
                    let old = std::mem::replace(&mut **inner, Expr::UnitLit);
                    **inner = Expr::Field(Box::new(old), 0);
                    detail = format!("field of a value of type {}", t.roto());
                }
            },
        ),
        "fstring-no-to-string" => {
            let mut seed = prng.clone();
            prng.next();
            pick_expr(prng, prog, &|e, _, _| matches!(e, Expr::FStr(_)), &mut |e, _, _| {
                if let Expr::FStr(parts) = e {
                    let bad = match seed.below(4) {
                        0 => Expr::ListLit(vec![Expr::IntLit(1, None)]),
                        1 => Expr::Some(Box::new(Expr::BoolLit(true))),
                        2 => Expr::UnitLit,
                        _ => Expr::None,
                    };
                    if parts.is_empty() || seed.chance(1, 2) {
                        parts.push(bad);
                    } else {
                        parts[0] = bad;
                    }
                    detail = "a part of an f-string has no to_string method".into();
                }
            })
        }
        "unknown-type" => {
            let mut p = prog.clone();
            let unknown = Ty::Named(777);
            match prng.below(4) {
                0 => {
                    // a `let` annotation
                    let mut seed = prng.clone();
                    prng.next();
                    return pick_block(
                        prng,
                        prog,
                        &|b, _, _| b.stmts.iter().any(|s| matches!(s, Stmt::Let(_, Some(_), _))),
                        &mut |b, _, _| {
                            let idx: Vec<usize> = (0..b.stmts.len()).filter(|i| matches!(b.stmts[*i], Stmt::Let(_, Some(_), _))).collect();
                            let i = *seed.pick(&idx);
                            if let Stmt::Let(_, ann, _) = &mut b.stmts[i] {
                                *ann = Some(if seed.chance(1, 2) { Ty::Named(777) } else { Ty::Opt(Box::new(Ty::Named(777))) });
                            }
                        },
                    )
                    .filter(|q| q != prog)
                    .map(|prog| Mutant { prog, kind, detail: "unknown type in a let annotation".into() });
                }
                1 => {
                    let fns: Vec<usize> = (0..p.decls.len()).filter(|i| matches!(&p.decls[*i], Decl::Fn { params, .. } if !params.is_empty())).collect();
                    if fns.is_empty() {
                        return None;
                    }
                    let i = *prng.pick(&fns);
                    if let Decl::Fn { params, .. } = &mut p.decls[i] {
                        let k = prng.below(params.len() as u64) as usize;
                        params[k].1 = unknown;
                    }
                    detail = "unknown parameter type".into();
                }
                2 => {
                    let fns: Vec<usize> = (0..p.decls.len()).filter(|i| matches!(&p.decls[*i], Decl::Fn { .. })).collect();
                    if fns.is_empty() {
                        return None;
                    }
                    let i = *prng.pick(&fns);
                    if let Decl::Fn { ret, .. } = &mut p.decls[i] {
                        *ret = Ty::List(Box::new(unknown));
                    }
                    detail = "unknown type in a return type".into();
                }
                _ => {
                    let tys: Vec<usize> = (0..p.decls.len()).filter(|i| matches!(&p.decls[*i], Decl::Rec { .. } | Decl::Enum { .. })).collect();
                    if tys.is_empty() {
                        return None;
                    }
                    let i = *prng.pick(&tys);
                    match &mut p.decls[i] {
                        Decl::Rec { fields, .. } => fields.push((9500, unknown)),
                        Decl::Enum { variants, .. } => variants.push((9500, vec![unknown])),
                        _ => {}
                    }
                    detail = "unknown type in a type declaration".into();
                }
            }
            Some(p)
        }
        "drop-value-short-circuit" => {
            let mut seed = prng.clone();
            prng.next();
            pick_block(
                prng,
                prog,
                &|b, k, it| {
                    matches!(k, BlockKind::FnBody(_))
                        && b.last.is_some()
                        && !matches!(it.ret, Some(Ty::Unit) | Some(Ty::Verdict(..)))
                        && !matches!(b.last.as_deref().map(|e| e.strip()), Some(Expr::Ret(..)))
                },
                &mut |b, _, _| {
                    let e = b.last.take().unwrap();
                    let op = if seed.chance(1, 2) { Op::And } else { Op::Or };
                    let lhs = Expr::BoolLit(seed.chance(1, 2));
                    let st = Expr::Bin(op, Box::new(lhs), Box::new(Expr::Ret(RetKind::Return, Some(e))));
                    if seed.chance(1, 2) {
                        b.stmts.push(Stmt::Do(st));
                    } else {
                        b.stmts.push(Stmt::Let(96_000, None, st));
                    }
                    detail = format!("value only returned from the right operand of `{}`", op.roto());
                },
            )
        }
        "drop-value" => {
            if prng.chance(2, 3) {
                pick_block(
                    prng,
                    prog,
                    &|b, k, it| {
                        matches!(k, BlockKind::FnBody(_))
                            && b.last.is_some()
                            && !matches!(it.ret, Some(Ty::Unit) | Some(Ty::Verdict(..)))
                            && !matches!(b.last.as_deref().map(|e| e.strip()), Some(Expr::Ret(..)))
                    },
                    &mut |b, _, _| {
                        let e = b.last.take().unwrap();
                        b.stmts.push(Stmt::Do(*e));
                        detail = "value of the function body turned into a statement".into();
                    },
                )
            } else {
                pick_expr(
                    prng,
                    prog,
                    &|e, r, _| matches!(e, Expr::Typed(inner, t) if *t != Ty::Unit && matches!(**inner, Expr::If(_, _, Some(_)))) && r != Role::Stmt,
                    &mut |e, _, _| {
                        if let Expr::Typed(inner, _) = e {
                            if let Expr::If(_, _, els) = &mut **inner {
                                *els = None;
                                detail = "else branch of a value-producing if removed".into();
                            }
                        }
                    },
                )
            }
        }
        _ => None,
    };
    out.filter(|p| p != prog).map(|prog| Mutant { prog, kind, detail })
}

/// a variable whose scope is nested in this statement: a `let` inside one of
/// its blocks, a `for` variable, a match binder
fn inner_let(s: &Stmt) -> Option<usize> {
    let e = match s {
        Stmt::Do(e) => e,
        Stmt::Let(_, _, e) => e,
        Stmt::Import(..) => return None,
    };
    match e.strip() {
        Expr::If(_, t, e2) => lets_of(t).first().cloned().or_else(|| e2.as_ref().and_then(|b| lets_of(b).first().cloned())),
        Expr::While(_, b) => lets_of(b).first().cloned(),
        Expr::For(x, _, _) => Some(*x),
        Expr::Match(_, arms) => arms.iter().find_map(|a| match &a.pat {
            Pat::Variant { binders: Some(bs), .. } => bs.first().cloned(),
            _ => lets_of(&a.body).first().cloned(),
        }),
        Expr::BlockE(b) => lets_of(b).first().cloned(),
        _ => None,
    }
}
