//! Phase `shadow`: scripts whose OWN type declarations reuse the name of a built-in type.
//!
//! A script may declare `record u32 { .. }`, `enum Option { .. }`, `record List { .. }`: inside
//! that script the name denotes the script's type (the suite's `overriding_builtin.roto` relies on
//! it), and every rule the type checker special-cases for a built-in type — `?` needs a function
//! returning the built-in `Option`, `+` concatenates the built-in `List` / `String`, arithmetic and
//! ordering need the built-in numbers, conditions the built-in `bool`, an integer literal only fits
//! the built-in integers, `for` iterates the built-in `List`, f-string parts need a `to_string` —
//! must NOT apply to it. Typability does not depend on how a declared type is spelled, so the
//! verdict of the declarative checker `D` and of the inference model on the script written with
//! `T0` (their s-expressions number the types) is the verdict for the script with `T0` spelled as
//! the built-in name, as long as the script does not mention that built-in by name elsewhere.
//!
//! Representatives (seed-independent, first): every representative of phase `infer` that declares
//! `T0` x every built-in type name it does not mention. The comparison is `infer::compare`: same
//! accept / reject and class of report as the inference model; a script the model and `D` reject
//! and the checker accepts is an implementation violation (replay = the script).

use super::infer::{REPS, compare};
use crate::{Outcome, compile};
use roto::{NoCtx, Runtime};
use rotov_harness::Report;
use rotov_harness::driver::Driver;
use serde_json::json;

/// the type names `Runtime::new()` declares in the global scope
pub const BUILTIN_NAMES: &[&str] = &[
    "Option", "List", "String", "bool", "u8", "u16", "u32", "u64", "i8", "i16", "i32", "i64", "f32", "f64", "Verdict", "IpAddr", "Prefix", "Asn", "char",
];

fn words(src: &str) -> Vec<&str> {
    src.split(|c: char| !(c.is_ascii_alphanumeric() || c == '_')).filter(|w| !w.is_empty()).collect()
}

/// `src` with the identifier `from` spelled `to` (whole identifiers only)
pub fn rename_word(src: &str, from: &str, to: &str) -> String {
    let mut out = String::with_capacity(src.len());
    let b = src.as_bytes();
    let is_id = |c: u8| c.is_ascii_alphanumeric() || c == b'_';
    let mut i = 0;
    while i < b.len() {
        if is_id(b[i]) {
            let s = i;
            while i < b.len() && is_id(b[i]) {
                i += 1;
            }
            let w = &src[s..i];
            out.push_str(if w == from { to } else { w });
        } else {
            // (scripts are ASCII except inside string literals, which contain no identifiers of ours)
            let ch = src[i..].chars().next().unwrap();
            out.push(ch);
            i += ch.len_utf8();
        }
    }
    out
}

/// can the declared type `ty` of `src` be spelled `name` without changing what any other
/// mention means? (the script does not mention the built-in by name, and — for `Option` — does
/// not name its variants in patterns, which would still be read against the examinee's type but
/// keep the script honest about what it tests)
pub fn can_shadow(src: &str, ty: &str, name: &str) -> bool {
    let w = words(src);
    w.contains(&ty) && !w.contains(&name)
}

/// the table: (index into REPS, built-in name)
pub fn table() -> Vec<(usize, &'static str)> {
    let mut out = Vec::new();
    for (i, (_, src, _)) in REPS.iter().enumerate() {
        for name in BUILTIN_NAMES {
            if can_shadow(src, "T0", name) {
                out.push((i, *name));
            } else if *name == "i32" && words(src).contains(&"T0") && !words(src).contains(&"i64") && src.matches("i32").count() == words(src).iter().filter(|w| **w == "i32").count() {
                // nearly every representative mentions `i32`: written with `i64` instead (source and
                // s-expression alike; D and the model judge the rewritten script), `T0` can be spelled `i32`
                out.push((i, "i32"));
            }
        }
    }
    out
}

pub fn shadow_case(rt: &Runtime<NoCtx>, drv: &mut Driver, index: u64, rep: &mut Report) {
    let t = table();
    let Some(&(i, name)) = t.get(index as usize) else { return };
    let (rname, src, sexp) = REPS[i];
    let (src, sexp) = if can_shadow(src, "T0", name) { (src.to_string(), sexp.to_string()) } else { (rename_word(src, name, "i64"), rename_word(sexp, name, "i64")) };
    let (src, sexp) = (src.as_str(), sexp.as_str());
    let shadowed = rename_word(src, "T0", name);
    // the spelling of a declared type does not matter: the script with `T0` and the script with
    // the built-in's name must get the same verdict from the type checker
    let plain = compile(rt, src, false);
    let real = compile(rt, &shadowed, false);
    let same = match (&plain, &real) {
        (Outcome::Ok, Outcome::Ok) => true,
        (Outcome::TypeError(a), Outcome::TypeError(b)) => super::infer::real_class(a) == super::infer::real_class(b),
        _ => false,
    };
    compare(rt, drv, &format!("shadow:{name}:{rname}"), &shadowed, sexp, json!({"rep": rname, "shadow": name}), rep);
    if !same && plain != Outcome::Ok && real == Outcome::Ok {
        // (reported by `compare` as a violation when the model and D reject; kept as a class)
        rep.hist("shadow", format!("{name}:accepted-only-under-the-built-in-name"));
    } else if !same {
        rep.mismatch(
            &format!("the type checker answers differently when the declared type `T0` is spelled `{name}`: {plain:?} vs {real:?}"),
            json!({"phase": "infer", "what": format!("shadow:{name}:{rname}"), "id": {"rep": rname, "shadow": name}, "src": shadowed, "sexp": sexp}),
        );
    }
    rep.hist("shadow", format!("{name}:{}", if real == Outcome::Ok { "accepted" } else { "rejected" }));
}

/// the random side: spell one declared type of a generated script as a built-in the script does
/// not mention (used by phases `prog` and `infer-gen` on a share of their programs)
pub fn shadow_generated(src: &str, pick: u64) -> Option<(String, &'static str, String)> {
    let w = words(src);
    // only types the script DECLARES (a mutant may mention an undeclared `T9`: spelled `u32` it would exist)
    let mut tys: Vec<&str> = w.windows(2).filter(|p| p[0] == "record" || p[0] == "enum").map(|p| p[1]).collect();
    tys.sort();
    tys.dedup();
    if tys.is_empty() {
        return None;
    }
    let names: Vec<&'static str> = BUILTIN_NAMES.iter().copied().filter(|n| !w.contains(n)).collect();
    if names.is_empty() {
        return None;
    }
    let ty = tys[(pick % tys.len() as u64) as usize];
    let name = names[((pick / 7) % names.len() as u64) as usize];
    Some((rename_word(src, ty, name), name, ty.to_string()))
}
