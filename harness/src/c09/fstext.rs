//! I. f-string text parts: escape sequences × brace escapes.
//!
//! The text parts of an f-string are read by two scanners that must agree on
//! where an escape sequence ends: `Lexer::f_string_part` (where does the part
//! end) and `unescape_f_string_part` (which `{{` / `}}` are brace escapes; the
//! pieces in between go to `unescape_str`).  The class covered here is every
//! SHORT SEQUENCE over an alphabet of source fragments in which the scanners
//! can get out of step: an escaped backslash, a lone backslash, `u`, `x`, hex
//! digits, `{`, `}`, `{{`, `}}`, `\u{…}`, `\x7b`, an escaped quote, a
//! multi-byte character, a line continuation.  The sequences are enumerated
//! exhaustively (seed-independent), so `\\` + `u` + `{{` is one of them.
//!
//! Oracle: an independent left-to-right decoder of the DOCUMENTED grammar
//! (`reference`): a text part is a sequence of plain characters, documented
//! escape sequences, `{{` and `}}`; `{ident}` / `{digits}` is a hole.  Inputs
//! the manual does not define (a lone `}`, an unknown escape, other hole
//! contents) are compared between the implementation and the Lean models only
//! (no demand on the implementation).  For documented inputs:
//!   real parse tree (hook: lexer + parser)  = reference parts   (violation)
//!   real value on the JIT                   = reference value   (violation)
//!   Lean `fString` (hand model)             = reference parts   (mismatch)
//!   Lean `fStringP` with the GENERATED arm  = real parse tree   (mismatch)

use super::{compile, hexs, hook};
use rotov_harness::driver::Driver;
use rotov_harness::{Prng, Report};
use serde_json::{Value, json};
use std::collections::BTreeSet;

/// the core alphabet: enumerated to length 4 (thorough: 5)
const CORE: &[&str] = &["\\\\", "\\", "u", "{", "}", "{{", "}}", "x", "7", "b", "é", "\\\""];
/// the wide alphabet: enumerated to length 3
const WIDE: &[&str] = &[
    "\\\\", "\\", "u", "{", "}", "{{", "}}", "x", "7", "b", "é", "\\\"", "a", "U", "d", "\\n", "\\x7b", "\\x7d", "\\u{7b}",
    "\\u{7d}", "\\u{41}", "\\u{1F600}", "{x}", "\\\n  ", "\\'", "😀",
];

#[derive(Clone, Debug, PartialEq)]
pub enum RefPart {
    Text(String),
    Hole(String),
}

pub enum Ref {
    Documented(Vec<RefPart>),
    Undocumented(&'static str),
}

fn hexval(c: char) -> Option<u32> {
    c.to_digit(16)
}

/// The documented reading of the characters between `f"` and the closing quote.
pub fn reference(body: &str) -> Ref {
    let cs: Vec<char> = body.chars().collect();
    let mut parts: Vec<RefPart> = vec![];
    let mut cur = String::new();
    let mut cur_src = false;
    let mut i = 0;
    while i < cs.len() {
        let c = cs[i];
        match c {
            '"' => return Ref::Undocumented("bare-quote"),
            '\r' => return Ref::Undocumented("bare-cr"),
            '\\' => {
                let Some(&k) = cs.get(i + 1) else { return Ref::Undocumented("dangling-backslash") };
                cur_src = true;
                match k {
                    'n' => { cur.push('\n'); i += 2 }
                    't' => { cur.push('\t'); i += 2 }
                    'r' => { cur.push('\r'); i += 2 }
                    '0' => { cur.push('\0'); i += 2 }
                    '\\' => { cur.push('\\'); i += 2 }
                    '\'' => { cur.push('\''); i += 2 }
                    '"' => { cur.push('"'); i += 2 }
                    'x' => {
                        let (Some(h), Some(l)) = (cs.get(i + 2).and_then(|c| hexval(*c)), cs.get(i + 3).and_then(|c| hexval(*c))) else {
                            return Ref::Undocumented("bad-escape");
                        };
                        let v = h * 16 + l;
                        if v > 0x7f {
                            return Ref::Undocumented("bad-escape");
                        }
                        cur.push(char::from_u32(v).unwrap());
                        i += 4;
                    }
                    'u' => {
                        if cs.get(i + 2) != Some(&'{') {
                            return Ref::Undocumented("bad-escape");
                        }
                        let mut j = i + 3;
                        let mut v: u32 = 0;
                        let mut n = 0;
                        loop {
                            match cs.get(j) {
                                Some('}') => break,
                                Some('_') if n > 0 => {}
                                Some(&d) if hexval(d).is_some() && n < 6 => {
                                    v = v * 16 + hexval(d).unwrap();
                                    n += 1;
                                }
                                _ => return Ref::Undocumented("bad-escape"),
                            }
                            j += 1;
                        }
                        let Some(ch) = (if n == 0 { None } else { char::from_u32(v) }) else {
                            return Ref::Undocumented("bad-escape");
                        };
                        cur.push(ch);
                        i = j + 1;
                    }
                    '\n' => {
                        i += 2;
                        while matches!(cs.get(i), Some(' ' | '\t' | '\n' | '\r')) {
                            i += 1;
                        }
                    }
                    _ => return Ref::Undocumented("bad-escape"),
                }
            }
            '{' => {
                if cs.get(i + 1) == Some(&'{') {
                    cur.push('{');
                    cur_src = true;
                    i += 2;
                } else {
                    let Some(len) = cs[i + 1..].iter().position(|c| *c == '}') else {
                        return Ref::Undocumented("hole-unterminated");
                    };
                    let content: String = cs[i + 1..i + 1 + len].iter().collect();
                    let mut it = content.chars();
                    let ident = match it.next() {
                        Some(c0) => (hook::is_xid_start(c0) || c0 == '_') && it.all(hook::is_xid_continue),
                        None => false,
                    };
                    let digits = !content.is_empty() && content.len() <= 9 && content.chars().all(|c| c.is_ascii_digit());
                    if !(ident || digits) {
                        return Ref::Undocumented("hole-content");
                    }
                    if cur_src {
                        parts.push(RefPart::Text(std::mem::take(&mut cur)));
                        cur_src = false;
                    }
                    parts.push(RefPart::Hole(content));
                    i += len + 2;
                }
            }
            '}' => {
                if cs.get(i + 1) == Some(&'}') {
                    cur.push('}');
                    cur_src = true;
                    i += 2;
                } else {
                    return Ref::Undocumented("lone-rbrace");
                }
            }
            c => {
                cur.push(c);
                cur_src = true;
                i += 1;
            }
        }
    }
    if cur_src {
        parts.push(RefPart::Text(cur));
    }
    Ref::Documented(parts)
}

/// the parse hook's tree of the documented parts (empty texts dropped)
fn parts_sexp(parts: &[RefPart]) -> String {
    let mut s = String::from("(fstr");
    for p in parts {
        match p {
            RefPart::Text(t) if t.is_empty() => {}
            RefPart::Text(t) => s.push_str(&format!(" (text {})", hexs(t))),
            RefPart::Hole(h) if h.chars().all(|c| c.is_ascii_digit()) => {
                s.push_str(&format!(" (hole (int {} -))", h.parse::<u64>().unwrap_or(0)))
            }
            RefPart::Hole(h) => s.push_str(&format!(" (hole {h})")),
        }
    }
    s.push(')');
    s
}

/// the Lean driver's rendering of the documented parts (`showParts`)
fn parts_lean(parts: &[RefPart]) -> String {
    let v: Vec<String> = parts
        .iter()
        .filter_map(|p| match p {
            RefPart::Text(t) if t.is_empty() => None,
            RefPart::Text(t) => Some(format!("T{}", hexs(t))),
            RefPart::Hole(h) => Some(format!("H{}", hexs(h))),
        })
        .collect();
    format!("ok {}", v.join(" ")).trim_end().to_string()
}

fn canon_lean(ans: &str) -> String {
    let v: Vec<&str> = ans.split(' ').filter(|w| *w != "T-").collect();
    v.join(" ")
}

/// a hole-free Lean answer as the parse hook would print it
fn lean_to_sexp(ans: &str) -> Option<String> {
    let rest = ans.strip_prefix("ok")?;
    let mut s = String::from("(fstr");
    for w in rest.split(' ').filter(|w| !w.is_empty()) {
        let h = w.strip_prefix('T')?;
        if h != "-" {
            s.push_str(&format!(" (text {h})"));
        }
    }
    s.push(')');
    Some(s)
}

fn canon_real(r: &Result<String, String>) -> String {
    match r {
        Ok(t) => t.replace(" (text -)", ""),
        Err(e) if e.starts_with("PANIC") => "panic".into(),
        Err(_) => "err".into(),
    }
}

fn real_parse(body: &str) -> Result<String, String> {
    // (a blank after the closing quote: see check_literal)
    hook::parse_expr(&format!("f\"{body}\" "))
}

fn has_bare_quote(body: &str) -> bool {
    let mut it = body.chars();
    while let Some(c) = it.next() {
        match c {
            '\\' => {
                it.next();
            }
            '"' => return true,
            _ => {}
        }
    }
    false
}

fn features(body: &str, outcome: &str) -> String {
    let mut k: BTreeSet<&str> = BTreeSet::new();
    let cs: Vec<char> = body.chars().collect();
    let mut i = 0;
    let mut after_escape = false;
    while i < cs.len() {
        let c = cs[i];
        let n = cs.get(i + 1);
        let mut esc = false;
        match c {
            '\\' => {
                k.insert(match n {
                    Some('\\') => "bs-bs",
                    Some('u') => "bs-u",
                    Some('x') => "bs-x",
                    Some('"') => "bs-quote",
                    Some('{') | Some('}') => "bs-brace",
                    Some('\n') => "cont",
                    Some(_) => "bs-other",
                    None => "bs-end",
                });
                // what follows an escaped backslash decides whether the scanners can get out of step
                if n == Some(&'\\') {
                    k.insert(match cs.get(i + 2) {
                        Some('u') => "bsbs>u",
                        Some('x') => "bsbs>x",
                        Some('{') | Some('}') => "bsbs>brace",
                        Some('\\') => "bsbs>bs",
                        _ => "bsbs>other",
                    });
                }
                esc = true;
                i += 1;
            }
            '{' if n == Some(&'{') => {
                k.insert(if after_escape { "esc>lbrace2" } else { "lbrace2" });
                i += 1;
            }
            '}' if n == Some(&'}') => {
                k.insert(if after_escape { "esc>rbrace2" } else { "rbrace2" });
                i += 1;
            }
            '{' | '}' => {
                k.insert("brace1");
            }
            'u' | 'x' if matches!(n, Some('{')) => {
                k.insert("ux>brace");
            }
            c if !c.is_ascii() => {
                k.insert("multibyte");
            }
            _ => {}
        }
        after_escape = esc;
        i += 1;
    }
    let v: Vec<&str> = k.into_iter().collect();
    format!("fstext|{outcome}|{}", v.join("+"))
}

fn enumerate(alpha: &[&str], max_len: usize, out: &mut BTreeSet<String>) {
    fn go(alpha: &[&str], left: usize, cur: &mut String, out: &mut BTreeSet<String>) {
        if !cur.is_empty() {
            out.insert(cur.clone());
        }
        if left == 0 {
            return;
        }
        for a in alpha {
            let n = cur.len();
            cur.push_str(a);
            go(alpha, left - 1, cur, out);
            cur.truncate(n);
        }
    }
    go(alpha, max_len, &mut String::new(), out);
}

fn input(body: &str, mode: &str) -> Value {
    json!({"kind": "fstext", "body": body, "mode": mode, "source": format!("f\"{body}\"")})
}

/// parse-level check of one body; returns true when the real parts are the documented ones
fn check_parse(rep: &mut Report, body: &str, lean_hand: Option<&str>, lean_gen: Option<&str>) -> bool {
    rep.evaluations += 1;
    let real = real_parse(body);
    let realc = canon_real(&real);
    let r = reference(body);
    let mut ok = false;
    match &r {
        Ref::Documented(parts) => {
            let want = parts_sexp(parts);
            rep.class(features(body, "documented"));
            rep.hist("fstext-outcome", "documented");
            if realc == want {
                ok = true;
            } else {
                rep.violation(
                    "an f-string whose text parts combine escape sequences and brace escapes per the documented grammar does not have the documented parts",
                    "fstring-text-escape-brace",
                    json!({"case": input(body, "parse"), "documented": want, "real": real.clone().unwrap_or_else(|e| e.chars().take(200).collect())}),
                );
            }
            if let Some(h) = lean_hand {
                if canon_lean(h) != parts_lean(parts) && ok {
                    rep.mismatch("Lean fString (hand model) differs from the documented parts (the real code agrees with the document)", json!({"body": body, "lean": h, "documented": parts_lean(parts)}));
                }
            }
            if let Some(g) = lean_gen {
                // the model run with the GENERATED arm must do what the real code does
                let real_as_lean = if ok { Some(parts_lean(parts)) } else { None };
                match real_as_lean {
                    Some(w) if canon_lean(g) != w => rep.mismatch("Lean fStringP with the generated backslash arm differs from the real code", json!({"body": body, "lean": g, "real": realc})),
                    None if !g.contains('H') => {
                        if lean_to_sexp(g).unwrap_or_else(|| "err".into()) != realc {
                            rep.mismatch("Lean fStringP with the generated backslash arm differs from the real code (which violates the document)", json!({"body": body, "lean": g, "real": realc}));
                        }
                    }
                    _ => {}
                }
            }
        }
        Ref::Undocumented(why) => {
            rep.class(features(body, why));
            rep.hist("fstext-outcome", *why);
            if realc == "panic" {
                rep.notes.push(format!("observation: parsing f\"{body}\" panics ({why}; outside the documented grammar)"));
            }
            // no demand on the implementation; the models must still mirror it where they can
            for (name, ans) in [("hand model", lean_hand), ("generated arm", lean_gen)] {
                let Some(a) = ans else { continue };
                // (a bare quote ends the f-string early: what follows is not part of it)
                if a.contains('H') || realc == "panic" || has_bare_quote(body) {
                    continue;
                }
                let m = lean_to_sexp(a).unwrap_or_else(|| "err".into());
                if m != realc {
                    rep.mismatch(&format!("Lean f-string model ({name}) differs from the real code on a text outside the documented grammar"), json!({"body": body, "why": why, "lean": a, "real": realc}));
                }
            }
        }
    }
    ok
}

/// value-level check: the f-string evaluated on the JIT (every hole variable is 3)
fn check_eval(rep: &mut Report, body: &str) {
    let Ref::Documented(parts) = reference(body) else { return };
    let mut vars: BTreeSet<String> = BTreeSet::new();
    let mut want = String::new();
    for p in &parts {
        match p {
            RefPart::Text(t) => want.push_str(t),
            RefPart::Hole(h) if h.chars().all(|c| c.is_ascii_digit()) => want.push_str(&h.parse::<u64>().unwrap_or(0).to_string()),
            RefPart::Hole(h) => {
                vars.insert(h.clone());
                want.push('3');
            }
        }
    }
    rep.evaluations += 1;
    rep.class(features(body, "evaluated"));
    let lets: String = vars.iter().map(|v| format!("let {v}: i32 = 3; ")).collect();
    let src = format!("fn main() -> String {{ {lets}f\"{body}\" }}");
    let got = compile(&src).and_then(|mut pkg| {
        pkg.get_function::<fn() -> roto::RotoString>("main")
            .map(|f| {
                let r = f.call();
                let s: &str = &r;
                s.to_string()
            })
            .map_err(|e| format!("{e}"))
    });
    if got.as_deref() != Ok(want.as_str()) {
        rep.violation(
            "an f-string whose text parts combine escape sequences and brace escapes per the documented grammar does not evaluate to the documented string",
            "fstring-text-escape-brace-value",
            json!({"case": input(body, "eval"), "src": src, "documented": want, "real": format!("{got:?}").chars().take(300).collect::<String>()}),
        );
    }
}

/// class representatives: one minimal text per way the two scanners can get out of step
const REPRESENTATIVES: &[&str] = &[
    "\\\\u{{", "\\\\u{{x}}", "\\\\u{{{x}}}", "\\\\{{", "\\\\}}", "\\\\{x}", "\\\\x7b{{", "\\\\\\\\u{{", "\\\\\\u{41}{{",
    "\\u{41}{{", "{{\\u{41}", "\\u{41}}}", "}}\\u{41}", "\\u{7b}{{", "\\u{7d}}}", "\\u{7b}\\u{7b}", "\\u{7d}\\u{7d}}}", "\\u{1F600}{x}",
    "\\x7b{{", "{{\\x7b", "\\x7d}}", "\\x7b\\x7b", "\\x7d\\x7d", "\\x7b{x}", "\\\"{{", "{{\\\"", "\\\"}}", "\\\"{x}\\\"", "\\n{{", "\\'}}",
    "u{{", "xu{{x}}", "\\\\u", "\\\\x7b", "\\\\\\\"", "é{{", "{{é}}", "é\\\\u{{é}}", "😀}}{x}", "\\\n  {{", "{{\\\n  }}", "{x}\\\\u{{{x}}}",
    "{{{x}}}", "}}{{", "{{}}", "{{{{", "}}}}", "{x}}}", "{{{x}",
];

/// runs of escaped backslashes (even / odd number of backslashes) in front of
/// everything that reads differently after a backslash
fn backslash_runs() -> Vec<String> {
    let tails = [
        "u{{", "u{{x}}", "u{41}", "u{41}{{", "u{7b}{{", "{{", "}}", "{x}", "\"", "\"{{", "x7b", "x7b{{", "n{{", "u", "x", "é{{", "{{{x}}}",
        "\n  {{",
    ];
    let mut out = vec![];
    for n in 1..=6 {
        for t in tails {
            // n backslashes: even = n/2 escaped backslashes, odd = the last one escapes the tail's first character
            out.push(format!("{}{t}", "\\".repeat(n)));
            out.push(format!("{{{{{}{t}", "\\".repeat(n)));
            out.push(format!("é{}{t}}}}}", "\\".repeat(n)));
        }
    }
    out
}

fn check_with_models(rep: &mut Report, drv: &mut Driver, bodies: &[String]) -> Vec<bool> {
    let mut reqs = vec![];
    for b in bodies {
        let q = hexs(&format!("{b}\""));
        reqs.push(format!("c09 fstr {q}"));
        reqs.push(format!("c09 fstrgen {q}"));
    }
    let ans = drv.ask_all(&reqs);
    bodies.iter().enumerate().map(|(k, b)| check_parse(rep, b, Some(&ans[2 * k]), Some(&ans[2 * k + 1]))).collect()
}

/// random longer sequences over the wide alphabet (after the tables; depends on the seed)
pub fn run_random(rep: &mut Report, drv: &mut Driver, p: &mut Prng, thorough: bool) {
    let n = if thorough { 40_000 } else { 3_000 };
    let mut bodies = vec![];
    for _ in 0..n {
        let len = 4 + p.below(9) as usize;
        let mut b = String::new();
        for _ in 0..len {
            // escaped backslashes, `u`, and braces more often than the rest
            let f = match p.below(10) {
                0 | 1 => "\\\\",
                2 => *p.pick(&["u", "x", "\\u{41}", "\\x7b"]),
                3 | 4 => *p.pick(&["{{", "}}", "{x}"]),
                _ => *p.pick(WIDE),
            };
            b.push_str(f);
        }
        bodies.push(b);
    }
    let oks = check_with_models(rep, drv, &bodies);
    let mut budget = if thorough { 1500 } else { 120 };
    for (b, ok) in bodies.iter().zip(oks) {
        if ok && budget > 0 && b.contains('\\') && (b.contains("{{") || b.contains("}}")) {
            budget -= 1;
            check_eval(rep, b);
        }
    }
}

pub fn run(rep: &mut Report, drv: &mut Driver, thorough: bool) {
    // representatives first: parse, models, JIT
    for body in REPRESENTATIVES {
        let q = hexs(&format!("{body}\""));
        let h = drv.ask(&format!("c09 fstr {q}"));
        let g = drv.ask(&format!("c09 fstrgen {q}"));
        check_parse(rep, body, Some(&h), Some(&g));
        check_eval(rep, body);
    }
    // backslash runs of every parity in front of `u{{`, braces, holes, quotes …
    let runs = backslash_runs();
    let oks = check_with_models(rep, drv, &runs);
    for (b, ok) in runs.iter().zip(oks) {
        if ok && (b.contains("{{") || b.contains("}}")) {
            check_eval(rep, b);
        }
    }
    // the exhaustive tables
    let mut all: BTreeSet<String> = BTreeSet::new();
    enumerate(CORE, if thorough { 5 } else { 4 }, &mut all);
    enumerate(WIDE, 3, &mut all);
    let bodies: Vec<String> = all.into_iter().collect();
    // Lean models: every body with a backslash or a brace, up to a budget (stride keeps the order-independent spread)
    let lean_budget = if thorough { 120_000 } else { 14_000 };
    let stride = bodies.len().div_ceil(lean_budget).max(1);
    let mut reqs: Vec<String> = vec![];
    let mut asked: Vec<usize> = vec![];
    for (i, b) in bodies.iter().enumerate() {
        if i % stride == 0 || b.chars().count() <= 4 {
            let q = hexs(&format!("{b}\""));
            reqs.push(format!("c09 fstr {q}"));
            reqs.push(format!("c09 fstrgen {q}"));
            asked.push(i);
        }
    }
    let answers = drv.ask_all(&reqs);
    let mut lean: std::collections::HashMap<usize, (String, String)> = Default::default();
    for (k, i) in asked.iter().enumerate() {
        lean.insert(*i, (answers[2 * k].clone(), answers[2 * k + 1].clone()));
    }
    let mut eval_budget = if thorough { 4000 } else { 350 };
    let mut documented_ok: Vec<&String> = vec![];
    for (i, b) in bodies.iter().enumerate() {
        let (h, g) = match lean.get(&i) {
            Some((h, g)) => (Some(h.as_str()), Some(g.as_str())),
            None => (None, None),
        };
        if check_parse(rep, b, h, g) && b.contains('\\') && (b.contains("{{") || b.contains("}}")) {
            documented_ok.push(b);
        }
    }
    // JIT values: documented texts that mix escapes and brace escapes, spread evenly
    let step = documented_ok.len().div_ceil(eval_budget).max(1);
    for b in documented_ok.iter().step_by(step) {
        if eval_budget == 0 {
            break;
        }
        eval_budget -= 1;
        check_eval(rep, b);
    }
}

pub fn replay(rep: &mut Report, case: &Value) -> bool {
    if case["kind"] != "fstext" {
        return false;
    }
    let body = case["body"].as_str().unwrap_or("");
    if case["mode"] == "eval" {
        check_eval(rep, body);
    } else {
        check_parse(rep, body, None, None);
    }
    true
}
