//! C09, section G: prefix operators × operand kinds × postfix forms.
//!
//! The documented grammar (EBNF comments of src/parser/expr.rs):
//!
//! ```text
//! Negation ::= ('!' | '-')* Access
//! Access   ::= Atom ('?' | Args | '.' Ident)*
//! ```
//!
//! so a prefix operator applies to the COMPLETE access expression (atom plus
//! method calls, field accesses, `?`), and that is one operand of the binary
//! operators: `-2.0f64.pow(2.0)` = `-(2.0f64.pow(2.0))`. The operand kinds
//! matter because the lexer/parser could treat a sign in front of a numeric
//! literal specially; so every kind of atom (identifier, suffixed and
//! unsuffixed integer / float literals, hex, IPv4 / IPv6, AS numbers, strings,
//! chars, booleans, parenthesised expressions) is generated under every prefix
//! chain and before every postfix chain, at every operator position.
//!
//!   P. real parse tree (hook) vs the Lean reference grammar (`c09 ref`, flat
//!      per (sub)expression; the harness only substitutes the atoms' and the
//!      argument lists' own trees) vs the Lean model of `binop_expr` /
//!      `negation` / `access` (`c09 pratt`);
//!   V. values on the JIT: fixed representatives against the documented value,
//!      and `e` against the fully parenthesised form printed from the Lean
//!      reference tree (both compile and agree bit for bit, or both are
//!      rejected).
//! The class representatives (prefix × operand kind × postfix kind × position
//! × layout) run first and do not depend on the seed.

use super::{OPS, compile, gen_asn, gen_char, gen_float, gen_int, gen_ip, gen_string, hook};
use rotov_harness::driver::Driver;
use rotov_harness::{Prng, Report};
use serde_json::{Value, json};

#[derive(Clone, Debug)]
pub enum Atom {
    Id(String),
    /// kind, source text, s-expression of the hook
    Lit(&'static str, String, String),
    Paren(Box<GExpr>),
}

#[derive(Clone, Debug)]
pub enum Post {
    Try,
    Field(String),
    Call(Vec<GExpr>),
}

#[derive(Clone, Debug)]
pub struct Operand {
    /// prefix chain, outermost first: `n` = `!`, `m` = `-`
    pub pre: String,
    pub atom: Atom,
    pub post: Vec<Post>,
}

#[derive(Clone, Debug)]
pub struct GExpr {
    pub first: Operand,
    pub rest: Vec<(usize, Operand)>,
}

impl GExpr {
    pub fn single(o: Operand) -> GExpr {
        GExpr { first: o, rest: vec![] }
    }
}

// ---------------------------------------------------------------- source text

#[derive(Clone, Copy, PartialEq)]
enum TK {
    Pre,
    Bin,
    Comma,
    Other,
}

fn emit(e: &GExpr, out: &mut Vec<(TK, String)>) {
    emit_operand(&e.first, out);
    for (o, x) in &e.rest {
        out.push((TK::Bin, OPS[*o].1.to_string()));
        emit_operand(x, out);
    }
}

fn emit_operand(x: &Operand, out: &mut Vec<(TK, String)>) {
    for c in x.pre.chars() {
        out.push((TK::Pre, if c == 'n' { "!".into() } else { "-".into() }));
    }
    match &x.atom {
        Atom::Id(s) => out.push((TK::Other, s.clone())),
        Atom::Lit(_, s, _) => out.push((TK::Other, s.clone())),
        Atom::Paren(e) => {
            out.push((TK::Other, "(".into()));
            emit(e, out);
            out.push((TK::Other, ")".into()));
        }
    }
    for p in &x.post {
        match p {
            Post::Try => out.push((TK::Other, "?".into())),
            Post::Field(n) => {
                out.push((TK::Other, ".".into()));
                out.push((TK::Other, n.clone()));
            }
            Post::Call(args) => {
                out.push((TK::Other, "(".into()));
                for (i, a) in args.iter().enumerate() {
                    if i > 0 {
                        out.push((TK::Comma, ",".into()));
                    }
                    emit(a, out);
                }
                out.push((TK::Other, ")".into()));
            }
        }
    }
}

/// layout 0: blanks around binary operators and after commas; 1: no blanks
/// except where two tokens would merge; 2: a blank between any two tokens.
pub fn source(e: &GExpr, layout: u8) -> String {
    let mut toks = vec![];
    emit(e, &mut toks);
    let mut s = String::new();
    let mut prev: Option<TK> = None;
    for (k, t) in toks {
        let blank = match (prev, layout) {
            (None, _) => false,
            (_, 2) => true,
            (Some(pk), 0) if pk == TK::Bin || k == TK::Bin || pk == TK::Comma => true,
            _ => {
                // `--` is another token; `1.` followed by `.f` would be `1..f`
                (s.ends_with('-') && t.starts_with('-')) || (s.ends_with('.') && t.starts_with('.'))
            }
        };
        if blank {
            s.push(' ');
        }
        s.push_str(&t);
        prev = Some(k);
    }
    // (a string / char token at the very end of the input does not lex)
    if s.ends_with('"') || s.ends_with('\'') {
        s.push(' ');
    }
    s
}

// ------------------------------------------------------- the documented tree

#[derive(Clone, Debug)]
pub enum RTree {
    Id(String),
    Lit(String, String),
    /// a parenthesised expression (no node of its own in the tree)
    Group(Box<RTree>),
    Not(Box<RTree>),
    Neg(Box<RTree>),
    Bin(usize, Box<RTree>, Box<RTree>),
    Try(Box<RTree>),
    Field(Box<RTree>, String),
    Call(Box<RTree>, Vec<RTree>),
}

/// the Lean token list of one (sub)expression: atoms `a<i>`, names `f<j>`,
/// argument lists `c<k>`
fn lean_tokens(e: &GExpr) -> String {
    let mut toks: Vec<String> = vec![];
    let (mut na, mut nf, mut nc) = (0, 0, 0);
    let mut operand = |x: &Operand, toks: &mut Vec<String>| {
        for c in x.pre.chars() {
            toks.push(if c == 'n' { "!".into() } else { "Sub".into() });
        }
        toks.push(format!("a{na}"));
        na += 1;
        for p in &x.post {
            match p {
                Post::Try => toks.push("?".into()),
                Post::Field(_) => {
                    toks.push(format!("f{nf}"));
                    nf += 1;
                }
                Post::Call(_) => {
                    toks.push(format!("c{nc}"));
                    nc += 1;
                }
            }
        }
    };
    operand(&e.first, &mut toks);
    for (o, x) in &e.rest {
        toks.push(OPS[*o].0.to_string());
        operand(x, &mut toks);
    }
    toks.join(" ")
}

/// requests for `e` and every expression nested in it (parenthesised atoms,
/// arguments), in the order `resolve` consumes the answers
fn requests(e: &GExpr, verb: &str, out: &mut Vec<String>) {
    out.push(format!("c09 {verb} {}", lean_tokens(e)));
    let mut operand = |x: &Operand| {
        if let Atom::Paren(inner) = &x.atom {
            requests(inner, verb, out);
        }
        for p in &x.post {
            if let Post::Call(args) = p {
                for a in args {
                    requests(a, verb, out);
                }
            }
        }
    };
    operand(&e.first);
    for (_, x) in &e.rest {
        operand(x);
    }
}

/// The tree of `e`: Lean's answer for the flat expression with the atoms' and
/// arguments' own trees substituted. `Err` = the documented grammar rejects
/// (a chain of comparisons somewhere), or the answer is not a tree.
fn resolve(e: &GExpr, answers: &[String], idx: &mut usize) -> Result<RTree, String> {
    let ans = answers.get(*idx).cloned().unwrap_or_default();
    *idx += 1;
    let mut atoms: Vec<Result<RTree, String>> = vec![];
    let mut names: Vec<String> = vec![];
    let mut calls: Vec<Result<Vec<RTree>, String>> = vec![];
    let mut operand = |x: &Operand, idx: &mut usize| {
        atoms.push(match &x.atom {
            Atom::Id(s) => Ok(RTree::Id(s.clone())),
            Atom::Lit(_, src, sx) => Ok(RTree::Lit(src.clone(), sx.clone())),
            Atom::Paren(inner) => resolve(inner, answers, idx).map(|t| RTree::Group(Box::new(t))),
        });
        for p in &x.post {
            match p {
                Post::Try => {}
                Post::Field(n) => names.push(n.clone()),
                Post::Call(args) => {
                    let mut v = vec![];
                    let mut err = None;
                    for a in args {
                        match resolve(a, answers, idx) {
                            Ok(t) => v.push(t),
                            Err(e) => err = Some(e),
                        }
                    }
                    calls.push(match err {
                        Some(e) => Err(e),
                        None => Ok(v),
                    });
                }
            }
        }
    };
    operand(&e.first, idx);
    for (_, x) in &e.rest {
        operand(x, idx);
    }
    let Some(sx) = ans.strip_prefix("ok ") else {
        return Err(ans);
    };
    let spaced = sx.replace('(', " ( ").replace(')', " ) ");
    let toks: Vec<&str> = spaced.split_whitespace().collect();
    fn parse(
        toks: &[&str],
        pos: &mut usize,
        atoms: &[Result<RTree, String>],
        names: &[String],
        calls: &[Result<Vec<RTree>, String>],
    ) -> Result<RTree, String> {
        let t = *toks.get(*pos).ok_or("short")?;
        *pos += 1;
        if t != "(" {
            let i: usize = t.strip_prefix('a').and_then(|s| s.parse().ok()).ok_or(format!("word {t}"))?;
            return atoms.get(i).cloned().ok_or("atom index")?;
        }
        let head = *toks.get(*pos).ok_or("short")?;
        *pos += 1;
        let sub = |pos: &mut usize| parse(toks, pos, atoms, names, calls);
        let word = |pos: &mut usize, c: char| -> Result<usize, String> {
            let w = *toks.get(*pos).ok_or("short")?;
            *pos += 1;
            w.strip_prefix(c).and_then(|s| s.parse().ok()).ok_or(format!("word {w}"))
        };
        let out = match head {
            "Not" => RTree::Not(Box::new(sub(pos)?)),
            "Negate" => RTree::Neg(Box::new(sub(pos)?)),
            "try" => RTree::Try(Box::new(sub(pos)?)),
            "field" => {
                let t = sub(pos)?;
                let j = word(pos, 'f')?;
                RTree::Field(Box::new(t), names.get(j).cloned().ok_or("name index")?)
            }
            "call" => {
                let t = sub(pos)?;
                let k = word(pos, 'c')?;
                RTree::Call(Box::new(t), calls.get(k).cloned().ok_or("call index")??)
            }
            h => {
                let o = OPS.iter().position(|o| o.0 == h).ok_or(format!("head {h}"))?;
                let l = sub(pos)?;
                let r = sub(pos)?;
                RTree::Bin(o, Box::new(l), Box::new(r))
            }
        };
        if toks.get(*pos) != Some(&")") {
            return Err("unbalanced".into());
        }
        *pos += 1;
        Ok(out)
    }
    let mut pos = 0;
    let t = parse(&toks, &mut pos, &atoms, &names, &calls)?;
    if pos != toks.len() {
        return Err("trailing".into());
    }
    Ok(t)
}

/// is `t` printed by the hook as a path `a.b.c` (`Parser::path` takes the
/// `.name`s that directly follow an identifier into the path)
fn is_path(t: &RTree) -> bool {
    match t {
        RTree::Id(_) => true,
        RTree::Field(inner, _) => is_path(inner),
        _ => false,
    }
}

/// the s-expression the parse hook prints for the tree
pub fn sexp(t: &RTree) -> String {
    match t {
        RTree::Id(s) => s.clone(),
        RTree::Lit(_, sx) => sx.clone(),
        RTree::Group(t) => sexp(t),
        RTree::Not(t) => format!("(Not {})", sexp(t)),
        RTree::Neg(t) => format!("(Negate {})", sexp(t)),
        RTree::Bin(o, l, r) => format!("({} {} {})", OPS[*o].0, sexp(l), sexp(r)),
        RTree::Try(t) => format!("(try {})", sexp(t)),
        RTree::Field(inner, n) if is_path(inner) => format!("{}.{n}", sexp(inner)),
        RTree::Field(inner, n) => format!("(field {} {n})", sexp(inner)),
        RTree::Call(f, args) => {
            let mut s = format!("(call {}", sexp(f));
            for a in args {
                s.push(' ');
                s.push_str(&sexp(a));
            }
            s.push(')');
            s
        }
    }
}

/// the fully parenthesised source of the tree
pub fn paren_src(t: &RTree) -> String {
    let args_src = |args: &[RTree]| args.iter().map(paren_src).collect::<Vec<_>>().join(", ");
    match t {
        RTree::Id(s) => s.clone(),
        RTree::Lit(src, _) => format!("({src})"),
        RTree::Group(t) => match **t {
            RTree::Id(_) => format!("({})", paren_src(t)),
            _ => paren_src(t),
        },
        RTree::Not(t) => format!("(!{})", paren_src(t)),
        RTree::Neg(t) => format!("(-{})", paren_src(t)),
        RTree::Bin(o, l, r) => format!("({} {} {})", paren_src(l), OPS[*o].1, paren_src(r)),
        RTree::Try(t) => format!("({}?)", paren_src(t)),
        RTree::Field(inner, n) => format!("({}.{n})", paren_src(inner)),
        RTree::Call(f, args) => match &**f {
            RTree::Field(inner, n) => format!("({}.{n}({}))", paren_src(inner), args_src(args)),
            _ => format!("({}({}))", paren_src(f), args_src(args)),
        },
    }
}

// ------------------------------------------------------------------ classes

fn atom_kind(a: &Atom) -> &'static str {
    match a {
        Atom::Id(_) => "ident",
        Atom::Lit(k, _, _) => k,
        Atom::Paren(_) => "paren",
    }
}

fn post_kind(ps: &[Post]) -> String {
    if ps.is_empty() {
        return "none".into();
    }
    let mut s = String::new();
    let mut i = 0;
    while i < ps.len() {
        match (&ps[i], ps.get(i + 1)) {
            (Post::Field(_), Some(Post::Call(a))) => {
                s.push_str(if a.is_empty() { "M" } else { "A" }); // method call without / with arguments
                i += 1;
            }
            (Post::Field(_), _) => s.push('f'),
            (Post::Call(_), _) => s.push('c'),
            (Post::Try, _) => s.push('?'),
        }
        i += 1;
    }
    s
}

/// class of a case: position of the prefixed-and-postfixed operand and what
/// it is made of (the first operand that has a prefix operator AND a postfix
/// form; otherwise the first with either)
fn signature(e: &GExpr, layout: u8, outcome: &str) -> String {
    let mut all: Vec<(usize, &Operand)> = vec![(0, &e.first)];
    all.extend(e.rest.iter().enumerate().map(|(i, (_, x))| (i + 1, x)));
    let pick = all
        .iter()
        .find(|(_, x)| !x.pre.is_empty() && !x.post.is_empty())
        .or_else(|| all.iter().find(|(_, x)| !x.pre.is_empty() || !x.post.is_empty()))
        .unwrap_or(&all[0]);
    let (i, x) = *pick;
    let left = if i > 0 { OPS[e.rest[i - 1].0].2.to_string() } else { "-".into() };
    let right = if i < e.rest.len() { OPS[e.rest[i].0].2.to_string() } else { "-".into() };
    format!("prepost|{}|{}|{}|L{left}R{right}|n{}|layout{layout}|{outcome}", x.pre, atom_kind(&x.atom), post_kind(&x.post), e.rest.len())
}

// ------------------------------------------------------------ P. parse trees

pub struct Case {
    pub e: GExpr,
    pub layout: u8,
}

pub fn check_parse(rep: &mut Report, drv: &mut Driver, cases: &[Case]) {
    for chunk in cases.chunks(500) {
        let mut refs = vec![];
        let mut models = vec![];
        let mut starts = vec![];
        for c in chunk {
            starts.push(refs.len());
            requests(&c.e, "ref", &mut refs);
            requests(&c.e, "pratt", &mut models);
        }
        let ref_ans = drv.ask_all(&refs);
        let model_ans = drv.ask_all(&models);
        for (c, start) in chunk.iter().zip(starts) {
            rep.evaluations += 1;
            let src = source(&c.e, c.layout);
            let mut i = start;
            let documented = match resolve(&c.e, &ref_ans, &mut i) {
                Ok(t) => format!("ok {}", sexp(&t)),
                Err(e) if e == "err" => "err".to_string(),
                Err(e) => {
                    rep.mismatch("cannot read the Lean reference's answer", json!({"src": src, "answer": e}));
                    continue;
                }
            };
            let mut i = start;
            let model = match resolve(&c.e, &model_ans, &mut i) {
                Ok(t) => format!("ok {}", sexp(&t)),
                Err(e) if e.starts_with("err chained") => "err".to_string(),
                Err(e) => format!("model-error {e}"),
            };
            let real = match hook::parse_expr(&src) {
                Ok(t) => format!("ok {t}"),
                Err(e) if e.contains("cannot be chained") => "err".to_string(),
                Err(e) => format!("other-error {}", e.chars().take(200).collect::<String>()),
            };
            let outcome = if real.starts_with("ok") { "tree" } else { "rejected" };
            rep.class(signature(&c.e, c.layout, outcome));
            rep.hist("prepost-operands", (c.e.rest.len() + 1).to_string());
            rep.hist("prepost-outcome", outcome);
            if rep.evaluations % 1009 == 0 {
                rep.sample(json!({"src": src, "real": real, "documented": documented}));
            }
            if real != documented {
                rep.violation(
                    "the parse of an expression that mixes prefix operators, postfix forms (method call, field, `?`) and binary operators differs from the documented grouping (`Negation ::= ('!'|'-')* Access`: a prefix operator applies to the whole access expression and binds tighter than every binary operator)",
                    "prefix-postfix-grouping",
                    json!({"kind": "prepost", "src": src, "real": real, "documented": documented}),
                );
            }
            if real != model && model != documented {
                rep.mismatch(
                    "Lean model of binop_expr/negation/access differs from the real parser and from the reference",
                    json!({"src": src, "real": real, "model": model}),
                );
            }
        }
    }
}

// --------------------------------------------------------------- generators

fn lit(kind: &'static str, src: &str, sx: &str) -> Atom {
    Atom::Lit(kind, src.to_string(), sx.to_string())
}

fn f64_sx(v: f64, ty: &str) -> String {
    format!("(float {} {ty})", v.to_bits())
}

/// one atom of every kind (and of every spelling class inside a kind)
fn representative_atoms() -> Vec<Atom> {
    let x = |pre: &str, a: &str, ps: Vec<Post>| Operand { pre: pre.into(), atom: Atom::Id(a.into()), post: ps };
    vec![
        lit("float-suffixed", "2.0f64", &f64_sx(2.0, "f64")),
        lit("float-suffixed", "1.5f32", &f64_sx(1.5, "f32")),
        lit("float-suffixed", "2f64", &f64_sx(2.0, "f64")),
        lit("float-suffixed", "1e3f64", &f64_sx(1000.0, "f64")),
        lit("float-suffixed", "1_0.2_5f64", &f64_sx(10.25, "f64")),
        lit("int-suffixed", "5i32", "(int 5 i32)"),
        lit("int-suffixed", "5u8", "(int 5 u8)"),
        lit("int-suffixed", "1_000i64", "(int 1000 i64)"),
        lit("int", "7", "(int 7 -)"),
        lit("int", "0", "(int 0 -)"),
        lit("float", "2.5", &f64_sx(2.5, "-")),
        lit("float", "1e5", &f64_sx(1e5, "-")),
        lit("float", "2.5E-3", &f64_sx(2.5e-3, "-")),
        lit("hex", "0x1F", "(int 31 -)"),
        lit("hex", "0xabc", "(int 2748 -)"),
        lit("ipv4", "1.2.3.4", "(ip 1.2.3.4)"),
        lit("ipv6", "::1", "(ip ::1)"),
        lit("ipv6", "2001:DB8::1", "(ip 2001:db8::1)"),
        lit("ipv6", "fe80::", "(ip fe80::)"),
        lit("asn", "AS65000", "(asn 65000)"),
        lit("string", "\"s\"", "(str 73)"),
        lit("char", "'c'", "(char 99)"),
        lit("bool", "true", "(bool true)"),
        Atom::Id("x".into()),
        Atom::Id("e1".into()),
        Atom::Id("_p".into()),
        Atom::Paren(Box::new(GExpr::single(x("", "x", vec![])))),
        Atom::Paren(Box::new(GExpr { first: x("", "x", vec![]), rest: vec![(8, x("", "y", vec![]))] })),
        Atom::Paren(Box::new(GExpr::single(x("m", "x", vec![])))),
        Atom::Paren(Box::new(GExpr::single(Operand { pre: "".into(), atom: lit("float-suffixed", "2.0f64", &f64_sx(2.0, "f64")), post: vec![] }))),
    ]
}

fn idx(a: &str) -> GExpr {
    GExpr::single(Operand { pre: String::new(), atom: Atom::Id(a.into()), post: vec![] })
}

/// every kind of postfix chain
fn representative_posts() -> Vec<Vec<Post>> {
    let f = |n: &str| Post::Field(n.to_string());
    let two = GExpr::single(Operand { pre: String::new(), atom: lit("float", "2.0", &f64_sx(2.0, "-")), post: vec![] });
    let neg_arg = GExpr::single(Operand { pre: "m".into(), atom: Atom::Id("y".into()), post: vec![f("abs"), Post::Call(vec![])] });
    vec![
        vec![],
        vec![f("abs"), Post::Call(vec![])],
        vec![f("pow"), Post::Call(vec![two.clone()])],
        vec![f("m"), Post::Call(vec![idx("y"), neg_arg])],
        vec![f("fld")],
        vec![f("e1")],
        vec![f("_q")],
        vec![Post::Try],
        vec![Post::Call(vec![idx("y")])],
        vec![f("a"), f("b"), Post::Call(vec![])],
        vec![f("abs"), Post::Call(vec![]), Post::Try],
        vec![f("abs"), Post::Call(vec![]), f("pow"), Post::Call(vec![two])],
        vec![Post::Try, f("fld")],
    ]
}

/// the operand alone, on either side of an operator of every level, between
/// two operators, inside parentheses and as an argument
fn positions(x: &Operand) -> Vec<GExpr> {
    let y = || Operand { pre: String::new(), atom: Atom::Id("y".into()), post: vec![] };
    let z = || Operand { pre: String::new(), atom: Atom::Id("z".into()), post: vec![] };
    let mut out = vec![GExpr::single(x.clone())];
    for o in [0usize, 1, 2, 4, 8, 9, 10, 11, 12] {
        out.push(GExpr { first: x.clone(), rest: vec![(o, y())] });
        out.push(GExpr { first: y(), rest: vec![(o, x.clone())] });
    }
    for (o1, o2) in [(9usize, 10usize), (10, 9), (9, 9), (4, 8), (0, 2)] {
        out.push(GExpr { first: y(), rest: vec![(o1, x.clone()), (o2, z())] });
    }
    out.push(GExpr::single(Operand { pre: "m".into(), atom: Atom::Paren(Box::new(GExpr::single(x.clone()))), post: vec![Post::Field("abs".into()), Post::Call(vec![])] }));
    out.push(GExpr::single(Operand { pre: String::new(), atom: Atom::Id("g".into()), post: vec![Post::Call(vec![GExpr::single(x.clone()), GExpr { first: y(), rest: vec![(9, x.clone())] }])] }));
    out
}

/// the seed-independent table: prefix chain × operand kind × postfix kind ×
/// position × layout
pub fn representatives() -> Vec<Case> {
    let mut cases = vec![];
    let atoms = representative_atoms();
    let posts = representative_posts();
    for pre in ["m", "n", "", "mm", "nm", "mn", "nn"] {
        for (ai, a) in atoms.iter().enumerate() {
            for (pi, ps) in posts.iter().enumerate() {
                let x = Operand { pre: pre.into(), atom: a.clone(), post: ps.clone() };
                let all = positions(&x);
                // the full position table for the single prefix operators; the
                // operand alone and next to `-` / `*` for the longer chains
                let take: Vec<GExpr> = if pre.len() <= 1 && !(pre.is_empty() && ps.is_empty()) {
                    all
                } else {
                    all.into_iter().enumerate().filter(|(i, _)| [0usize, 11, 12, 13, 14].contains(i)).map(|(_, e)| e).collect()
                };
                for (ei, e) in take.into_iter().enumerate() {
                    let layouts: &[u8] = if (ai + pi + ei) % 3 == 0 { &[0, 1, 2] } else { &[0, 1] };
                    for l in layouts {
                        cases.push(Case { e: e.clone(), layout: *l });
                    }
                }
            }
        }
    }
    cases
}

const NAMES: [&str; 12] = ["x", "y", "z", "e1", "_p", "foo", "abs", "f64", "E", "a0", "pow", "ab_c"];

fn random_atom(p: &mut Prng, depth: u32) -> Atom {
    match p.below(if depth == 0 { 9 } else { 11 }) {
        0 | 1 => Atom::Id(p.pick(&NAMES).to_string()),
        2 => {
            let c = gen_int(p);
            let kind = if c.lit.starts_with("0x") { "hex" } else if c.lit.ends_with(|ch: char| ch.is_ascii_digit() || ch == '_') { "int" } else { "int-suffixed" };
            Atom::Lit(kind, c.lit.clone(), c.parse.clone().unwrap_or_default())
        }
        3 | 4 => {
            let c = gen_float(p);
            let kind = if c.lit.ends_with("f32") || c.lit.ends_with("f64") { "float-suffixed" } else { "float" };
            Atom::Lit(kind, c.lit.clone(), c.parse.clone().unwrap_or_default())
        }
        5 => {
            let c = gen_ip(p);
            Atom::Lit(if c.kind == "ipv4" { "ipv4" } else { "ipv6" }, c.lit.clone(), c.parse.clone().unwrap_or_default())
        }
        6 => {
            let c = gen_asn(p);
            Atom::Lit("asn", c.lit.clone(), c.parse.clone().unwrap_or_default())
        }
        7 => {
            let c = if p.chance(1, 2) { gen_string(p) } else { gen_char(p) };
            match &c.parse {
                Some(sx) => Atom::Lit(if c.kind == "char" { "char" } else { "string" }, c.lit.clone(), sx.clone()),
                None => Atom::Id("s".into()),
            }
        }
        8 => Atom::Lit("bool", if p.chance(1, 2) { "true".into() } else { "false".into() }, String::new()),
        _ => Atom::Paren(Box::new(random_expr(p, depth - 1))),
    }
}

fn random_operand(p: &mut Prng, depth: u32) -> Operand {
    let pre = match p.below(8) {
        0 | 1 | 2 => "",
        3 | 4 => "m",
        5 => "n",
        6 => *p.pick(&["mm", "nn", "mn", "nm"]),
        _ => *p.pick(&["mmm", "nmn", "mnm"]),
    };
    let mut atom = random_atom(p, depth);
    if let Atom::Lit("bool", s, sx) = &mut atom {
        *sx = format!("(bool {s})");
    }
    let mut post = vec![];
    let n = match p.below(8) {
        0 | 1 => 0,
        2 | 3 | 4 => 1,
        5 | 6 => 2,
        _ => 3,
    };
    for _ in 0..n {
        match p.below(6) {
            0 => post.push(Post::Try),
            1 => post.push(Post::Field(p.pick(&NAMES).to_string())),
            2 if depth > 0 => post.push(Post::Call((0..p.below(3)).map(|_| random_expr(p, depth - 1)).collect())),
            _ => {
                post.push(Post::Field(p.pick(&NAMES).to_string()));
                let nargs = if depth == 0 { 0 } else { p.below(3) };
                post.push(Post::Call((0..nargs).map(|_| random_expr(p, depth - 1)).collect()));
            }
        }
    }
    Operand { pre: pre.to_string(), atom, post }
}

pub fn random_expr(p: &mut Prng, depth: u32) -> GExpr {
    let first = random_operand(p, depth);
    let n = match p.below(6) {
        0 | 1 => 0,
        2 | 3 => 1,
        4 => 2,
        _ => 3,
    };
    // mostly operator sequences the grammar accepts
    let accepted = p.chance(4, 5);
    let logical = p.below(2) as usize;
    let mut cmp_used = false;
    let mut rest = vec![];
    for _ in 0..n {
        let o = if !accepted {
            p.below(13) as usize
        } else {
            match p.below(10) {
                0 => {
                    cmp_used = false;
                    logical
                }
                1 if !cmp_used => {
                    cmp_used = true;
                    2 + p.below(6) as usize
                }
                2..=5 => 8 + p.below(2) as usize,
                _ => 10 + p.below(3) as usize,
            }
        };
        rest.push((o, random_operand(p, depth)));
    }
    GExpr { first, rest }
}

// ------------------------------------------------------------- V. JIT values

const SIG: &str = "x: f64, y: f64, b: bool, c: bool";
const ARGS: [(f64, f64, bool, bool); 6] = [
    (2.0, 3.0, true, false),
    (-2.5, 0.5, false, true),
    (0.0, -1.5, true, true),
    (1.5, 2.5, false, false),
    (-0.5, -4.0, true, false),
    (f64::NAN, 9.0, false, true),
];

/// compile `fn f(SIG) -> ret { body }` and run it on every argument tuple;
/// canonical result texts, or the (shortened) compile error
fn eval_body(body: &str, ret: &str) -> Result<Vec<String>, String> {
    let src = format!("fn f({SIG}) -> {ret} {{ {body} }}");
    let mut pkg = compile(&src)?;
    let mut out = vec![];
    match ret {
        "f64" => {
            let f = pkg.get_function::<fn(f64, f64, bool, bool) -> f64>("f").map_err(|e| format!("{e}"))?;
            for a in ARGS {
                out.push(format!("f64:{:#x}", f.call(a.0, a.1, a.2, a.3).to_bits()));
            }
        }
        "f32" => {
            let f = pkg.get_function::<fn(f64, f64, bool, bool) -> f32>("f").map_err(|e| format!("{e}"))?;
            for a in ARGS {
                out.push(format!("f32:{:#x}", f.call(a.0, a.1, a.2, a.3).to_bits()));
            }
        }
        "bool" => {
            let f = pkg.get_function::<fn(f64, f64, bool, bool) -> bool>("f").map_err(|e| format!("{e}"))?;
            for a in ARGS {
                out.push(format!("bool:{}", f.call(a.0, a.1, a.2, a.3)));
            }
        }
        "String" => {
            let f = pkg.get_function::<fn(f64, f64, bool, bool) -> roto::RotoString>("f").map_err(|e| format!("{e}"))?;
            for a in ARGS {
                out.push(format!("str:{}", &*f.call(a.0, a.1, a.2, a.3)));
            }
        }
        "i64?" => {
            let f = pkg.get_function::<fn(f64, f64, bool, bool) -> Option<i64>>("f").map_err(|e| format!("{e}"))?;
            for a in ARGS {
                out.push(format!("opt:{:?}", f.call(a.0, a.1, a.2, a.3)));
            }
        }
        other => return Err(format!("return type {other}")),
    }
    Ok(out)
}

fn short(e: &str) -> String {
    // the first line of the diagnostic without colour codes
    let mut s = String::new();
    let mut esc = false;
    for ch in e.chars() {
        if ch == '\u{1b}' {
            esc = true;
        } else if esc {
            if ch == 'm' {
                esc = false;
            }
        } else {
            s.push(ch);
        }
    }
    s.lines().next().unwrap_or("").chars().take(160).collect()
}

/// documented values of fixed representatives: `(body, return type, value for
/// the first argument tuple x = 2.0, y = 3.0, b = true, c = false)`; `None` =
/// the documented grouping is a type error (a String cannot be negated …)
const VALUE_REPS: [(&str, &str, Option<&str>); 40] = [
    ("-2.0f64.pow(2.0)", "f64", Some("-4")),
    ("- 2.0f64 . pow ( 2.0 )", "f64", Some("-4")),
    ("-(2.0f64.pow(2.0))", "f64", Some("-4")),
    ("(-2.0f64).pow(2.0)", "f64", Some("4")),
    ("-2f64.pow(2.0)", "f64", Some("-4")),
    ("-2.0e0f64.pow(2.0)", "f64", Some("-4")),
    ("-0_2.0_0f64.pow(2.0)", "f64", Some("-4")),
    ("-(2.0f64).pow(2.0)", "f64", Some("-4")),
    ("-x.pow(2.0)", "f64", Some("-4")),
    ("-(x).pow(2.0)", "f64", Some("-4")),
    ("- -2.0f64.pow(2.0)", "f64", Some("4")),
    ("1.0 + -1.5f64.abs()", "f64", Some("-0.5")),
    ("1.0 + (-((1.5f64).abs()))", "f64", Some("-0.5")),
    ("1.0 - -1.5f64.abs()", "f64", Some("2.5")),
    ("-1.5f64.abs() + 1.0", "f64", Some("-0.5")),
    ("2.0 * -3.0f64.abs()", "f64", Some("-6")),
    ("-3.0f64.abs() * 2.0", "f64", Some("-6")),
    ("-2.5f64.floor()", "f64", Some("-2")),
    ("-2.5f64.ceil()", "f64", Some("-3")),
    ("-2.25f64.sqrt()", "f64", Some("-1.5")),
    ("-2.0f64.pow(2.0).abs()", "f64", Some("-4")),
    ("-2.0f64.pow(-1.0f64.abs())", "f64", Some("-0.5")),
    ("-x.abs()", "f64", Some("-2")),
    ("-y.pow(x)", "f64", Some("-9")),
    ("-1.5f32.abs()", "f32", Some("-1.5")),
    ("-2.0f32.pow(2.0)", "f32", Some("-4")),
    ("-2.0f64.pow(2.0) < 0.0", "bool", Some("true")),
    ("-2.0f64.pow(2.0) == -4.0", "bool", Some("true")),
    ("!x.is_nan()", "bool", Some("true")),
    ("!2.0f64.is_nan()", "bool", Some("true")),
    ("!-2.0f64.sqrt().is_nan()", "bool", None),
    ("!1.2.3.4.is_ipv4()", "bool", Some("false")),
    ("!::1.is_ipv4()", "bool", Some("true")),
    ("!\"abc\".contains(\"a\")", "bool", Some("false")),
    ("!b && !\"abc\".contains(\"x\")", "bool", Some("false")),
    ("(-5i32).to_string()", "String", Some("-5")),
    ("-5i32.to_string()", "String", None),
    ("-5u8.to_string()", "String", None),
    ("!5i32.to_string()", "String", None),
    ("-5i8.to_string()", "String", None),
];

fn canon_expect(ret: &str, v: &str) -> String {
    match ret {
        "f64" => format!("f64:{:#x}", v.parse::<f64>().unwrap().to_bits()),
        "f32" => format!("f32:{:#x}", v.parse::<f32>().unwrap().to_bits()),
        "bool" => format!("bool:{v}"),
        _ => format!("str:{v}"),
    }
}

pub fn check_value_rep(rep: &mut Report, body: &str, ret: &str, want: Option<&str>) {
    rep.evaluations += 1;
    rep.class(format!("prepost-value|{body}"));
    let got = eval_body(body, ret);
    let input = json!({"kind": "prepost-value", "body": body, "ret": ret, "want": want});
    match (want, &got) {
        (Some(w), Ok(v)) => {
            let w = canon_expect(ret, w);
            if v[0] != w {
                rep.violation(
                    "an expression with a prefix operator in front of a literal / name followed by a method call does not evaluate to the value of the documented grouping (the prefix operator applies to the whole access expression)",
                    "prefix-postfix-value",
                    json!({"case": input, "got": v[0], "documented": w}),
                );
            }
        }
        (Some(_), Err(e)) => rep.violation(
            "an expression with a prefix operator in front of a literal / name followed by a method call is rejected although the documented grouping is well typed",
            "prefix-postfix-value",
            json!({"case": input, "error": short(e)}),
        ),
        (None, Ok(v)) => rep.violation(
            "an expression whose documented grouping is a type error (the prefix operator applies to the result of the method call) compiles",
            "prefix-postfix-value",
            json!({"case": input, "got": v[0]}),
        ),
        (None, Err(_)) => {}
    }
}

// typed generator: f64-valued expressions over x, y and suffixed literals

const F64_LITS: [(&str, f64); 8] = [
    ("2.0f64", 2.0), ("1.5f64", 1.5), ("0.5f64", 0.5), ("3f64", 3.0),
    ("2.5f64", 2.5), ("1e1f64", 10.0), ("0.25f64", 0.25), ("1_0.0f64", 10.0),
];

fn typed_f64_operand(p: &mut Prng, depth: u32) -> Operand {
    let pre = *p.pick(&["", "", "m", "m", "m", "mm"]);
    let atom = match p.below(if depth == 0 { 7 } else { 9 }) {
        0 | 1 => Atom::Id(p.pick(&["x", "y"]).to_string()),
        2..=5 => {
            let (s, v) = *p.pick(&F64_LITS);
            lit("float-suffixed", s, &f64_sx(v, "f64"))
        }
        6 => {
            // an unsuffixed literal: no methods (its type is an inference variable)
            let (s, v) = *p.pick(&[("2.0", 2.0), ("0.5", 0.5), ("3.0", 3.0)]);
            return Operand { pre: pre.into(), atom: lit("float", s, &f64_sx(v, "-")), post: vec![] };
        }
        _ => Atom::Paren(Box::new(typed_f64_expr(p, depth - 1))),
    };
    let mut post = vec![];
    let n = *p.pick(&[0u64, 1, 1, 1, 2]);
    for _ in 0..n {
        let m = *p.pick(&["abs", "floor", "ceil", "round", "sqrt", "pow", "pow"]);
        post.push(Post::Field(m.into()));
        post.push(Post::Call(if m == "pow" {
            vec![if depth == 0 { GExpr::single(Operand { pre: String::new(), atom: lit("float", "2.0", &f64_sx(2.0, "-")), post: vec![] }) } else { typed_f64_expr(p, depth - 1) }]
        } else {
            vec![]
        }));
    }
    Operand { pre: pre.into(), atom, post }
}

fn typed_f64_expr(p: &mut Prng, depth: u32) -> GExpr {
    let first = typed_f64_operand(p, depth);
    let n = *p.pick(&[0u64, 0, 1, 1, 2]);
    let rest = (0..n).map(|_| (*p.pick(&[8usize, 9, 9, 10, 11]), typed_f64_operand(p, depth))).collect();
    GExpr { first, rest }
}

fn typed_bool_expr(p: &mut Prng) -> GExpr {
    let operand = |p: &mut Prng| -> Operand {
        let pre = *p.pick(&["", "n", "n", "nn"]);
        match p.below(3) {
            0 => Operand { pre: pre.into(), atom: Atom::Id(p.pick(&["b", "c"]).to_string()), post: vec![] },
            1 => {
                let mut x = typed_f64_operand(p, 1);
                if x.atom_is_unsuffixed() {
                    x.atom = Atom::Id("x".into());
                }
                // mostly `!x.f().is_nan()`; sometimes `!-x.f().is_nan()`, which the documented
                // grouping rejects (the minus applies to the bool): both forms must be rejected
                x.pre = if p.chance(1, 4) { format!("{pre}{}", x.pre) } else { pre.to_string() };
                x.post.push(Post::Field(p.pick(&["is_nan", "is_finite", "is_infinite"]).to_string()));
                x.post.push(Post::Call(vec![]));
                x
            }
            _ => {
                let l = typed_f64_expr(p, 1);
                let mut e = l;
                let r = typed_f64_expr(p, 1);
                e.rest.push((2 + p.below(6) as usize, r.first));
                e.rest.extend(r.rest);
                Operand { pre: pre.into(), atom: Atom::Paren(Box::new(e)), post: vec![] }
            }
        }
    };
    let first = operand(p);
    let logical = p.below(2) as usize;
    let n = p.below(3);
    let rest = (0..n).map(|_| (logical, operand(p))).collect();
    GExpr { first, rest }
}

impl Operand {
    fn atom_is_unsuffixed(&self) -> bool {
        matches!(&self.atom, Atom::Lit("float", _, _))
    }
}

/// `e` against its fully parenthesised form (printed from the Lean reference
/// tree): both compile and agree on every argument tuple, or both are rejected
pub fn check_paren_values(rep: &mut Report, drv: &mut Driver, p: &mut Prng, n: usize) {
    for i in 0..n {
        let (e, ret) = if i % 3 == 2 { (typed_bool_expr(p), "bool") } else { (typed_f64_expr(p, 2), "f64") };
        let layout = (i % 2) as u8;
        let flat = source(&e, layout);
        let mut reqs = vec![];
        requests(&e, "ref", &mut reqs);
        let ans = drv.ask_all(&reqs);
        let mut k = 0;
        let tree = match resolve(&e, &ans, &mut k) {
            Ok(t) => t,
            Err(err) => {
                rep.mismatch("typed generator produced an expression the reference rejects", json!({"src": flat, "reference": err}));
                continue;
            }
        };
        let paren = paren_src(&tree);
        check_flat_vs_paren(rep, &flat, &paren, ret, signature(&e, layout, "jit"));
    }
}

pub fn check_flat_vs_paren(rep: &mut Report, flat: &str, paren: &str, ret: &str, class: String) {
    rep.evaluations += 1;
    let a = eval_body(flat, ret);
    let b = eval_body(paren, ret);
    rep.class(format!("{class}|{}", if a.is_ok() { "runs" } else { "rejected" }));
    rep.hist("prepost-jit", if a.is_ok() { ret } else { "rejected" });
    let input = json!({"kind": "prepost-paren", "flat": flat, "paren": paren, "ret": ret});
    match (&a, &b) {
        (Ok(x), Ok(y)) if x == y => {}
        (Err(_), Err(_)) => {}
        (Ok(x), Ok(y)) => rep.violation(
            "an expression and its fully parenthesised form (documented grouping: prefix operators apply to the whole access expression) evaluate differently",
            "prefix-postfix-paren-equivalence",
            json!({"case": input, "flat_results": x, "paren_results": y}),
        ),
        (Ok(x), Err(e)) => rep.violation(
            "an expression compiles although its fully parenthesised form (documented grouping) is rejected",
            "prefix-postfix-paren-equivalence",
            json!({"case": input, "flat_results": x, "paren_error": short(e)}),
        ),
        (Err(e), Ok(y)) => rep.violation(
            "an expression is rejected although its fully parenthesised form (documented grouping) compiles",
            "prefix-postfix-paren-equivalence",
            json!({"case": input, "flat_error": short(e), "paren_results": y}),
        ),
    }
}

/// rejected-or-not parity on typed representatives that are NOT f64: integer
/// literals with `to_string`, `?` under a minus
fn parity_reps() -> Vec<(&'static str, &'static str, &'static str)> {
    vec![
        ("-5i32.to_string()", "(-((5i32).to_string()))", "String"),
        ("-5i64.to_string().len()", "(-(((5i64).to_string()).len()))", "String"),
        ("!true.to_string()", "(!((true).to_string()))", "String"),
        ("-AS1.to_string()", "(-((AS1).to_string()))", "String"),
        ("-1.2.3.4.to_string()", "(-((1.2.3.4).to_string()))", "String"),
        ("Option.Some(-Option.Some(3)?)", "Option.Some((-((Option.Some(3))?)))", "i64?"),
    ]
}

// ----------------------------------------------------------------------- run

/// the class representatives (independent of the seed)
pub fn run_representatives(rep: &mut Report, drv: &mut Driver) {
    for (body, ret, want) in VALUE_REPS {
        check_value_rep(rep, body, ret, want);
    }
    for (flat, paren, ret) in parity_reps() {
        check_flat_vs_paren(rep, flat, paren, ret, format!("prepost-parity|{flat}"));
    }
    let reps = representatives();
    check_parse(rep, drv, &reps);
}

/// random nests (after the exhaustive operator sequences of section A, whose
/// failing inputs are minimal)
pub fn run_random(rep: &mut Report, drv: &mut Driver, p: &mut Prng, thorough: bool) {
    let n = if thorough { 60000 } else { 5000 };
    let cases: Vec<Case> = (0..n).map(|i| Case { e: random_expr(p, 2), layout: (i % 3) as u8 }).collect();
    check_parse(rep, drv, &cases);
    check_paren_values(rep, drv, p, if thorough { 1500 } else { 120 });
}

pub fn replay(rep: &mut Report, case: &Value) -> bool {
    let c = case.get("case").unwrap_or(case);
    match c["kind"].as_str().unwrap_or("") {
        "prepost" => {
            let src = c["src"].as_str().unwrap_or("");
            let documented = c["documented"].as_str().unwrap_or("");
            rep.evaluations += 1;
            let real = match hook::parse_expr(src) {
                Ok(t) => format!("ok {t}"),
                Err(e) if e.contains("cannot be chained") => "err".to_string(),
                Err(e) => format!("other-error {}", e.chars().take(200).collect::<String>()),
            };
            if real != documented {
                rep.violation(
                    "the parse of an expression that mixes prefix operators, postfix forms and binary operators differs from the documented grouping",
                    "prefix-postfix-grouping",
                    json!({"kind": "prepost", "src": src, "real": real, "documented": documented}),
                );
            }
            true
        }
        "prepost-value" => {
            check_value_rep(rep, c["body"].as_str().unwrap_or(""), c["ret"].as_str().unwrap_or(""), c["want"].as_str());
            true
        }
        "prepost-paren" => {
            check_flat_vs_paren(rep, c["flat"].as_str().unwrap_or(""), c["paren"].as_str().unwrap_or(""), c["ret"].as_str().unwrap_or(""), "replay".into());
            true
        }
        _ => false,
    }
}
