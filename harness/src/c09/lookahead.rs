//! C09, section F: bracketed constructs × mode-switching tokens.
//!
//! The parser decides what a `{` starts by looking ahead up to three tokens,
//! and the lexer has a second mode for the text of f-strings which does not see
//! the tokens lexed ahead. This section puts every kind of leaf (identifier,
//! every literal kind, f-strings of every part shape) at every position of
//! every bracketed construct (parenthesised expression, list item, record /
//! typed-record field, block statement / let / last expression, call argument
//! and target, f-string hole, operand, if / match / return positions), nested,
//! and checks
//!   P. the real parse tree (hook) against the tree the program was printed
//!      from (the documented grammar), and against the Lean model of `atom` /
//!      `block` / `record` / `separated` / `f_string` run with the generated
//!      look-ahead facts;
//!   J. for String-typed nests, the value computed on the JIT against the
//!      value the generator computed.
//! The boundary table (every context × every leaf, then every context × every
//! context) runs first and is independent of the seed.

use super::{Item, OPS, compile, gen_items, hexs, hook, meaning, spell};
use rotov_harness::driver::Driver;
use rotov_harness::{Prng, Report};
use serde_json::{Value, json};

#[derive(Clone, Debug)]
pub enum Node {
    Id(String),
    /// one-token literal: source text, expected s-expression of the hook
    Lit(&'static str, String, String),
    Unit,
    Paren(Box<Node>),
    Bin(Box<Node>, usize, Box<Node>),
    Field(Box<Node>, String),
    Call(Box<Node>, Vec<Node>),
    FStr(Vec<FP>),
    List(Vec<Node>, bool),
    Rec(Vec<(String, Node)>, bool),
    TRec(String, Vec<(String, Node)>),
    Block(Vec<St>, Option<Box<Node>>),
    If(Box<Node>, Box<Node>, Option<Box<Node>>),
    Match(Box<Node>, Vec<Arm>),
    /// `return` / `accept` / `reject`
    Return(&'static str, Option<Box<Node>>),
}

#[derive(Clone, Debug)]
pub enum FP {
    /// raw source text, its meaning
    Text(String, String),
    Hole(Node),
}

#[derive(Clone, Debug)]
pub enum St {
    Let(String, Option<String>, Node),
    Expr(Node),
    Assign(String, Node),
}

#[derive(Clone, Debug)]
pub struct Arm {
    pat: String,
    guard: Option<Node>,
    /// a `Block` node when written with braces
    body: Node,
    comma: bool,
}

/// Source text and the Lean model's symbols (None: a construct outside the model).
struct Frag {
    text: String,
    syms: Option<Vec<String>>,
}

#[derive(Clone, Copy, PartialEq)]
pub enum Style {
    Spaced,
    Compact,
    Lines,
}

fn join(style: Style, parts: Vec<Frag>) -> Frag {
    let mut text = String::new();
    let mut syms: Option<Vec<String>> = Some(vec![]);
    let mut n = 0usize;
    for p in parts {
        if p.text.is_empty() {
            continue;
        }
        if !text.is_empty() {
            let a = text.chars().last().unwrap();
            let b = p.text.chars().next().unwrap();
            let glue_dot = a == '.' || b == '.';
            // (never tight after `:` — `a:::1` would lex as an IPv6 address)
            let tight = a != ':' && (matches!(a, '(' | '[' | '{' | ',' | ';') || matches!(b, ')' | ']' | '}' | ',' | ':' | ';' | '('));
            let wordy = |c: char| c.is_alphanumeric() || c == '_' || c == '"' || c == '\'';
            if glue_dot {
            } else if style == Style::Compact && tight && !(wordy(a) && wordy(b)) {
            } else if style == Style::Lines && n % 3 == 1 {
                text.push_str(if n % 2 == 0 { "\n" } else { " // note: { f\" }\n  " });
            } else {
                text.push(' ');
            }
        }
        n += 1;
        text.push_str(&p.text);
        syms = match (syms, p.syms) {
            (Some(mut a), Some(b)) => {
                a.extend(b);
                Some(a)
            }
            _ => None,
        };
    }
    Frag { text, syms }
}

fn tok(text: &str, sym: &str) -> Frag {
    Frag { text: text.to_string(), syms: Some(vec![sym.to_string()]) }
}
fn tok_nomodel(text: &str) -> Frag {
    Frag { text: text.to_string(), syms: None }
}

impl Node {
    fn pathlike(&self) -> Option<String> {
        match self {
            Node::Id(n) => Some(n.clone()),
            Node::Field(e, n) => e.pathlike().map(|p| format!("{p}.{n}")),
            _ => None,
        }
    }

    fn frag(&self, style: Style, in_hole: bool) -> Frag {
        let style = if in_hole && style == Style::Lines { Style::Spaced } else { style };
        let sub = |n: &Node| n.frag(style, in_hole);
        let seq = |open: (&str, &str), close: (&str, &str), items: Vec<Frag>, trailing: bool| -> Frag {
            let mut v = vec![tok(open.0, open.1)];
            let n = items.len();
            for (i, it) in items.into_iter().enumerate() {
                v.push(it);
                if i + 1 < n || trailing {
                    v.push(tok(",", ","));
                }
            }
            v.push(tok(close.0, close.1));
            join(style, v)
        };
        let field = |k: &str, e: &Node| join(style, vec![tok(k, "id"), tok(":", ":"), sub(e)]);
        match self {
            Node::Id(n) => tok(n, "id"),
            Node::Lit(_, src, _) => tok(src, "lit"),
            Node::Unit => join(Style::Compact, vec![tok("(", "("), tok(")", ")")]),
            Node::Paren(e) => join(style, vec![tok("(", "("), sub(e), tok(")", ")")]),
            Node::Bin(l, op, r) => join(style, vec![sub(l), tok(OPS[*op].1, "op"), sub(r)]),
            Node::Field(e, n) => join(style, vec![sub(e), tok(".", "."), tok(n, "id")]),
            Node::Call(f, args) => {
                let a = seq(("(", "("), (")", ")"), args.iter().map(&sub).collect(), false);
                let f = sub(f);
                Frag { text: format!("{}{}", f.text, a.text), syms: f.syms.zip(a.syms).map(|(mut x, y)| { x.extend(y); x }) }
            }
            Node::FStr(parts) => {
                let mut text = String::from("f\"");
                let mut syms: Option<Vec<String>> = Some(vec!["f\"".to_string()]);
                let mut pending: Option<bool> = None; // text before the next delimiter: non-empty?
                for p in parts {
                    match p {
                        FP::Text(raw, _) => {
                            text.push_str(raw);
                            pending = Some(pending.unwrap_or(false) || !raw.is_empty());
                        }
                        FP::Hole(e) => {
                            let h = e.frag(style, true);
                            let pad = style != Style::Compact || h.text.starts_with('{') || h.text.ends_with('}');
                            text.push('{');
                            if pad {
                                text.push(' ');
                            }
                            text.push_str(&h.text);
                            if pad {
                                text.push(' ');
                            }
                            text.push('}');
                            syms = match (syms, h.syms) {
                                (Some(mut a), Some(b)) => {
                                    a.push(format!("T{}", pending.unwrap_or(false) as u8));
                                    a.push("{".into());
                                    a.extend(b);
                                    a.push("}".into());
                                    Some(a)
                                }
                                _ => None,
                            };
                            pending = None;
                        }
                    }
                }
                text.push('"');
                if let Some(a) = syms.as_mut() {
                    a.push(format!("E{}", pending.unwrap_or(false) as u8));
                }
                Frag { text, syms }
            }
            Node::List(items, trailing) => seq(("[", "["), ("]", "]"), items.iter().map(&sub).collect(), *trailing),
            Node::Rec(fields, trailing) => seq(("{", "{"), ("}", "}"), fields.iter().map(|(k, e)| field(k, e)).collect(), *trailing),
            Node::TRec(name, fields) => {
                let r = seq(("{", "{"), ("}", "}"), fields.iter().map(|(k, e)| field(k, e)).collect(), false);
                join(style, vec![tok(name, "id"), r])
            }
            Node::Block(stmts, last) => {
                let mut v = vec![tok("{", "{")];
                for s in stmts {
                    match s {
                        St::Let(n, None, e) => v.extend([tok("let", "let"), tok(n, "id"), tok("=", "="), sub(e), tok(";", ";")]),
                        St::Let(n, Some(t), e) => v.extend([tok_nomodel("let"), tok_nomodel(n), tok_nomodel(":"), tok_nomodel(t), tok_nomodel("="), sub(e), tok_nomodel(";")]),
                        St::Expr(e) => v.extend([sub(e), tok(";", ";")]),
                        St::Assign(n, e) => v.extend([tok_nomodel(n), tok_nomodel("="), sub(e), tok_nomodel(";")]),
                    }
                }
                if let Some(e) = last {
                    v.push(sub(e));
                }
                v.push(tok("}", "}"));
                join(style, v)
            }
            Node::If(c, t, e) => {
                let mut v = vec![tok_nomodel("if"), sub(c), sub(t)];
                if let Some(e) = e {
                    v.push(tok_nomodel("else"));
                    v.push(sub(e));
                }
                join(style, v)
            }
            Node::Match(s, arms) => {
                let mut v = vec![tok_nomodel("match"), sub(s), tok_nomodel("{")];
                for a in arms {
                    v.push(tok_nomodel(&a.pat));
                    if let Some(g) = &a.guard {
                        v.push(tok_nomodel("if"));
                        v.push(sub(g));
                    }
                    v.push(tok_nomodel("=>"));
                    v.push(sub(&a.body));
                    if a.comma {
                        v.push(tok_nomodel(","));
                    }
                }
                v.push(tok_nomodel("}"));
                join(style, v)
            }
            Node::Return(kw, e) => {
                let mut v = vec![tok_nomodel(kw)];
                if let Some(e) = e {
                    v.push(sub(e));
                }
                join(style, v)
            }
        }
    }

    /// the s-expression the parse hook prints for this tree
    fn sexp(&self) -> String {
        let fields = |fs: &[(String, Node)]| -> String { fs.iter().map(|(k, e)| format!(" ({k} {})", e.sexp())).collect() };
        match self {
            Node::Id(n) => n.clone(),
            Node::Lit(_, _, s) => s.clone(),
            Node::Unit => "(unit)".into(),
            Node::Paren(e) => e.sexp(),
            Node::Bin(l, op, r) => format!("({} {} {})", OPS[*op].0, l.sexp(), r.sexp()),
            Node::Field(e, n) => match self.pathlike() {
                Some(p) => p,
                None => format!("(field {} {n})", e.sexp()),
            },
            Node::Call(f, args) => format!("(call {}{})", f.sexp(), args.iter().map(|a| format!(" {}", a.sexp())).collect::<String>()),
            Node::FStr(parts) => {
                let mut out = String::from("(fstr");
                let mut raw = String::new();
                let mut mean = String::new();
                for p in parts {
                    match p {
                        FP::Text(r, m) => {
                            raw.push_str(r);
                            mean.push_str(m);
                        }
                        FP::Hole(e) => {
                            if !raw.is_empty() {
                                out.push_str(&format!(" (text {})", hexs(&mean)));
                            }
                            raw.clear();
                            mean.clear();
                            out.push_str(&format!(" (hole {})", e.sexp()));
                        }
                    }
                }
                if !raw.is_empty() {
                    out.push_str(&format!(" (text {})", hexs(&mean)));
                }
                out.push(')');
                out
            }
            Node::List(items, _) => format!("(list{})", items.iter().map(|a| format!(" {}", a.sexp())).collect::<String>()),
            Node::Rec(fs, _) => format!("(rec{})", fields(fs)),
            Node::TRec(n, fs) => format!("(trec {n}{})", fields(fs)),
            Node::Block(stmts, last) => {
                let mut out = String::from("(block");
                for s in stmts {
                    match s {
                        St::Let(n, _, e) => out.push_str(&format!(" (let {n} {})", e.sexp())),
                        St::Expr(e) => out.push_str(&format!(" (stmt {})", e.sexp())),
                        St::Assign(n, e) => out.push_str(&format!(" (stmt (assign {n} {}))", e.sexp())),
                    }
                }
                if let Some(e) = last {
                    out.push_str(&format!(" (last {})", e.sexp()));
                }
                out.push(')');
                out
            }
            Node::If(c, t, e) => format!("(if {} {}{})", c.sexp(), t.sexp(), e.as_ref().map(|e| format!(" {}", e.sexp())).unwrap_or_default()),
            Node::Match(s, arms) => {
                let mut out = format!("(match {}", s.sexp());
                for a in arms {
                    out.push_str(&format!(" (arm {}", a.pat.replace(' ', "")));
                    if let Some(g) = &a.guard {
                        out.push_str(&format!(" (guard {})", g.sexp()));
                    }
                    let body = if matches!(a.body, Node::Block(..)) { a.body.sexp() } else { format!("(block (last {}))", a.body.sexp()) };
                    out.push_str(&format!(" {body})"));
                }
                out.push(')');
                out
            }
            Node::Return(kw, e) => format!("({kw}{})", e.as_ref().map(|e| format!(" {}", e.sexp())).unwrap_or_default()),
        }
    }

    /// the tree in the Lean model's printing (field / variable names and literal values dropped)
    fn abstract_sexp(&self) -> String {
        let seq = |xs: Vec<String>| -> String { xs.iter().map(|x| format!(" {x}")).collect() };
        match self {
            Node::Id(_) => "id".into(),
            Node::Lit(..) => "lit".into(),
            Node::Unit => "unit".into(),
            Node::Paren(e) => e.abstract_sexp(),
            Node::Bin(l, _, r) => format!("(bin {} {})", l.abstract_sexp(), r.abstract_sexp()),
            Node::Field(e, _) => format!("(field {})", e.abstract_sexp()),
            Node::Call(f, args) => format!("(call {}{})", f.abstract_sexp(), seq(args.iter().map(|a| a.abstract_sexp()).collect())),
            Node::FStr(parts) => {
                let mut out = String::from("(fstr");
                let mut nonempty = false;
                for p in parts {
                    match p {
                        FP::Text(r, _) => nonempty |= !r.is_empty(),
                        FP::Hole(e) => {
                            if nonempty {
                                out.push_str(" (text)");
                            }
                            nonempty = false;
                            out.push_str(&format!(" (hole {})", e.abstract_sexp()));
                        }
                    }
                }
                if nonempty {
                    out.push_str(" (text)");
                }
                out.push(')');
                out
            }
            Node::List(items, _) => format!("(list{})", seq(items.iter().map(|a| a.abstract_sexp()).collect())),
            Node::Rec(fs, _) => format!("(rec{})", seq(fs.iter().map(|a| a.1.abstract_sexp()).collect())),
            Node::TRec(_, fs) => format!("(trec id{})", seq(fs.iter().map(|a| a.1.abstract_sexp()).collect())),
            Node::Block(stmts, last) => {
                let mut out = String::from("(block");
                for s in stmts {
                    match s {
                        St::Let(_, _, e) => out.push_str(&format!(" (let {})", e.abstract_sexp())),
                        St::Expr(e) | St::Assign(_, e) => out.push_str(&format!(" (stmt {})", e.abstract_sexp())),
                    }
                }
                if let Some(e) = last {
                    out.push_str(&format!(" (last {})", e.abstract_sexp()));
                }
                out.push(')');
                out
            }
            _ => "?".into(),
        }
    }
}

// ------------------------------------------------------------------ leaves

/// (kind, node, value when the leaf is a String expression)
pub struct Leaf {
    kind: &'static str,
    node: Node,
    val: Option<String>,
}

fn s_lit(src_body: &str, val: &str) -> Node {
    Node::Lit("string", format!("\"{src_body}\""), format!("(str {})", hexs(val)))
}
fn text(raw: &str, m: &str) -> FP {
    FP::Text(raw.to_string(), m.to_string())
}
fn id(n: &str) -> Node {
    Node::Id(n.to_string())
}
fn int_lit(n: i64) -> Node {
    Node::Lit("int", n.to_string(), format!("(int {n} -)"))
}

/// In scope in every typed program: `s: String = "S"`, `x: i32 = 3`,
/// `c: bool = true`, `d: bool = false`, `o: Option[i32] = Some(1)`.
fn fixed_leaves() -> Vec<Leaf> {
    let l = |kind, node, val: Option<&str>| Leaf { kind, node, val: val.map(|v| v.to_string()) };
    vec![
        l("ident", id("s"), Some("S")),
        l("string", s_lit("plain", "plain"), Some("plain")),
        l("string-escapes", s_lit("q\\\"{x}\\\\", "q\"{x}\\"), Some("q\"{x}\\")),
        l("string-with-fquote", s_lit("f\\\"x", "f\"x"), Some("f\"x")),
        l("fstring-empty", Node::FStr(vec![]), Some("")),
        l("fstring-word", Node::FStr(vec![text("hello", "hello")]), Some("hello")),
        l("fstring-text-hole-text", Node::FStr(vec![text("hello ", "hello "), FP::Hole(int_lit(1)), text(" world", " world")]), Some("hello 1 world")),
        l("fstring-hole", Node::FStr(vec![FP::Hole(id("x"))]), Some("3")),
        l("fstring-holes", Node::FStr(vec![text("a", "a"), FP::Hole(id("x")), text("b", "b"), FP::Hole(id("s")), text("c", "c")]), Some("a3bSc")),
        l("fstring-adjacent-holes", Node::FStr(vec![FP::Hole(id("x")), FP::Hole(id("s"))]), Some("3S")),
        l("fstring-question", Node::FStr(vec![text("?", "?")]), Some("?")),
        l("fstring-operator", Node::FStr(vec![text("+", "+")]), Some("+")),
        l("fstring-ident-colon", Node::FStr(vec![text("x: ", "x: "), FP::Hole(id("x"))]), Some("x: 3")),
        l("fstring-braces", Node::FStr(vec![text("{{}}", "{}")]), Some("{}")),
        l("fstring-unicode", Node::FStr(vec![text("é ", "é "), FP::Hole(id("x"))]), Some("é 3")),
        l("fstring-nested", Node::FStr(vec![FP::Hole(Node::FStr(vec![text("in", "in"), FP::Hole(id("x"))]))]), Some("in3")),
        l("fstring-string-in-hole", Node::FStr(vec![text("<", "<"), FP::Hole(s_lit("q}", "q}")), text(">", ">")]), Some("<q}>")),
        l("fstring-record-in-hole", Node::FStr(vec![FP::Hole(Node::Field(Box::new(Node::Rec(vec![("a".into(), id("x"))], false)), "a".into()))]), Some("3")),
        l("fstring-block-in-hole", Node::FStr(vec![FP::Hole(Node::Block(vec![], Some(Box::new(Node::FStr(vec![text("b", "b")])))))]), Some("b")),
        // not String expressions: parse-level only (and inside a hole)
        l("char", Node::Lit("char", "'c'".into(), "(char 99)".into()), None),
        l("char-quote", Node::Lit("char", "'\"'".into(), "(char 34)".into()), None),
        l("int", int_lit(12), None),
        l("int-suffix", Node::Lit("int", "1_0u8".into(), "(int 10 u8)".into()), None),
        l("hex", Node::Lit("hex", "0x1f".into(), "(int 31 -)".into()), None),
        l("float", Node::Lit("float", "2.5".into(), format!("(float {} -)", 2.5f64.to_bits())), None),
        l("ipv4", Node::Lit("ipv4", "1.2.3.4".into(), "(ip 1.2.3.4)".into()), None),
        l("ipv6", Node::Lit("ipv6", "::1".into(), "(ip ::1)".into()), None),
        l("asn", Node::Lit("asn", "AS12".into(), "(asn 12)".into()), None),
        l("bool", Node::Lit("bool", "true".into(), "(bool true)".into()), None),
        l("unit", Node::Unit, None),
        l("empty-record", Node::Rec(vec![], false), None),
    ]
}

/// what the non-String leaves print as inside a hole
fn display_of(kind: &str) -> Option<&'static str> {
    Some(match kind {
        "char" => "c",
        "char-quote" => "\"",
        "int" => "12",
        "int-suffix" => "10",
        "hex" => "31",
        "float" => "2.5",
        "ipv4" => "1.2.3.4",
        "ipv6" => "::1",
        "asn" => "AS12",
        "bool" => "true",
        _ => return None,
    })
}

/// a random f-string from the literal generator's items; holes are `x`, `s` or a small nest
fn random_fstring(p: &mut Prng) -> Leaf {
    let esc_braces = p.chance(1, 4);
    let items = gen_items(p, true, esc_braces);
    let mut parts: Vec<FP> = vec![];
    let mut val = String::new();
    for it in &items {
        match it {
            Item::Hole => {
                let (n, v) = match p.below(4) {
                    0 => (id("x"), "3".to_string()),
                    1 => (id("s"), "S".to_string()),
                    2 => (Node::FStr(vec![text("n", "n"), FP::Hole(id("x"))]), "n3".to_string()),
                    _ => (Node::Block(vec![], Some(Box::new(s_lit("b", "b")))), "b".to_string()),
                };
                val.push_str(&v);
                parts.push(FP::Hole(n));
            }
            other => {
                let raw = spell(std::slice::from_ref(other));
                let m = meaning(std::slice::from_ref(other), "");
                val.push_str(&m);
                parts.push(FP::Text(raw, m));
            }
        }
    }
    Leaf { kind: "fstring-random", node: Node::FStr(parts), val: Some(val) }
}

// ---------------------------------------------------------------- contexts

pub struct Ctx {
    name: &'static str,
    /// the construct with the subject at the position
    build: fn(Node) -> Node,
    /// make a String expression of it (None: it is one already)
    wrap: Option<fn(Node) -> Node>,
    /// the value, from the subject's value
    val: fn(&str) -> String,
    /// evaluating the construct does not need the subject to be a String
    any_type: bool,
}

fn b(n: Node) -> Box<Node> {
    Box::new(n)
}
fn pad(s: &str) -> Node {
    s_lit(s, s)
}
fn get_wrap(n: Node, i: i64) -> Node {
    // match <list>.get(i) { Some(v) => v, None => "none" }
    Node::Match(
        b(Node::Call(b(Node::Field(b(n), "get".into())), vec![int_lit(i)])),
        vec![
            Arm { pat: "Some(v)".into(), guard: None, body: id("v"), comma: true },
            Arm { pat: "None".into(), guard: None, body: pad("none"), comma: false },
        ],
    )
}
fn same(v: &str) -> String {
    v.to_string()
}
fn call(f: &str, args: Vec<Node>) -> Node {
    Node::Call(b(id(f)), args)
}
fn block1(e: Node) -> Node {
    Node::Block(vec![], Some(b(e)))
}
fn yes_no(v: &str) -> String {
    if v == "zz" { "y".into() } else { "n".into() }
}

pub fn contexts() -> Vec<Ctx> {
    let c = |name, build, wrap, val| Ctx { name, build, wrap, val, any_type: false };
    vec![
        c("paren", |e| Node::Paren(b(e)), None, same),
        c("block-last", |e| block1(e), None, same),
        c("block-stmt-first", |e| Node::Block(vec![St::Expr(e)], Some(b(pad("pad")))), None, |_| "pad".into()),
        c("block-stmt-only", |e| Node::Block(vec![St::Expr(e)], None), Some(|n| Node::Block(vec![St::Expr(n)], Some(b(pad("u"))))), |_| "u".into()),
        c("block-let-value", |e| Node::Block(vec![St::Let("t".into(), None, e)], Some(b(id("t")))), None, same),
        c("block-after-let", |e| Node::Block(vec![St::Let("t".into(), None, pad("p"))], Some(b(e))), None, same),
        c("block-after-stmt", |e| Node::Block(vec![St::Expr(call("idf", vec![pad("p")]))], Some(b(e))), None, same),
        c("block-let-typed", |e| Node::Block(vec![St::Let("t".into(), Some("String".into()), e)], Some(b(id("t")))), None, same),
        c("block-assign", |e| Node::Block(vec![St::Let("t".into(), None, pad("p")), St::Assign("t".into(), e)], Some(b(id("t")))), None, same),
        c("block-assign-first", |e| Node::Block(vec![St::Let("t".into(), None, pad("p"))], Some(b(Node::Block(vec![St::Assign("t".into(), e)], Some(b(id("t"))))))), None, same),
        c("list-first", |e| Node::List(vec![e, pad("b")], false), Some(|n| get_wrap(n, 0)), same),
        c("list-second", |e| Node::List(vec![pad("a"), e], false), Some(|n| get_wrap(n, 1)), same),
        c("list-single-trailing-comma", |e| Node::List(vec![e], true), Some(|n| get_wrap(n, 0)), same),
        c("record-first", |e| Node::Rec(vec![("a".into(), e), ("b".into(), pad("p"))], false), Some(|n| Node::Field(b(n), "a".into())), same),
        c("record-second", |e| Node::Rec(vec![("a".into(), pad("p")), ("b".into(), e)], true), Some(|n| Node::Field(b(n), "b".into())), same),
        c("record-single", |e| Node::Rec(vec![("a".into(), e)], false), Some(|n| Node::Field(b(n), "a".into())), same),
        c("typed-record", |e| Node::TRec("R".into(), vec![("a".into(), e)]), Some(|n| Node::Field(b(n), "a".into())), same),
        c("typed-record-second", |e| Node::TRec("R2".into(), vec![("a".into(), pad("p")), ("b".into(), e)]), Some(|n| Node::Field(b(n), "b".into())), same),
        c("call-arg-first", |e| call("cat", vec![e, pad("b")]), None, |v| format!("{v}b")),
        c("call-arg-second", |e| call("cat", vec![pad("a"), e]), None, |v| format!("a{v}")),
        c("call-arg-single", |e| call("idf", vec![e]), None, same),
        c("method-target", |e| Node::Call(b(Node::Field(b(e), "to_string".into())), vec![]), None, same),
        c("operand-left", |e| Node::Bin(b(e), 8, b(pad("b"))), None, |v| format!("{v}b")),
        c("operand-right", |e| Node::Bin(b(pad("a")), 8, b(e)), None, |v| format!("a{v}")),
        Ctx { name: "hole-only", build: |e| Node::FStr(vec![FP::Hole(e)]), wrap: None, val: same, any_type: true },
        Ctx { name: "hole-between-text", build: |e| Node::FStr(vec![text("<", "<"), FP::Hole(e), text(">", ">")]), wrap: None, val: |v| format!("<{v}>"), any_type: true },
        Ctx { name: "hole-after-hole", build: |e| Node::FStr(vec![FP::Hole(id("x")), FP::Hole(e)]), wrap: None, val: |v| format!("3{v}"), any_type: true },
        c("if-then", |e| Node::If(b(id("c")), b(block1(e)), Some(b(block1(pad("b"))))), None, same),
        c("if-else", |e| Node::If(b(id("d")), b(block1(pad("a"))), Some(b(block1(e)))), None, same),
        c("if-condition", |e| Node::If(b(Node::Bin(b(e), 2, b(pad("zz")))), b(block1(pad("y"))), Some(b(block1(pad("n"))))), None, yes_no),
        c("if-condition-right", |e| Node::If(b(Node::Bin(b(pad("zz")), 2, b(e))), b(block1(pad("y"))), Some(b(block1(pad("n"))))), None, yes_no),
        c("match-arm-expr", |e| Node::Match(b(id("o")), vec![
            Arm { pat: "Some(v)".into(), guard: None, body: e, comma: true },
            Arm { pat: "None".into(), guard: None, body: pad("n"), comma: true },
        ]), None, same),
        c("match-arm-block", |e| Node::Match(b(id("o")), vec![
            Arm { pat: "Some(v)".into(), guard: None, body: block1(e), comma: false },
            Arm { pat: "None".into(), guard: None, body: pad("n"), comma: false },
        ]), None, same),
        c("match-last-arm", |e| Node::Match(b(id("o")), vec![
            Arm { pat: "None".into(), guard: None, body: pad("n"), comma: true },
            Arm { pat: "Some(v)".into(), guard: None, body: e, comma: false },
        ]), None, same),
        c("match-guard", |e| Node::Match(b(id("o")), vec![
            Arm { pat: "Some(v)".into(), guard: Some(Node::Bin(b(e), 2, b(pad("zz")))), body: pad("y"), comma: true },
            Arm { pat: "Some(v)".into(), guard: None, body: pad("n"), comma: true },
            Arm { pat: "None".into(), guard: None, body: pad("none"), comma: true },
        ]), None, yes_no),
        c("match-scrutinee", |e| Node::Match(b(Node::Call(b(Node::Field(b(Node::List(vec![e], false)), "get".into())), vec![int_lit(0)])), vec![
            Arm { pat: "Some(v)".into(), guard: None, body: id("v"), comma: true },
            Arm { pat: "None".into(), guard: None, body: pad("none"), comma: true },
        ]), None, same),
    ]
}

/// `return e` / `accept e`: only outermost in a typed program (it leaves the function)
fn return_ctx(kw: &'static str) -> Ctx {
    match kw {
        "return" => Ctx { name: "return-value", build: |e| Node::Return("return", Some(b(e))), wrap: None, val: same, any_type: false },
        "accept" => Ctx { name: "accept-value", build: |e| Node::Return("accept", Some(b(e))), wrap: None, val: same, any_type: false },
        _ => Ctx { name: "reject-value", build: |e| Node::Return("reject", Some(b(e))), wrap: None, val: same, any_type: false },
    }
}

// ------------------------------------------------------------------ checks

const PRELUDE: &str = "record R { a: String }\nrecord R2 { a: String, b: String }\nfn idf(s: String) -> String { s }\nfn cat(a: String, b: String) -> String { a + b }\n";

fn program(expr_src: &str) -> String {
    format!("{PRELUDE}fn main(s: String, x: i32, c: bool, d: bool) -> String {{\n  let o: Option[i32] = Option.Some(1);\n  {expr_src}\n}}\n")
}

fn run_program(src: &str) -> Result<String, String> {
    let mut pkg = compile(src)?;
    let f = pkg
        .get_function::<fn(roto::RotoString, i32, bool, bool) -> roto::RotoString>("main")
        .map_err(|e| format!("{e}"))?;
    Ok(f.call("S".into(), 3, true, false).to_string())
}

fn short(e: &str) -> String {
    // strip ANSI colour and keep the message readable
    let mut out = String::new();
    let mut skip = false;
    for ch in e.chars() {
        if ch == '\u{1b}' {
            skip = true;
        } else if skip {
            if ch == 'm' {
                skip = false;
            }
        } else {
            out.push(ch);
        }
    }
    out.chars().take(400).collect()
}

pub struct Case {
    /// `ctx/ctx/…` outermost first
    path: String,
    leaf: &'static str,
    node: Node,
    /// Some: the nest is a String expression with this value
    val: Option<String>,
}

fn key_of(c: &Case) -> String {
    format!("construct|{}|{}", c.path, c.leaf)
}

fn style_name(s: Style) -> &'static str {
    match s {
        Style::Spaced => "spaced",
        Style::Compact => "compact",
        Style::Lines => "lines",
    }
}

/// P: real parse tree vs the printed tree vs the Lean model
pub fn check_parse(rep: &mut Report, drv: &mut Driver, cases: &[Case], style: Style) {
    let frags: Vec<Frag> = cases.iter().map(|c| c.node.frag(style, false)).collect();
    let mut reqs = vec![];
    let mut idx = vec![];
    for (i, f) in frags.iter().enumerate() {
        if let Some(s) = &f.syms {
            reqs.push(format!("c09 la gen {}", s.join(" ")));
            idx.push(i);
        }
    }
    let ans = drv.ask_all(&reqs);
    let mut lean: Vec<Option<&String>> = vec![None; cases.len()];
    for (k, i) in idx.iter().enumerate() {
        lean[*i] = Some(&ans[k]);
    }
    for (i, c) in cases.iter().enumerate() {
        rep.evaluations += 1;
        let src = &frags[i].text;
        let want = c.node.sexp();
        // (a string / char token at the very end of the input does not lex: keep a blank after it)
        let real = hook::parse_expr(&format!("{src} "));
        let depth = c.path.matches('/').count() + 1;
        rep.class(format!("construct|{}|{}|{}", c.path, c.leaf, if real.is_ok() { "parsed" } else { "rejected" }));
        rep.hist("construct-depth", depth.to_string());
        rep.hist("construct-leaf", c.leaf);
        rep.hist("construct-style", style_name(style));
        let ok = real.as_deref() == Ok(want.as_str());
        if !ok {
            rep.violation(
                "a bracketed construct does not parse to the tree the documented grammar gives its text (leaf × position)",
                &key_of(c),
                json!({"kind": "construct-parse", "src": src, "expected": want, "real": match &real { Ok(t) => t.clone(), Err(e) => format!("error: {}", short(e)) }}),
            );
        }
        if let Some(l) = lean[i] {
            let model_expect = if ok { format!("ok {}", c.node.abstract_sexp()) } else if real.is_err() { "err".to_string() } else { continue };
            if *l != model_expect {
                rep.mismatch(
                    "Lean model of atom/block/record/separated/f_string (generated look-ahead facts) differs from the real parser",
                    json!({"src": src, "symbols": frags[i].syms.as_ref().map(|s| s.join(" ")), "lean": l, "real": model_expect}),
                );
            }
        }
        if i % 1777 == 3 {
            rep.sample(json!({"src": src, "tree": want, "lean": lean[i]}));
        }
    }
}

/// J: String-typed nests on the JIT
pub fn check_eval(rep: &mut Report, cases: &[Case], style: Style) {
    for c in cases {
        let Some(want) = &c.val else { continue };
        rep.evaluations += 1;
        let src = program(&c.node.frag(style, false).text);
        let got = run_program(&src);
        rep.class(format!("construct-eval|{}|{}", c.path, c.leaf));
        rep.hist("construct-eval", c.path.split('/').next().unwrap_or(""));
        match &got {
            Ok(v) if v == want => {}
            Ok(v) => rep.violation(
                "a bracketed construct evaluates to another value than its text denotes (leaf × position)",
                &key_of(c),
                json!({"kind": "construct-eval", "src": src, "expect": want, "got": v}),
            ),
            Err(e) => rep.violation(
                "a well-typed bracketed construct is rejected (leaf × position)",
                &key_of(c),
                json!({"kind": "construct-eval", "src": src, "expect": want, "error": short(e)}),
            ),
        }
    }
}

/// the leftmost token is `if` / `match`: at the start of a block statement such
/// an expression ends at its closing brace (documented: `IfStmt ::= If ';'?`)
fn starts_with_keyword(n: &Node) -> bool {
    match n {
        Node::If(..) | Node::Match(..) => true,
        Node::Bin(l, _, _) => starts_with_keyword(l),
        Node::Field(e, _) => starts_with_keyword(e),
        Node::Call(f, _) => starts_with_keyword(f),
        _ => false,
    }
}

/// a typed record `T { … }` outside any bracket: not allowed where the grammar
/// forbids records (condition of `if`, scrutinee of `match`)
fn spine_has_typed_record(n: &Node) -> bool {
    match n {
        Node::TRec(..) => true,
        Node::Bin(l, _, r) => spine_has_typed_record(l) || spine_has_typed_record(r),
        Node::Field(e, _) => spine_has_typed_record(e),
        Node::Call(f, _) => spine_has_typed_record(f),
        Node::Return(_, Some(e)) => spine_has_typed_record(e),
        _ => false,
    }
}

/// the leftmost token is `{`: after `=>` that is the arm's block
/// (documented: `MatchArm ::= Pattern '=>' (Block | Expr ',')`, in that order)
fn starts_with_lcurly(n: &Node) -> bool {
    match n {
        Node::Rec(..) | Node::Block(..) => true,
        Node::Bin(l, _, _) => starts_with_lcurly(l),
        Node::Field(e, _) => starts_with_lcurly(e),
        Node::Call(f, _) => starts_with_lcurly(f),
        _ => false,
    }
}

fn apply(ctx: &Ctx, inner: &Case, typed: bool) -> Case {
    let mut subject = inner.node.clone();
    if matches!(ctx.name, "match-arm-expr" | "match-last-arm") && starts_with_lcurly(&subject) {
        subject = Node::Paren(b(subject));
    }
    let left_spine = matches!(ctx.name, "operand-left" | "method-target" | "if-condition" | "match-guard");
    let no_records = matches!(ctx.name, "if-condition" | "if-condition-right");
    if (left_spine && starts_with_keyword(&subject)) || (no_records && spine_has_typed_record(&subject)) {
        subject = Node::Paren(b(subject));
    }
    // an operator expression as right operand / call or field target needs parentheses
    if matches!(ctx.name, "operand-right" | "method-target") && matches!(subject, Node::Bin(..)) {
        subject = Node::Paren(b(subject));
    }
    let node = (ctx.build)(subject);
    // typed: the wrapped construct is the case (it contains the bare construct)
    let (node, val) = match (&inner.val, typed) {
        (Some(v), true) => (match ctx.wrap { Some(w) => w(node), None => node }, Some((ctx.val)(v))),
        _ => (node, None),
    };
    Case { path: if inner.path.is_empty() { ctx.name.to_string() } else { format!("{}/{}", ctx.name, inner.path) }, leaf: inner.leaf, node, val }
}

fn leaf_case(l: &Leaf) -> Case {
    Case { path: String::new(), leaf: l.kind, node: l.node.clone(), val: l.val.clone() }
}

/// a non-String leaf inside a hole is a String expression
fn holed(l: &Leaf) -> Option<Case> {
    let d = display_of(l.kind)?;
    Some(Case { path: "hole-only".into(), leaf: l.kind, node: Node::FStr(vec![FP::Hole(l.node.clone())]), val: Some(d.to_string()) })
}

pub fn run(rep: &mut Report, drv: &mut Driver, p: &mut Prng, thorough: bool) {
    let ctxs = contexts();
    let leaves = fixed_leaves();
    let rets = [return_ctx("return"), return_ctx("accept"), return_ctx("reject")];

    // ---- boundary table 1: every leaf at every position (bare and typed)
    let mut parse1: Vec<Case> = leaves.iter().map(leaf_case).collect();
    let mut eval1: Vec<Case> = leaves.iter().map(leaf_case).collect();
    for l in &leaves {
        for c in ctxs.iter().chain(rets.iter()) {
            parse1.push(apply(c, &leaf_case(l), false));
            if matches!(c.name, "accept-value" | "reject-value") {
                continue; // parse level only: a function cannot accept / reject
            }
            if l.val.is_some() {
                eval1.push(apply(c, &leaf_case(l), true));
            } else if c.any_type {
                if let Some(d) = display_of(l.kind) {
                    let mut k = apply(c, &leaf_case(l), false);
                    k.val = Some((c.val)(d));
                    eval1.push(k);
                }
            } else if let Some(h) = holed(l) {
                // the leaf in a hole, the hole at the position
                let mut k = apply(c, &h, true);
                k.leaf = l.kind;
                eval1.push(k);
            }
        }
    }
    for st in [Style::Spaced, Style::Compact, Style::Lines] {
        check_parse(rep, drv, &parse1, st);
    }
    check_eval(rep, &eval1, Style::Spaced);
    check_eval(rep, &eval1, Style::Compact);

    // ---- boundary table 2: every position inside every position
    let core: Vec<&Leaf> = leaves.iter().filter(|l| matches!(l.kind, "ident" | "string" | "fstring-word" | "fstring-text-hole-text" | "fstring-hole" | "char" | "empty-record")).collect();
    let mut parse2: Vec<Case> = vec![];
    let mut eval2: Vec<Case> = vec![];
    for l in &core {
        for inner in &ctxs {
            let pi = apply(inner, &leaf_case(l), false);
            let ti = if l.val.is_some() { Some(apply(inner, &leaf_case(l), true)) } else { None };
            for outer in ctxs.iter().chain(rets.iter()) {
                parse2.push(apply(outer, &pi, false));
                if let Some(ti) = &ti {
                    if matches!(l.kind, "fstring-word" | "fstring-text-hole-text" | "string") && !matches!(outer.name, "accept-value" | "reject-value") {
                        eval2.push(apply(outer, ti, true));
                    }
                }
            }
        }
    }
    check_parse(rep, drv, &parse2, Style::Spaced);
    check_parse(rep, drv, &parse2, Style::Compact);
    check_eval(rep, &eval2, Style::Compact);

    // ---- random nests, random f-strings
    let n = if thorough { 6000 } else { 500 };
    let mut parse3: Vec<Case> = vec![];
    let mut eval3: Vec<Case> = vec![];
    for i in 0..n {
        let leaf = if p.chance(1, 2) { random_fstring(p) } else {
            let l = &leaves[p.below(leaves.len() as u64) as usize];
            Leaf { kind: l.kind, node: l.node.clone(), val: l.val.clone() }
        };
        let depth = 1 + p.below(4) as usize;
        let mut pc = leaf_case(&leaf);
        let mut tc = if leaf.val.is_some() { Some(leaf_case(&leaf)) } else { holed(&leaf) };
        for _ in 0..depth {
            let c = &ctxs[p.below(ctxs.len() as u64) as usize];
            pc = apply(c, &pc, false);
            tc = tc.map(|t| apply(c, &t, true));
        }
        if i % 7 == 0 {
            let r = &rets[p.below(3) as usize];
            pc = apply(r, &pc, false);
            if r.name == "return-value" {
                tc = tc.map(|t| apply(r, &t, true));
            }
        }
        parse3.push(pc);
        if let Some(t) = tc {
            eval3.push(t);
        }
    }
    check_parse(rep, drv, &parse3, Style::Spaced);
    check_parse(rep, drv, &parse3, Style::Compact);
    check_eval(rep, &eval3, if p.chance(1, 2) { Style::Spaced } else { Style::Compact });
}

pub fn replay(rep: &mut Report, case: &Value) -> bool {
    match case["kind"].as_str().unwrap_or("") {
        "construct-parse" => {
            let src = case["src"].as_str().unwrap_or("");
            let want = case["expected"].as_str().unwrap_or("");
            rep.evaluations += 1;
            let real = hook::parse_expr(&format!("{src} "));
            if real.as_deref() != Ok(want) {
                rep.violation(
                    "a bracketed construct does not parse to the tree the documented grammar gives its text",
                    "construct|replay",
                    json!({"kind": "construct-parse", "src": src, "expected": want, "real": match &real { Ok(t) => t.clone(), Err(e) => format!("error: {}", short(e)) }}),
                );
            }
            true
        }
        "construct-eval" => {
            let src = case["src"].as_str().unwrap_or("");
            let want = case["expect"].as_str().unwrap_or("");
            rep.evaluations += 1;
            let got = run_program(src);
            if got.as_deref() != Ok(want) {
                rep.violation(
                    "a bracketed construct does not evaluate to the value its text denotes",
                    "construct|replay",
                    json!({"kind": "construct-eval", "src": src, "expect": want, "got": format!("{got:?}").chars().take(400).collect::<String>()}),
                );
            }
            true
        }
        _ => false,
    }
}
